#!/venv/bin/python
"""Entry point: run_check.py <Cxx> [--tier quick|thorough] [--replay file] [--only sub,...]

VERIF_SEED (default 1) seeds every random choice; VERIF_TIER overrides --tier.
Exit 0: property held on everything explored; 1: VIOLATION line(s) printed; 2: harness error.
"""
import argparse
import os
import sys

sys.path.insert(0, os.path.dirname(os.path.abspath(__file__)))
os.environ.setdefault("PYTHONHASHSEED", "0")


def main():
    ap = argparse.ArgumentParser()
    ap.add_argument("prop")
    ap.add_argument("--tier", default=None, choices=["quick", "thorough"])
    ap.add_argument("--replay", default=None)
    ap.add_argument("--only", default=None)
    ap.add_argument("--scale", type=float, default=1.0, help="multiply case budgets")
    a = ap.parse_args()
    tier = a.tier or os.environ.get("VERIF_TIER") or "quick"
    if tier not in ("quick", "thorough"):
        tier = "quick"
    try:
        seed = int(os.environ.get("VERIF_SEED", "1"))
    except ValueError:
        seed = 1
    try:
        from vlib import runner

        rc = runner.run_property(a.prop.upper(), tier, seed, replay=a.replay,
                                 only=a.only.split(",") if a.only else None, scale=a.scale)
    except SystemExit:
        raise
    except BaseException as e:  # harness failure, never a violation
        import traceback

        traceback.print_exc()
        print(f"HARNESS-ERROR: {e!r}", file=sys.stderr)
        rc = 2
    sys.exit(rc)


if __name__ == "__main__":
    main()
