"""C03 - every route to the same operator-with-BC result agrees.

Differential oracle: route R1 (field.apply_operator, default backend) against
R2 grid.make_operator(backend='numba') with and without ``out``; R3 backend 'scipy'
(Cartesian grids); R4 set_ghost_cells + make_operator_no_bc; R5 compiled vs interpreted
ghost-cell setter; R6 the sparse matrix representation of the Laplacian used by the Poisson
solvers; R7 multi-threaded vs serial kernels (separate JIT sub-check).
"""

from __future__ import annotations

import warnings

import numpy as np
from hypothesis import strategies as st

from vlib import env

env.setup()

import pde  # noqa: E402
from pde.backends import get_backend  # noqa: E402

from vlib import gen_bcs as gb  # noqa: E402
from vlib import gen_fields as gf  # noqa: E402
from vlib.core import Rejected, SubCheck, Violation  # noqa: E402
from vlib.gen_grids import build_grid, dim_of, grid_label, grids  # noqa: E402

PROPERTY = "C03"
RULE = ("cases = (grid, operator+options, BC assignment of the input rank, dtype, data seed, t); "
        "distinct = (grid class/shape/hole/periodicity, operator, options, BC kinds, dtype)")
ASSUMPTIONS = [
    "normal_* conditions only with rank-reducing operators (divergence, tensor_divergence): "
    "operators that keep or raise the rank need the full field at the boundary (documented)",
    "spherical inputs respect the symmetry preconditions the operators assert in safe mode",
    "thread interleavings cannot be chosen by the harness: thread counts and repetitions are sampled",
    "the matrix route is compared for constant first/second-order conditions only (those implementing "
    "get_sparse_matrix_data); scipy Laplacians on anisotropic grids are a documented rejection",
]


def numba_args(t):
    import numba as nb

    if nb.config.DISABLE_JIT:
        return {"t": float(t)}
    d = nb.typed.Dict.empty(nb.types.unicode_type, nb.types.float64)
    d["t"] = float(t)
    return d


@st.composite
def cases(draw, max_cells=6, jit=False, ops=None, matrix_only=False, threads=False):
    if threads:
        # parallel kernels exist for Cartesian grids with 2 and 3 axes
        gspec = draw(grids(classes=("unit", "cart"), min_axes=2, max_axes=3, min_cells=3, max_cells=max_cells,
                           max_total=1500, len_lo=1e-1, len_hi=1e1, offset_mag=10.0))
        op = draw(gf.operators(gspec, names=ops, with_patterns=False))
    elif matrix_only:
        gspec = draw(grids(min_cells=2, max_cells=max_cells, max_total=120, len_lo=1e-1, len_hi=1e1,
                           offset_mag=10.0))
        op = {"name": "laplace", "opts": {}}
    else:
        gspec = draw(grids(max_cells=max_cells, max_total=150, len_lo=1e-2, len_hi=1e2,
                           offset_mag=10.0, max_axes=2 if jit else 3))
        op = draw(gf.operators(gspec, names=ops, with_patterns=not jit))
    rank_in, rank_out, _ = gf.op_info(op["name"])
    dtype = draw(st.sampled_from(["f8", "f8", "c16"]))
    allow_normal = op["name"] in ("divergence", "tensor_divergence")
    if matrix_only:
        bc = draw(gb.bc_assignments(gspec, rank=0, dtype=dtype, allow_normal=False, allow_expr=False,
                                    styles=("sides", "axis", "named")))
    else:
        bc = draw(gb.bc_assignments(gspec, rank=rank_in, dtype=dtype, allow_normal=allow_normal,
                                    allow_expr=True))
    return {"grid": gspec, "op": op, "dtype": dtype, "bc": bc, "seed": draw(st.integers(0, 2**31)),
            "t": draw(st.sampled_from([0.0, 1.0, 0.37])), "dist": draw(st.sampled_from(["normal", "int"]))}


def setup_case(case):
    gspec, op, dtype = case["grid"], case["op"], case["dtype"]
    rank_in, rank_out, _ = gf.op_info(op["name"])
    if gb.robin_denominators(case["bc"], gspec, dtype, case["t"]) < 0.1:
        raise Rejected("singular Robin condition (generator guard)")
    grid = build_grid(gspec)
    data = gf.field_data(gspec, rank_in, case["seed"], dtype, case["dist"])
    cls = [pde.ScalarField, pde.VectorField, pde.Tensor2Field][rank_in]
    field = cls(grid, data.copy(), dtype=data.dtype)
    with warnings.catch_warnings():
        warnings.simplefilter("ignore", DeprecationWarning)
        bcs, style = gb.make_boundaries(case["bc"], gspec, grid, dtype)
    return grid, gspec, op, field, data, bcs, style


def compare(name, a, b, tol, case):
    a, b = np.asarray(a), np.asarray(b)
    if a.shape != b.shape:
        raise Violation(f"route {name}: shape {b.shape} != {a.shape}", key=f"{name}:shape")
    bad = ~(np.abs(a - b) <= tol)
    if np.any(bad):
        i = np.unravel_index(np.argmax(np.where(bad, np.abs(a - b), 0)), a.shape)
        op = case["op"]
        raise Violation(
            f"route {name} disagrees with field.apply_operator for {op['name']}{op['opts']} on "
            f"{grid_label(case['grid'])} dtype={case['dtype']}: |diff|={np.abs(a - b)[i]:.3g} > tol {tol:.3g} "
            f"at {tuple(int(k) for k in i)} (values {a[i]!r} vs {b[i]!r}); bc={gb.bc_kinds_key(case['bc'])}",
            key=f"{name}:{case['grid']['cls']}:{op['name']}")


def record(case, style, routes):
    gspec, bc, op = case["grid"], case["bc"], case["op"]
    labels = [f"grid:{grid_label(gspec)}", f"op:{op['name']}", f"style:{style}", f"dtype:{case['dtype']}"]
    labels += [f"route:{r}" for r in routes]
    for k, v in op["opts"].items():
        labels.append(f"opt:{k}={v}")
    for ax in bc["axes"]:
        if isinstance(ax, str):
            labels.append(f"kind:{ax}")
        else:
            for k in ("low", "high"):
                labels.append(f"kind:{'normal_' if ax[k]['normal'] else ''}{ax[k]['kind']}")
    key = [gspec["cls"], gspec["shape"], gspec.get("radius", [0])[0] > 0, gspec["periodic"],
           op, gb.bc_kinds_key(bc), case["dtype"], sorted(routes)]
    nt = gb.is_nontrivial(bc) and len(routes) >= 2
    return {"nt": nt, "key": key, "labels": sorted(set(labels))}


def check_routes(case):
    grid, gspec, op, field, data, bcs, style = setup_case(case)
    name, opts = op["name"], op["opts"]
    t = case["t"]
    routes = []
    # R1: field method / apply_operator (reference route)
    f1 = field.copy()
    r1 = f1.apply_operator(name, bcs, args={"t": t}, **opts).data
    u_full = f1._data_full
    tol = gf.op_tolerance(gspec, name, u_full)
    if not np.all(np.isfinite(r1)):
        raise Rejected("non-finite reference result")
    # R2: make_operator (numba backend), without and with out
    op2 = grid.make_operator(name, bcs, backend="numba", **opts)
    r2 = op2(data.copy(), args=numba_args(t))
    compare("make_operator[numba]", r1, r2, tol, case)
    out = np.full_like(r1, np.nan)
    res = op2(data.copy(), out, args=numba_args(t))
    compare("make_operator[numba,out]", r1, out, tol, case)
    if res is not out and not np.shares_memory(res, out):
        raise Violation("make_operator(..., out) did not return the out array", key="out-identity")
    routes += ["R2", "R2out"]
    # R4: set_ghost_cells + raw operator
    f4 = field.copy()
    f4.set_ghost_cells(bcs, args={"t": t})
    raw = grid.make_operator_no_bc(name, backend="numba", **opts)
    out4 = np.full_like(r1, np.nan)
    raw(f4._data_full, out4)
    compare("set_ghost_cells+make_operator_no_bc", r1, out4, tol, case)
    routes.append("R4")
    # R5: compiled vs interpreted ghost-cell setter on the padded array (corners excluded)
    a = np.full(f4._data_full.shape, 7.25, dtype=data.dtype)
    a[(Ellipsis,) + (slice(1, -1),) * grid.num_axes] = data
    b = a.copy()
    bcs.set_ghost_cells(a, args={"t": t})
    get_backend("numba").make_ghost_cell_setter(bcs)(b, args=numba_args(t))
    nax = grid.num_axes
    off = a.ndim - nax
    for ax in range(nax):
        for pos in (0, -1):
            idx = gb.face_index(nax, off, ax, pos)
            ga, gb_ = a[idx], b[idx]
            stol = 1e-13 * (np.abs(ga) + np.max(np.abs(data)) if data.size else 0) + 1e-300
            if not np.all(np.abs(ga - gb_) <= stol):
                raise Violation(
                    f"compiled and interpreted ghost-cell setters differ on axis {ax} side {pos}: "
                    f"{np.max(np.abs(ga - gb_)):.3g}; bc={gb.bc_kinds_key(case['bc'])} grid={grid_label(gspec)}",
                    key=f"setter:{gspec['cls']}")
    routes.append("R5")
    # R3: scipy backend where registered
    if gspec["cls"] in ("unit", "cart") and name in gf.SCIPY_OPS and \
            set(opts) <= ({"method"} if name in ("gradient", "divergence") else set()):
        try:
            op3 = grid.make_operator(name, bcs, backend="scipy", **opts)
            r3 = op3(data.copy(), args={"t": t})
            r3b = field.copy().apply_operator(name, bcs, backend="scipy", args={"t": t}, **opts).data
        except RuntimeError as e:  # documented: anisotropic scipy Laplacian
            if "isotropic" not in str(e).lower() and "anisotropic" not in str(e).lower():
                raise
        else:
            compare("make_operator[scipy]", r1, r3, tol, case)
            compare("apply_operator[scipy]", r1, r3b, tol, case)
            routes.append("R3")
    return record(case, style, routes)


def laplace_matrix(gspec, bcs):
    cls = gspec["cls"]
    if cls in ("unit", "cart"):
        from pde.backends.scipy.operators.cartesian import _get_laplace_matrix
    elif cls == "polar":
        from pde.backends.scipy.operators.polar_sym import _get_laplace_matrix
    elif cls == "sph":
        from pde.backends.scipy.operators.spherical_sym import _get_laplace_matrix
    else:
        from pde.backends.scipy.operators.cylindrical_sym import _get_laplace_matrix
    return _get_laplace_matrix(bcs)


def check_matrix(case):
    """R6: sparse representation M u + v of the Laplacian with BCs (Poisson solvers)"""
    if case["dtype"] != "f8":
        case = dict(case, dtype="f8")
    grid, gspec, op, field, data, bcs, style = setup_case(case)
    f1 = field.copy()
    opts = {"conservative": True} if gspec["cls"] == "sph" else {}
    r1 = f1.apply_operator("laplace", bcs, **opts).data
    tol = gf.op_tolerance(gspec, "laplace", f1._data_full, rel=1e-11)
    matrix, vector = laplace_matrix(gspec, bcs)
    m = np.asarray(matrix.todense())
    v = np.asarray(vector.todense()).ravel()
    r6 = (m @ data.ravel() + v).reshape(data.shape)
    compare("sparse-matrix", r1, r6, tol, case)
    return record(case, style, ["R1", "R6"])


def check_threads(case):
    """R7: parallel kernels under several thread counts vs serial kernels"""
    import numba as nb

    grid, gspec, op, field, data, bcs, style = setup_case(case)
    name, opts = op["name"], op["opts"]
    t = case["t"]
    serial = get_backend("numba", config={"multithreading": "never"})
    par = get_backend("numba", config={"multithreading": "always", "multithreading_threshold": 1})
    op_s = grid.make_operator(name, bcs, backend=serial, **opts)
    op_p = grid.make_operator(name, bcs, backend=par, **opts)
    r_s = op_s(data.copy(), args=numba_args(t))
    f1 = field.copy()
    f1.set_ghost_cells(bcs, args={"t": t})
    tol = gf.op_tolerance(gspec, name, f1._data_full)
    nmax = nb.config.NUMBA_NUM_THREADS
    raw_p = par.get_operator_info(grid, name).factory(grid, backend=par, **opts)
    raw_s = serial.get_operator_info(grid, name).factory(grid, backend=serial, **opts)
    is_par = bool(getattr(raw_p, "targetoptions", {}).get("parallel"))
    if bool(getattr(raw_s, "targetoptions", {}).get("parallel")):
        raise Violation("kernel built for multithreading='never' is parallel", key="threads:serial-is-parallel")
    for k in sorted({1, 2, 3, min(5, nmax), nmax}):
        if k > nmax:
            continue
        nb.set_num_threads(k)
        for rep in range(3):
            r_p = op_p(data.copy(), args=numba_args(t))
            compare(f"threads={k}", r_s, r_p, tol, case)
    nb.set_num_threads(1)
    rec = record(case, style, ["serial", "R7"])
    rec["labels"].append("parallel-kernel" if is_par else "serial-kernel-only")
    rec["nt"] = is_par  # a silently serial run is not coverage
    return rec


def const_conditions(bcs):
    """the constant-value conditions (Dirichlet, Neumann, Robin, curvature ...) of a Boundaries object"""
    from pde.grids.boundaries.local import ConstBCBase, _PeriodicBC

    res = []
    for axis_bc in bcs:
        for side in ("low", "high"):
            bc = getattr(axis_bc, side, None)
            if isinstance(bc, ConstBCBase) and not isinstance(bc, _PeriodicBC):
                res.append(bc)
    return res


def full_value(bc, val):
    """value broadcast to the shape tensor + boundary that link_value expects"""
    val = np.asarray(val)
    if val.shape == tuple(bc._shape_tensor):
        val = val.reshape(val.shape + (1,) * len(bc._shape_boundary))
    return np.broadcast_to(val, tuple(bc._shape_tensor) + tuple(bc._shape_boundary))


def new_value(bc, mul, add):
    from pde.grids.boundaries.local import MixedBC

    v = np.asarray(bc.value)
    if isinstance(bc, MixedBC):
        # keeps the Robin denominator 2 + dx*value away from zero
        return np.abs(v) * abs(mul) + abs(add)
    return v * mul + add


def check_update(case):
    try:
        return _check_update(case)
    finally:
        import numba as nb

        if nb.config.DISABLE_JIT:
            # Artefact of the interpreted numba code (NUMBA_DISABLE_JIT=1, our breadth mode): a cached
            # "compiled" operator is a python closure that reads the condition OBJECT when it is called, so after
            # this case changed the values of its conditions the cache entry made for the old values returns
            # results for the new ones - to the next case that asks for equal conditions (found when the
            # shrinker ran two such cases in a row).  Compiled operators freeze the values when they are built
            # (checked: with the JIT enabled a fresh equal condition gets correct results), so the entries
            # of this case are dropped instead of reporting the artefact.
            be = get_backend("numba")
            if hasattr(be, "_cache_methods"):
                be._cache_methods.clear()


def _check_update(case):
    """History on ONE Boundaries object (after missed seed C03-6): the conditions are used through some
    routes, then their values are changed - with the documented ``value`` setter or, for linked values, by
    writing into the linked array - and every route is taken again.  Reference: a fresh, never used
    Boundaries object carrying the new values."""
    grid, gspec, op, field, data, bcs, style = setup_case(case)
    name, opts = op["name"], op["opts"]
    t = case["t"]
    how = case["how"]
    mul, add = case["mul"], case["add"]
    consts = const_conditions(bcs)
    if not consts:
        return {"nt": False, "labels": ["no-constant-condition"]}
    linked = []
    import numba as nb

    # (float32 arrays linked to conditions of a float64 field: only with the interpreted numba code - compiled,
    # the setter fails to type, a loud limitation)
    link_f4 = how == "link" and case.get("link_dtype") == "f4" and case["dtype"] == "f8" and bool(nb.config.DISABLE_JIT)
    kept_ok = False
    if how == "link" and not nb.config.DISABLE_JIT and grid.num_axes < 2:
        # compiled setters do not type for 0-d linked arrays (boundaries of grids with one axis); loud
        how = "setter"
    if how == "link":
        from pde.grids.boundaries.local import ConstBC1stOrderBase, MixedBC

        # operators/setters built before the update follow a linked array only for first-order conditions
        # (the compiled setter of second-order conditions takes the values when it is built)
        kept_ok = all(isinstance(bc, ConstBC1stOrderBase) for bc in consts)
        # float32 arrays: not for Robin conditions (their compiled coefficients are then computed in single
        # precision: 1e-9 relative, a precision matter and not a disagreement of routes)
        if link_f4 and any(isinstance(bc, MixedBC) for bc in consts):
            link_f4 = False

        # linked Robin conditions: only with a scalar `const` (the compiled setter of a linked MixedBC
        # treats `const` as one number; the combination with a tensor-valued const is not supported)
        if any(isinstance(bc, MixedBC) and np.asarray(bc.const).ndim > 0 for bc in consts):
            how = "setter"
    if how == "link":
        for bc in consts:
            # (the value of an automatic condition is an integer array: the linked array gets the data type
            # of the field, otherwise writing the new value would truncate it)
            ldt = np.result_type(np.asarray(bc.value).dtype, data.dtype)
            if link_f4:
                ldt = np.float32  # (after missed seed C03-7: the compiled getter copied non-float64 linked arrays)
            arr = np.array(full_value(bc, bc.value), dtype=ldt, order="C")
            bc.link_value(arr)
            linked.append(arr)
    # ---- first use (warms whatever the conditions or the grid remember) --------------------------
    warm = case["warm"]
    if "field" in warm:
        field.copy().apply_operator(name, bcs, args={"t": t}, **opts)
    kept_op = kept_setter = None
    if "numba" in warm:
        kept_op = grid.make_operator(name, bcs, backend="numba", **opts)
        kept_op(data.copy(), args=numba_args(t))
    if "setter" in warm:
        a = field.copy()
        a.set_ghost_cells(bcs, args={"t": t})
        kept_setter = get_backend("numba").make_ghost_cell_setter(bcs)
        kept_setter(a._data_full, args=numba_args(t))
    scipy_ok = gspec["cls"] in ("unit", "cart") and name in gf.SCIPY_OPS and \
        set(opts) <= ({"method"} if name in ("gradient", "divergence") else set())
    if "scipy" in warm and scipy_ok:
        try:
            grid.make_operator(name, bcs, backend="scipy", **opts)(data.copy(), args={"t": t})
        except RuntimeError as e:
            if "isotropic" not in str(e).lower():
                raise
            scipy_ok = False
    # (the matrix route as in `routes_matrix`: at least two cells per axis, conditions that have a sparse
    # representation)
    matrix_ok = name == "laplace" and not opts and case["dtype"] == "f8" and gspec["cls"] != "sph" and \
        min(gspec["shape"]) >= 2 and \
        all(hasattr(bc, "get_sparse_matrix_data") for ax in bcs
            for bc in (getattr(ax, "low", None), getattr(ax, "high", None)) if bc is not None)
    if "matrix" in warm and matrix_ok:
        try:
            laplace_matrix(gspec, bcs)
        except NotImplementedError:
            matrix_ok = False
    if "virtual" in warm:
        for bc in consts:
            bc.get_virtual_point_data() if hasattr(bc, "get_virtual_point_data") else None
    # ---- change the values ------------------------------------------------------------------------
    with warnings.catch_warnings():
        warnings.simplefilter("ignore", DeprecationWarning)
        fresh, _ = gb.make_boundaries(case["bc"], gspec, grid, case["dtype"])
    for i, (bc, ref) in enumerate(zip(consts, const_conditions(fresh))):
        val = new_value(ref, mul, add)
        if link_f4:
            val = np.asarray(val).astype(np.float32).astype(float)  # what a float32 array holds exactly
        ref.value = val
        if how == "link":
            linked[i][...] = full_value(bc, val)
        else:
            bc.value = val
    # ---- every route again, on the used object ----------------------------------------------------
    fr = field.copy()
    ref = fr.apply_operator(name, fresh, args={"t": t}, **opts).data
    if not np.all(np.isfinite(ref)):
        raise Rejected("non-finite reference result")
    tol = gf.op_tolerance(gspec, name, fr._data_full)
    tag = f"after-{how}-update:"
    routes = []
    r1 = field.copy().apply_operator(name, bcs, args={"t": t}, **opts).data
    compare(tag + "field.apply_operator", ref, r1, tol, case)
    routes.append("U1")
    if how == "link":
        # linked values are read on every call: operators and setters built BEFORE the array was written to
        # follow the update as well
        if kept_op is not None and kept_ok:
            compare(tag + "kept make_operator[numba]", ref, kept_op(data.copy(), args=numba_args(t)), tol, case)
            routes.append("U2kept")
        if kept_setter is not None and kept_ok:
            fk = field.copy()
            kept_setter(fk._data_full, args=numba_args(t))
            outk = np.full_like(ref, np.nan)
            grid.make_operator_no_bc(name, backend="numba", **opts)(fk._data_full, outk)
            compare(tag + "kept make_ghost_cell_setter+make_operator_no_bc", ref, outk, tol, case)
            routes.append("U5kept")
    r2 = grid.make_operator(name, bcs, backend="numba", **opts)(data.copy(), args=numba_args(t))
    compare(tag + "make_operator[numba]", ref, r2, tol, case)
    routes.append("U2")
    f4 = field.copy()
    f4.set_ghost_cells(bcs, args={"t": t})
    out4 = np.full_like(ref, np.nan)
    grid.make_operator_no_bc(name, backend="numba", **opts)(f4._data_full, out4)
    compare(tag + "set_ghost_cells+make_operator_no_bc", ref, out4, tol, case)
    f5 = field.copy()
    get_backend("numba").make_ghost_cell_setter(bcs)(f5._data_full, args=numba_args(t))
    out5 = np.full_like(ref, np.nan)
    grid.make_operator_no_bc(name, backend="numba", **opts)(f5._data_full, out5)
    compare(tag + "make_ghost_cell_setter+make_operator_no_bc", ref, out5, tol, case)
    routes += ["U4", "U5"]
    if scipy_ok:
        r3 = grid.make_operator(name, bcs, backend="scipy", **opts)(data.copy(), args={"t": t})
        compare(tag + "make_operator[scipy]", ref, r3, tol, case)
        routes.append("U3")
    if matrix_ok:
        try:
            matrix, vector = laplace_matrix(gspec, bcs)
        except NotImplementedError:
            pass
        else:
            r6 = (np.asarray(matrix.todense()) @ data.ravel() + np.asarray(vector.todense()).ravel()).reshape(data.shape)
            compare(tag + "sparse-matrix", ref, r6, gf.op_tolerance(gspec, "laplace", fr._data_full, rel=1e-11), case)
            routes.append("U6")
    rec = record(case, style, routes)
    rec["labels"] += [f"how:{how}" + (":float32" if link_f4 else "")] + [f"warm:{w}" for w in warm] + [f"updated-conditions:{min(len(consts), 4)}"]
    rec["key"] = [rec["key"], how, sorted(warm), mul, add]
    return rec


@st.composite
def update_cases(draw, jit=False):
    case = draw(cases(max_cells=4 if jit else 6, jit=jit))
    case["how"] = draw(st.sampled_from(["setter", "link", "link"]))
    case["link_dtype"] = draw(st.sampled_from(["same", "f4"]))
    case["warm"] = sorted(draw(st.sets(st.sampled_from(["field", "numba", "setter", "scipy", "matrix", "virtual"]),
                                       min_size=1, max_size=4)))
    case["mul"] = draw(st.sampled_from([-0.5, 2.0, 0.0, 1.5]))
    case["add"] = draw(st.sampled_from([1.25, -0.75, 0.5, 3.0]))
    return case


RULE_NT = ("non-trivial = at least one non-periodic face with an inhomogeneous or second-order/Robin/normal "
           "condition and >= 2 routes compared")

SUBCHECKS = [
    SubCheck("routes_after_value_update_nojit", strategy=update_cases, check=check_update, mode="nojit",
             budget={"quick": 900, "thorough": 15000}, shards={"quick": 4, "thorough": 12},
             rule=RULE_NT + "; the values of the constant conditions were changed after a first use"),
    SubCheck("routes_after_value_update_jit", strategy=lambda: update_cases(jit=True), check=check_update, mode="jit",
             budget={"quick": 10, "thorough": 200}, shards={"quick": 5, "thorough": 10},
             time_limit={"quick": 120, "thorough": 1500},
             rule=RULE_NT + "; the values of the constant conditions were changed after a first use"),
    SubCheck("routes_nojit", strategy=cases, check=check_routes, mode="nojit",
             budget={"quick": 2400, "thorough": 40000}, shards={"quick": 6, "thorough": 16}, rule=RULE_NT),
    SubCheck("routes_jit", strategy=lambda: cases(max_cells=4, jit=True), check=check_routes, mode="jit",
             budget={"quick": 24, "thorough": 480}, shards={"quick": 6, "thorough": 16},
             time_limit={"quick": 120, "thorough": 1500}, rule=RULE_NT),
    SubCheck("routes_matrix", strategy=lambda: cases(matrix_only=True), check=check_matrix, mode="nojit",
             budget={"quick": 1500, "thorough": 30000}, shards={"quick": 2, "thorough": 8}, rule=RULE_NT),
    SubCheck("routes_threads", strategy=lambda: cases(max_cells=12, jit=True, threads=True,
                                                      ops=["laplace", "gradient", "divergence",
                                                           "gradient_squared"]),
             check=check_threads, mode="jit", threads=4,
             budget={"quick": 8, "thorough": 128}, shards={"quick": 2, "thorough": 4},
             time_limit={"quick": 120, "thorough": 1500},
             rule="non-trivial = the kernel built for multithreading='always' really has the parallel target option"),
]
