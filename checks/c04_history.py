"""C04 - results never depend on what was computed earlier in the process.

Histories of *requests* (operator constructions with BCs, raw operators, ghost-cell
setters, field methods, PDE rates / compiled right-hand sides / short solves, expression
evaluations, interpolations of fields that get linked into collections) drawn from a pool
that is deliberately built from configurations coinciding in some attributes.
Oracle: the same request in a fresh interpreter.  ``vlib/fresh.py`` provides a pristine
zygote process; every history runs in its own child forked from it, and after **every**
step the same request (with the current contents of the fields involved) is evaluated in
another pristine fork and compared.
"""

from __future__ import annotations

import json
import warnings

import numpy as np
from hypothesis import strategies as st

from vlib import env

env.setup()

from vlib.core import HarnessError, History, SubCheck, Violation, dumps  # noqa: E402

PROPERTY = "C04"
RULE = ("histories of 2-12 requests from a pool of configurations coinciding in some attributes; distinct = "
        "whole history; every step is compared with the same request evaluated in a pristine fork")
ASSUMPTIONS = [
    "global configuration is never changed inside a history; requests are deterministic (no noise)",
    "importing pde starts no threads (checked by the zygote), so forking is safe",
    "fresh evaluation = fork of a zygote that imported pde and never evaluated anything",
]
MODULE = "checks.c04_history"
#: known finding: cache keys hash functions by identity; a throw-away operator factory that was
#: garbage collected can hand its id (hence its cache entry) to the next throw-away factory
KEY_FACTORY_ID = "C04:make_operator:OperatorInfo-factory-hashed-by-id:id-recycled-after-gc"

# ---------------------------------------------------------------------------------------
# request pool
# ---------------------------------------------------------------------------------------
GRIDS = [
    {"cls": "unit", "shape": [8], "periodic": [False]},
    {"cls": "unit", "shape": [8], "periodic": [True]},
    {"cls": "cart", "shape": [8], "bounds": [[0.0, 8.0]], "periodic": [False]},
    {"cls": "cart", "shape": [8], "bounds": [[0.0, 4.0]], "periodic": [False]},
    {"cls": "cart", "shape": [8], "bounds": [[1.0, 9.0]], "periodic": [False]},
    {"cls": "cart", "shape": [8], "bounds": [[0.0, 8.0]], "periodic": [True]},
    {"cls": "unit", "shape": [4, 4], "periodic": [False, False]},
    {"cls": "unit", "shape": [4, 4], "periodic": [True, False]},
    {"cls": "unit", "shape": [4, 4], "periodic": [False, True]},
    {"cls": "cart", "shape": [4, 4], "bounds": [[0.0, 4.0], [0.0, 2.0]], "periodic": [False, False]},
    {"cls": "polar", "shape": [8], "radius": [0.0, 8.0], "periodic": [False]},
    {"cls": "sph", "shape": [8], "radius": [0.0, 8.0], "periodic": [False]},
    {"cls": "polar", "shape": [8], "radius": [1.0, 9.0], "periodic": [False]},
    {"cls": "sph", "shape": [8], "radius": [1.0, 9.0], "periodic": [False]},
    {"cls": "cyl", "shape": [4, 4], "radius": [0.0, 4.0], "bounds_z": [0.0, 4.0], "periodic": [False, False]},
    {"cls": "cyl", "shape": [4, 4], "radius": [0.0, 4.0], "bounds_z": [0.0, 4.0], "periodic": [False, True]},
    {"cls": "cyl", "shape": [4, 4], "radius": [1.0, 5.0], "bounds_z": [0.0, 4.0], "periodic": [False, False]},
    # tiny grids of different extent (SI lengths of nanometre-scale systems); added after the
    # independently seeded change C01-2 (bounds rounded to 8 decimals in the grid's cache hash)
    {"cls": "cart", "shape": [8], "bounds": [[0.0, 2e-9]], "periodic": [False]},
    {"cls": "cart", "shape": [8], "bounds": [[0.0, 4e-9]], "periodic": [False]},
    {"cls": "polar", "shape": [8], "radius": [0.0, 2e-9], "periodic": [False]},
    {"cls": "polar", "shape": [8], "radius": [0.0, 4e-9], "periodic": [False]},
    # bounds whose builtin hashes coincide (hash(-1.0) == hash(-2.0)); fix of GridBase._cache_hash
    {"cls": "cart", "shape": [8], "bounds": [[-1.0, 1.0]], "periodic": [False]},
    {"cls": "cart", "shape": [8], "bounds": [[-2.0, 1.0]], "periodic": [False]},
]

# boundary-condition families for one side: (label, dict for py-pde)
SIDES = [
    {"value": 0.0}, {"derivative": 0.0}, {"curvature": 0.0},
    {"value": 1.0}, {"derivative": 1.0}, {"curvature": 1.0},
    {"type": "mixed", "value": 1.0, "const": 0.0}, {"type": "mixed", "value": 1.0, "const": 1.0},
    {"type": "mixed", "value": 0.0, "const": 1.0},
    {"value_expression": "1"}, {"value_expression": "t"}, {"derivative_expression": "1"},
    {"dirichlet": 0.0}, {"neumann": 0.0},
]
SIDES_VEC = [{"value": 0.0}, {"normal_value": 0.0}, {"derivative": 0.0}, {"normal_derivative": 0.0},
             {"value": 1.0}, {"normal_value": 1.0}]

SCALAR_OPS = [("laplace", {}), ("gradient", {}), ("gradient", {"method": "forward"}),
              ("gradient", {"method": "backward"}), ("gradient_squared", {}),
              ("gradient_squared", {"central": False}), ("d_dAX", {}), ("d2_dAX2", {}),
              ("laplace", {"conservative": False}), ("laplace", {"conservative": True})]
VECTOR_OPS = [("divergence", {}), ("divergence", {"conservative": False})]

PDES = ["diffusion", "allen-cahn", "cahn-hilliard", "swift-hohenberg", "kuramoto-sivashinsky", "kpz",
        "expr-const", "expr-two-ops"]


def axis_names(g):
    return {"unit": "xyz", "cart": "xyz", "polar": "r", "sph": "r", "cyl": "rz"}[g["cls"]][: len(g["shape"])]


def render_bc(g, sides):
    """sides: list per axis of (low index, high index) into the side pool"""
    out = {}
    for a, nm in enumerate(axis_names(g)):
        if g["periodic"][a]:
            out[nm] = "periodic"
        else:
            lo, hi = sides[a]
            out[nm + "-"] = lo
            out[nm + "+"] = hi
    return out


@st.composite
def bc_strategy(draw, pool=SIDES):
    """BC request: side indices per axis (max 2 axes); collisions are likely because the
    pool is small and shrinks towards entry 0"""
    idx = st.integers(0, len(pool) - 1)
    kind = draw(st.sampled_from(["same", "sides", "auto_neumann", "auto_dirichlet"]))
    if kind == "same":
        i = draw(idx)
        return {"k": "sides", "s": [[i, i], [i, i]]}
    if kind == "sides":
        return {"k": "sides", "s": [[draw(idx), draw(idx)], [draw(idx), draw(idx)]]}
    return {"k": kind}


def family_strategies():
    gi = st.integers(0, len(GRIDS) - 1)
    seed = st.integers(0, 5)
    common = {"grid": gi, "newgrid": st.booleans(), "dtype": st.sampled_from(["f8", "f8", "c16"]),
              "seed": seed, "t": st.sampled_from([0.0, 1.5])}
    op_req = st.fixed_dictionaries(dict(common, kind=st.sampled_from(["op", "op", "op_field", "op_scipy", "nobc", "setter"]),
                                        op=st.integers(0, len(SCALAR_OPS) - 1), bc=bc_strategy()))
    vec_req = st.fixed_dictionaries(dict(common, kind=st.sampled_from(["vop", "vop_field"]),
                                         op=st.integers(0, len(VECTOR_OPS) - 1), bc=bc_strategy(SIDES_VEC)))
    pde_req = st.fixed_dictionaries(dict(
        common, kind=st.sampled_from(["pde_rate", "pde_rhs", "pde_rhs", "pde_rhs_numpy", "pde_solve", "pde_solve_numba"]),
        eq=st.sampled_from(PDES + ["expr-const", "expr-two-ops", "expr-userfunc", "expr-userfunc"]),
        p=st.sampled_from([1.0, 2.0, 0.5]),
        bc=bc_strategy(), bc2=bc_strategy(), reuse=st.sampled_from([True, True, True, False])))
    expr_req = st.fixed_dictionaries({"kind": st.just("expr"), "text": st.sampled_from(
        ["a*x + b", "a*x**2 + b", "sin(a*x) + b", "a + b*x"]), "a": st.sampled_from([1.0, 2.0]),
        "b": st.sampled_from([0.0, 1.0]), "route": st.sampled_from(["call", "numpy", "numba"]),
        "seed": seed})
    fexpr_req = st.fixed_dictionaries({"kind": st.just("fexpr"), "grid": gi, "newgrid": st.booleans(),
                                       "a": st.sampled_from([1.0, 2.0]), "rank": st.sampled_from([0, 0, 1])})
    linked_req = st.fixed_dictionaries({"kind": st.just("op_linked"), "arr": st.integers(0, 1), "newbc": st.booleans(),
                                        "content": st.sampled_from([1.0, 1.0, 5.0, -2.0]), "seed": seed,
                                        "keep_op": st.sampled_from([True, True, False])})
    info_req = st.fixed_dictionaries({"kind": st.just("op_info"), "grid": st.integers(0, 5), "newgrid": st.booleans(),
                                      "factor": st.sampled_from([2.0, 3.0]), "name": st.sampled_from(["scale", "scale", ""]),
                                      "via": st.sampled_from(["info", "info", "register"]),
                                      "route": st.sampled_from(["make_operator", "field"]), "seed": seed,
                                      "keep": st.sampled_from([True, True, True, False])})
    ctrl_req = st.fixed_dictionaries({"kind": st.just("controller"), "solver": st.sampled_from(["rk", "euler"]),
                                      "backend": st.sampled_from(["numpy", "numba"]), "reuse": st.sampled_from([True, True, False]),
                                      "amp": st.sampled_from([1.0, 1e-3]), "T": st.sampled_from([2.5, 50.0])})
    return {"op": op_req, "vop": vec_req, "pde": pde_req, "expr": expr_req, "fexpr": fexpr_req,
            "linked": linked_req, "info": info_req, "ctrl": ctrl_req}


def family_of(req):
    k = req["kind"]
    if k.startswith("pde_"):
        return "pde"
    if k.startswith("vop"):
        return "vop"
    if k == "expr":
        return "expr"
    if k == "fexpr":
        return "fexpr"
    if k == "op_linked":
        return "linked"
    if k == "op_info":
        return "info"
    if k == "controller":
        return "ctrl"
    return "op"


@st.composite
def near_request(draw, prev, fams):
    """a request that equals an earlier one except in exactly one attribute"""
    new = draw(fams[family_of(prev)])
    if family_of(prev) == "pde" and draw(st.integers(0, 2)) == 0:
        # the same equation object applied to a state on another grid with equal shape
        # (or with another dtype / other data)
        g0 = GRIDS[prev["grid"]]
        auto = prev["bc"].get("k", "").startswith("auto") and prev["bc2"].get("k", "").startswith("auto")
        # with auto_periodic_* conditions the same equation object also fits grids that differ
        # in periodicity only (seeded change C10-4: periodicity missing in the PDE cache key)
        similar = [i for i, g in enumerate(GRIDS) if g["shape"] == g0["shape"] and axis_names(g) == axis_names(g0)
                   and (auto or g["periodic"] == g0["periodic"])]
        return dict(prev, grid=draw(st.sampled_from(similar)), reuse=True, seed=new["seed"],
                    dtype=draw(st.sampled_from([prev["dtype"], new["dtype"]])),
                    kind=draw(st.sampled_from([prev["kind"], new["kind"]])))
    keys = sorted(k for k in prev if k in new and new[k] != prev[k] and k not in ("seed", "newgrid", "reuse"))
    if "grid" in prev and draw(st.integers(0, 3)) == 0:
        # the same request on a twin grid (same class, shape, periodicity; other bounds)
        g0 = GRIDS[prev["grid"]]
        twins = [i for i, g in enumerate(GRIDS) if i != prev["grid"] and g["shape"] == g0["shape"]
                 and g["cls"] == g0["cls"] and g["periodic"] == g0["periodic"]]
        if twins:
            return dict(prev, grid=draw(st.sampled_from(twins)))
    if not keys:
        return new
    k = draw(st.sampled_from(keys))
    out = dict(prev)
    out[k] = new[k]
    if k == "grid" and draw(st.integers(0, 3)) > 0:
        # prefer grids that coincide with the previous one in shape and axis names
        g0 = GRIDS[prev["grid"]]
        similar = [i for i, g in enumerate(GRIDS) if i != prev["grid"] and g["shape"] == g0["shape"]
                   and axis_names(g) == axis_names(g0)]
        twins = [i for i in similar if GRIDS[i]["cls"] == g0["cls"] and GRIDS[i]["periodic"] == g0["periodic"]]
        if twins and draw(st.booleans()):
            similar = twins  # same class and periodicity: only bounds / radii differ
        if similar:
            out["grid"] = draw(st.sampled_from(similar))
    if k == "bc" and prev["bc"].get("k") == "sides" and new["bc"].get("k") == "sides" and draw(st.booleans()):
        # differ in one side only
        s = [list(pair) for pair in prev["bc"]["s"]]
        a, b = draw(st.integers(0, 1)), draw(st.integers(0, 1))
        s[a][b] = new["bc"]["s"][a][b]
        out["bc"] = {"k": "sides", "s": s}
    return out


def request_strategy(h):
    fams = family_strategies()
    base = st.one_of(fams["op"], fams["op"], fams["vop"], fams["pde"], fams["expr"], fams["fexpr"], fams["linked"], fams["info"], fams["ctrl"])
    if not h.reqs:
        return base
    prev = st.sampled_from(h.reqs[-4:])
    return st.one_of(base, prev.flatmap(lambda p: near_request(p, fams)),
                     prev.flatmap(lambda p: near_request(p, fams)))


# ---------------------------------------------------------------------------------------
# evaluation (runs inside forked children of the zygote)
# ---------------------------------------------------------------------------------------
def _grid(req, store):
    from vlib.gen_grids import build_grid

    spec = GRIDS[req["grid"]]
    if req.get("newgrid") or "grids" not in store:
        g = build_grid(spec)
        store.setdefault("grids", {})[req["grid"]] = g
        return g, spec
    g = store["grids"].get(req["grid"])
    if g is None:
        g = store["grids"][req["grid"]] = build_grid(spec)
    return g, spec


def _bc(req_bc, spec, pool):
    if req_bc["k"] == "auto_neumann":
        return "auto_periodic_neumann"
    if req_bc["k"] == "auto_dirichlet":
        return "auto_periodic_dirichlet"
    sides = [[dict(pool[i]) for i in pair] for pair in req_bc["s"]]
    # curvature needs >= 2 cells (all pool grids have), expression BCs only rank 0 (scalar pool only)
    return render_bc(spec, sides)


def _data(spec, rank, seed, dtype, full=False):
    from vlib.gen_fields import field_data

    return field_data(spec, rank, 1000 + seed, dtype, "normal", full=full)


def _nb_args(t):
    import numba as nb

    if nb.config.DISABLE_JIT:
        return {"t": float(t)}
    d = nb.typed.Dict.empty(nb.types.unicode_type, nb.types.float64)
    d["t"] = float(t)
    return d


def _op(req, spec, table):
    name, opts = table[req["op"]]
    ax = axis_names(spec)[-1]
    name = name.replace("AX", ax)
    opts = dict(opts)
    if "conservative" in opts and spec["cls"] != "sph":
        opts.pop("conservative")
    if "method" in opts and (spec["cls"] == "cyl" or (name == "divergence" and spec["cls"] == "polar")):
        opts.pop("method")
    return name, opts


def evaluate(req, store):
    """Evaluate one request; returns a list of numpy arrays."""
    import pde
    from pde.backends import get_backend

    warnings.simplefilter("ignore")
    kind = req["kind"]
    if kind == "snapshot":
        f = store["fields"][req["i"]]
        return [np.array(f._data_full)]
    if kind == "expr":
        from pde.tools.expressions import ScalarExpression

        e = ScalarExpression(req["text"], signature=["x"], consts={"a": req["a"], "b": req["b"]})
        x = np.linspace(-1, 2, 7) + req["seed"]
        if req["route"] == "call":
            return [np.asarray(e(x))]
        f = e.get_function(backend=req["route"])
        return [np.asarray(f(x))]
    if kind == "op_linked":
        # operator whose x-boundary values are *linked* to one of two external arrays that
        # hold equal content initially; the arrays are changed in place between requests
        from vlib.gen_grids import build_grid

        spec = GRIDS[6]
        grid = store.setdefault("linked_grid", build_grid(spec))
        arrays = store.setdefault("linked_arrays", {})
        k = req["arr"]
        if k not in arrays:
            arrays[k] = np.full(4, 1.0)
        arrays[k][...] = req["content"]
        key = ("linked_bcs", k)
        if key not in store or req["newbc"]:
            bcs = grid.get_boundary_conditions({"x": {"value": 0.0}, "y": {"derivative": 0.0}})
            bcs[0].low.link_value(arrays[k])
            bcs[0].high.link_value(arrays[k])
            store[key] = bcs
        okey = ("linked_op", k)
        if okey not in store or req["newbc"] or not req.get("keep_op", True):
            store[okey] = get_backend("numba").make_operator(grid, "laplace", bcs=store[key])
        op = store[okey]  # a caller may keep the operator while the linked array changes
        return [op(_data(spec, 0, req["seed"], "f8"), args=_nb_args(0.0))]
    if kind == "op_info":
        # a user-supplied OperatorInfo (documented input of make_operator): two operators
        # carrying the same name but different implementations, and an operator registered
        # again under an existing name (added after the seeded change C04-3 was missed)
        from pde.tools.typing import OperatorInfo

        grid, spec = _grid(dict(req, grid=req["grid"] % 6), store)
        factor = float(req["factor"])

        def factory(grid, **kwargs):
            def scale(arr, out):
                out[...] = factor * arr[1:-1]

            return scale

        if req.get("keep", True):
            # the caller keeps its factory alive (e.g. a module-level function), so its id -
            # which is what the cache key hashes - cannot be recycled for another function
            store.setdefault("keepalive", []).append(factory)
        data = _data(GRIDS[req["grid"] % 6], 0, req["seed"], "f8")
        bc = "auto_periodic_neumann"
        if req["via"] == "register":
            nb_backend = get_backend("numba")
            nb_backend.register_operator(type(grid), "verif_scale", factory, rank_in=0, rank_out=0)
            try:
                if req["route"] == "field":
                    return [pde.ScalarField(grid, data).apply_operator("verif_scale", bc, backend="numba").data]
                return [grid.make_operator("verif_scale", bc, backend="numba")(data, args=_nb_args(0.0))]
            finally:
                nb_backend._operators[type(grid)].pop("verif_scale", None)
        info = OperatorInfo(factory, rank_in=0, rank_out=0, name=req["name"])
        if req["route"] == "field":
            return [pde.ScalarField(grid, data).apply_operator(info, bc, backend="numba").data]
        return [grid.make_operator(info, bc, backend="numba")(data, args=_nb_args(0.0))]
    if kind == "controller":
        # the same solver *instance* is handed to several controllers (adaptive stepping with the
        # default initial step); a fresh interpreter creates a new solver (seeded change C04-4)
        from pde.solvers import Controller, EulerSolver, RungeKuttaSolver

        grid, spec = _grid(dict(req, grid=0), store)
        key = ("solver", req["solver"], req["backend"])
        if key not in store or not req["reuse"]:
            eq = pde.DiffusionPDE(1.0, bc={"x-": {"value": 0}, "x+": {"derivative": 0}})
            cls = RungeKuttaSolver if req["solver"] == "rk" else EulerSolver
            store[key] = cls(eq, adaptive=True, backend=req["backend"])
        x = grid.axes_coords[0]
        state = pde.ScalarField(grid, np.sin(2 * np.pi * x / 8) * req["amp"] + 0.05 * req["amp"] * x)
        res = Controller(store[key], t_range=req["T"], tracker=None).run(state)
        return [res.data]
    if kind == "fexpr":
        # field from an expression using the special `cartesian` constant; the history keeps
        # ONE consts dictionary and passes it to every such call (a caller's own dictionary)
        grid, spec = _grid(req, store)
        consts = store.setdefault("shared_consts", {})
        consts["a"] = req["a"]
        cls = [pde.ScalarField, pde.VectorField][req["rank"]]
        text = "a*cartesian[0] + 1"
        if req["rank"] == 1:
            text = [text] * grid.dim
        return [cls.from_expression(grid, text, consts=consts).data]
    if kind.startswith("f_"):
        return evaluate_field_op(req, store)
    grid, spec = _grid(req, store)
    dtype, t = req["dtype"], req["t"]
    if kind in ("op", "op_field", "op_scipy", "nobc", "setter", "vop", "vop_field"):
        vec = kind.startswith("vop")
        rank = 1 if vec else 0
        if vec and spec["cls"] in ("polar", "cyl"):
            pass
        name, opts = _op(req, spec, VECTOR_OPS if vec else SCALAR_OPS)
        bc = _bc(req["bc"], spec, SIDES_VEC if vec else SIDES)
        data = _data(spec, rank, req["seed"], dtype)
        if kind in ("op", "vop"):
            op = grid.make_operator(name, bc, backend="numba", **opts)
            return [op(data, args=_nb_args(t))]
        if kind in ("op_field", "vop_field"):
            cls = pde.VectorField if vec else pde.ScalarField
            f = cls(grid, data, dtype=data.dtype)
            return [f.apply_operator(name, bc, args={"t": t}, **opts).data]
        if kind == "op_scipy":
            if spec["cls"] not in ("unit", "cart") or name not in ("laplace", "gradient") or \
                    set(opts) - {"method"}:
                name, opts = "gradient", {}
            if spec["cls"] not in ("unit", "cart"):
                op = grid.make_operator(name, bc, backend="numba", **opts)
                return [op(data, args=_nb_args(t))]
            op = grid.make_operator(name, bc, backend="scipy", **opts)
            return [op(data, args={"t": t})]
        if kind == "nobc":
            full = _data(spec, rank, req["seed"], dtype, full=True)
            raw = grid.make_operator_no_bc(name, backend="numba", **opts)
            info = get_backend("numba").get_operator_info(grid, name)
            out = np.zeros((grid.dim,) * info.rank_out + grid.shape, dtype=full.dtype)
            raw(full, out)
            return [out]
        if kind == "setter":
            full = _data(spec, rank, req["seed"], dtype, full=True)
            bcs = grid.get_boundary_conditions(bc, rank=rank)
            get_backend("numba").make_ghost_cell_setter(bcs)(full, args=_nb_args(t))
            idx = np.zeros(full.shape, bool)
            nax = grid.num_axes
            cnt = np.zeros(full.shape[-nax:], int)
            for a, n in enumerate(full.shape[-nax:]):
                e = np.zeros(n, int)
                e[0] = e[-1] = 1
                cnt += e.reshape([-1 if i == a else 1 for i in range(nax)])
            return [np.where(cnt <= 1, full, 0)]
    if kind.startswith("pde_"):
        eq = build_eq(req, spec, store)
        sdtype = dtype if req["eq"] in ("diffusion", "expr-const") else "f8"
        data = _data(spec, 0, req["seed"], sdtype)
        state = pde.ScalarField(grid, data, dtype=data.dtype)
        if kind == "pde_rate":
            return [eq.evolution_rate(state, t).data]
        if kind == "pde_rhs":
            return [np.asarray(eq.make_pde_rhs(state, backend="numba")(state.data.copy(), t))]
        if kind == "pde_rhs_numpy":
            return [np.asarray(eq.make_pde_rhs(state, backend="numpy")(state.data.copy(), t))]
        backend = "numba" if kind == "pde_solve_numba" else "numpy"
        res = eq.solve(state, t_range=3e-3, dt=1e-3, backend=backend, tracker=None)
        return [res.data]
    raise ValueError(f"unknown request kind {kind}")


def _boost(x):
    return 0.5 * x


def build_eq(req, spec, store):
    import pde

    bc, bc2 = _bc(req["bc"], spec, SIDES), _bc(req["bc2"], spec, SIDES)
    # the same equation object is reused for every grid its boundary conditions fit
    key = json.dumps([req["eq"], req["p"], bc, bc2], sort_keys=True)
    if req.get("reuse") and key in store.get("eqs", {}):
        return store["eqs"][key]
    p = req["p"]
    name = req["eq"]
    if name == "diffusion":
        eq = pde.DiffusionPDE(p, bc=bc)
    elif name == "allen-cahn":
        eq = pde.AllenCahnPDE(interface_width=p, bc=bc)
    elif name == "cahn-hilliard":
        eq = pde.CahnHilliardPDE(interface_width=p, bc_c=bc, bc_mu=bc2)
    elif name == "swift-hohenberg":
        eq = pde.SwiftHohenbergPDE(rate=p, bc=bc, bc_lap=bc2)
    elif name == "kuramoto-sivashinsky":
        eq = pde.KuramotoSivashinskyPDE(nu=p, bc=bc, bc_lap=bc2)
    elif name == "kpz":
        eq = pde.KPZInterfacePDE(nu=p, bc=bc)
    elif name == "expr-const":
        eq = pde.PDE({"c": "laplace(c) + k * c"}, bc=bc, consts={"k": p})
    elif name == "expr-userfunc":
        # ONE dictionary of user functions per process, handed to every such equation (after missed seed
        # C04-5: a compilation merged the operators of that equation - with its boundary conditions - into
        # the caller's dictionary, where the next equation found them)
        ufs = store.setdefault("user_funcs", {"boost": _boost})
        eq = pde.PDE({"c": f"{p} * laplace(c) + boost(c)"}, bc=bc, user_funcs=ufs)
    else:
        eq = pde.PDE({"c": "laplace(c) - gradient_squared(c)"}, bc=bc,
                     bc_ops={"c:gradient_squared": bc2})
    store.setdefault("eqs", {})[key] = eq
    return eq


# -- stateful field operations -------------------------------------------------------------
FIELD_GRIDS = [0, 1, 6, 7, 10, 14]


def evaluate_field_op(req, store):
    import pde
    from vlib.gen_grids import build_grid

    kind = req["kind"]
    fields = store.setdefault("fields", [])
    if kind == "f_create":
        spec = GRIDS[FIELD_GRIDS[req["g"] % len(FIELD_GRIDS)]]
        grid = build_grid(spec)
        rank = int(req.get("rank", 0))
        data = _data(spec, rank, req["seed"], req["dtype"])
        cls = [pde.ScalarField, pde.VectorField, pde.Tensor2Field][rank]
        fields.append(cls(grid, data, dtype=data.dtype))
        return [np.array(fields[-1].data)]
    if kind == "f_fresh_interp":
        spec = GRIDS[req["gridi"]]
        grid = build_grid(spec)
        rank = req["full"].ndim - grid.num_axes
        cls = [pde.ScalarField, pde.VectorField, pde.Tensor2Field][rank]
        f = cls(grid, dtype=req["full"].dtype)
        f._data_full[...] = req["full"]
        return [_interp(f, spec, req)]
    if kind == "f_write_coll":
        colls = store.get("colls", [])
        if not colls:
            return [np.zeros(1)]
        c = colls[req["c"] % len(colls)]
        c.data[...] = req["value"]
        return [np.array(c.data)]
    f = fields[req["i"] % len(fields)]
    if kind == "f_interp":
        return [_interp(f, store["specs"][req["i"] % len(fields)] if "specs" in store else None, req, f)]
    if kind == "f_collect":
        others = [fields[j % len(fields)] for j in req["js"]]
        members = [f] + [o for o in others if o.grid == f.grid and o is not f]
        c = pde.FieldCollection(members, copy_fields=req["copy"])
        store.setdefault("colls", []).append(c)
        return [np.array(c.data)]
    if kind == "f_write":
        f.data = req["value"]
        return [np.array(f.data)]
    if kind == "f_write_coll":
        colls = store.get("colls", [])
        if not colls:
            return [np.zeros(1)]
        c = colls[req["c"] % len(colls)]
        c.data[...] = req["value"]
        return [np.array(c.data)]
    if kind == "f_astype":
        # replace the array by one of another dtype through the public dtype route
        g = f.copy(dtype=complex if f.dtype == np.dtype(float) else f.dtype)
        fields[req["i"] % len(fields)] = g
        return [np.array(g.data)]
    if kind == "f_insert":
        pt = _points(f.grid, req)[0]
        if f.rank > 0:
            return [np.array(f.data)]  # insertion is defined for scalar amounts here
        f.insert(pt, req["value"])
        return [np.array(f.data)]
    raise ValueError(kind)


def _points(grid, req):
    rng = np.random.default_rng(100 + req["pseed"])
    lo = np.array([b[0] for b in grid.axes_bounds])
    hi = np.array([b[1] for b in grid.axes_bounds])
    return lo + (hi - lo) * rng.uniform(0.05, 0.95, size=(3, grid.num_axes))


def _interp(f, spec, req, live=None):
    pts = _points(f.grid, req)
    bc = None
    if req.get("bc"):
        bc = "auto_periodic_neumann"
    fill = req.get("fill")
    if fill is not None:
        # one point clearly outside the domain (it is wrapped on periodic axes)
        hi = np.array([b[1] for b in f.grid.axes_bounds])
        lo = np.array([b[0] for b in f.grid.axes_bounds])
        pts = np.concatenate([pts, (hi + 0.75 * (hi - lo))[None, :]])
    return np.asarray(f.interpolate(pts, bc=bc, fill=fill))


# ---------------------------------------------------------------------------------------
# comparison and histories (driver side)
# ---------------------------------------------------------------------------------------
def compare(req, hist_res, fresh_res, id_recycling_possible=False):
    hs, hr = hist_res
    fs, fr = fresh_res
    short = dumps(req)[:400]
    if hs == "err" and fs == "err":
        if hr["type"] != fr["type"]:
            raise Violation(f"history raised {hr['type']}: {hr['text']} but a fresh interpreter raised "
                            f"{fr['type']}: {fr['text']}; request {short}", key=f"{req['kind']}:error-differs")
        return "both-error"
    if hs == "err" or fs == "err":
        who, e = ("history", hr) if hs == "err" else ("fresh interpreter", fr)
        if e["type"] in ("ChildDied", "Protocol"):
            raise HarnessError(f"{who}: {e}")
        raise Violation(f"only the {who} raised {e['type']}: {e['text']}; request {short}\n{e['tb'][-600:]}",
                        key=f"{req['kind']}:error-one-sided")
    if len(hr) != len(fr):
        raise Violation("different number of results", key=f"{req['kind']}:shape")
    for a, b in zip(hr, fr):
        a, b = np.asarray(a), np.asarray(b)
        if a.shape != b.shape or a.dtype != b.dtype:
            raise Violation(f"result shape/dtype {a.shape}/{a.dtype} in the history, {b.shape}/{b.dtype} fresh; "
                            f"request {short}", key=f"{req['kind']}:shape")
        scale = max(float(np.max(np.abs(b))) if b.size else 0.0, 1e-300)
        with np.errstate(invalid="ignore"):
            bad = ~((np.abs(a - b) <= 1e-11 * scale) | (np.isnan(a) & np.isnan(b)) | (a == b))
        if np.any(bad):
            i = np.unravel_index(np.argmax(bad), a.shape)
            key = f"{req['kind']}:{req.get('eq', req.get('op', ''))}"
            if req["kind"] == "op_info" and (not req.get("keep", True) or id_recycling_possible):
                # a throw-away factory was garbage collected earlier in this history: its id (the
                # cache key) may have been recycled for the factory of this request
                key = KEY_FACTORY_ID
            raise Violation(
                f"result depends on history: request {short} returned {a[i]!r} at {tuple(map(int, i))} after the "
                f"history but {b[i]!r} in a fresh interpreter (max |diff| {np.nanmax(np.abs(a - b)):.3g})",
                key=key)
    return "ok"


def differing_attributes(r1, r2):
    keys = set(r1) | set(r2)
    return sorted(k for k in keys if r1.get(k) != r2.get(k) and k not in ("seed", "newgrid", "reuse"))


class RequestHistory(History):
    OPS = {"request": request_strategy}

    def __init__(self, init):
        super().__init__(init)
        from vlib.fresh import get_zygote

        self.z = get_zygote(MODULE)
        r = self.z.call("hstart")
        if r[0] != "ok":
            raise HarnessError(f"cannot start history: {r}")
        self.reqs = []
        self.outcomes = []

    def op_request(self, **req):
        h = self.z.call("hstep", req)
        f = self.z.call("fresh", req)
        recycled = getattr(self, "throwaway_factory_seen", False)
        if req["kind"] == "op_info" and not req.get("keep", True):
            self.throwaway_factory_seen = True
        self.outcomes.append(compare(req, h, f, id_recycling_possible=recycled))
        self.reqs.append(req)

    def record(self):
        nt = False
        labels = set()
        for i, a in enumerate(self.reqs):
            labels.add(f"kind:{a['kind']}")
            for b in self.reqs[:i]:
                if "grid" in a and "grid" in b and (a["grid"] == b["grid"]):
                    d = differing_attributes(a, b)
                    if len(d) == 1:
                        nt = True
                        labels.add(f"differs-only-in:{d[0]}")
                    elif len(d) == 0:
                        labels.add("repeat")
                elif a["kind"] == "expr" and b["kind"] == "expr" and len(differing_attributes(a, b)) == 1:
                    nt = True
                    labels.add("expr-differs-in-one")
        for o in set(self.outcomes):
            labels.add(f"outcome:{o}")
        labels.add(f"len:{min(len(self.reqs), 8)}")
        return {"nt": nt, "labels": sorted(labels)}

    def teardown(self):
        try:
            self.z.call("hend")
        except Exception:  # noqa: BLE001
            pass


# -- stateful field histories ------------------------------------------------------------
def field_op_strategy(h):
    n = len(h.grid_of)
    create = st.fixed_dictionaries({"kind": st.just("f_create"), "g": st.integers(0, len(FIELD_GRIDS) - 1),
                                    "seed": st.integers(0, 5), "dtype": st.sampled_from(["f8", "f8", "c16"]),
                                    "rank": st.sampled_from([0, 0, 1, 2])})
    if n == 0:
        return create
    i = st.integers(0, n - 1)
    val = st.sampled_from([0.0, 1.0, -2.5, 7.0])
    repeat = [st.sampled_from(h.interp_reqs[-4:])] * 2 if h.interp_reqs else []
    return st.one_of(
        *repeat,
        create,
        st.fixed_dictionaries({"kind": st.just("f_interp"), "i": i, "pseed": st.integers(0, 3), "bc": st.booleans(),
                               "fill": st.sampled_from([None, None, -1, -2, 0.0, -1.0, 2.5])}),
        st.fixed_dictionaries({"kind": st.just("f_interp"), "i": i, "pseed": st.integers(0, 1), "bc": st.just(False),
                               "fill": st.sampled_from([-1, -2, -1.0, -2.0])}),
        st.fixed_dictionaries({"kind": st.just("f_collect"), "i": i, "js": st.lists(i, max_size=2),
                               "copy": st.booleans()}),
        st.fixed_dictionaries({"kind": st.just("f_write"), "i": i, "value": val}),
        st.fixed_dictionaries({"kind": st.just("f_write_coll"), "c": st.integers(0, 3), "value": val}),
        st.fixed_dictionaries({"kind": st.just("f_astype"), "i": i}),
        st.fixed_dictionaries({"kind": st.just("f_insert"), "i": i, "pseed": st.integers(0, 3), "value": val}),
    )


class FieldHistory(History):
    """fields <-> collections <-> interpolators; the fresh request re-creates the field
    from its *current* contents"""

    OPS = {"fop": field_op_strategy}

    def __init__(self, init):
        super().__init__(init)
        from vlib.fresh import get_zygote

        self.z = get_zygote(MODULE)
        r = self.z.call("hstart")
        if r[0] != "ok":
            raise HarnessError(f"cannot start history: {r}")
        self.grid_of = []  # pool index of the grid of field i
        self.interp_reqs = []  # earlier interpolation requests (repeated verbatim later on)
        self.interp_after_relink = False
        self.relinked = set()
        self.kinds = []

    def op_fop(self, **req):
        kind = req["kind"]
        self.kinds.append(kind)
        h = self.z.call("hstep", req)
        if h[0] == "err" and h[1]["type"] in ("ChildDied", "Protocol"):
            raise HarnessError(str(h))
        if kind == "f_create":
            if h[0] != "ok":
                raise Violation(f"creating a field failed: {h[1]}", key="f_create:error")
            self.grid_of.append(FIELD_GRIDS[req["g"] % len(FIELD_GRIDS)])
            return
        if kind in ("f_collect", "f_astype"):
            self.relinked.add(req["i"] % len(self.grid_of))
            for j in req.get("js", []):
                self.relinked.add(j % len(self.grid_of))
        if kind != "f_interp":
            if h[0] != "ok" and h[1]["type"] not in ("ValueError", "RuntimeError", "DomainError", "TypeError"):
                raise Violation(f"{kind} raised {h[1]['type']}: {h[1]['text']}", key=f"{kind}:error")
            return
        i = req["i"] % len(self.grid_of)
        if req not in self.interp_reqs:
            self.interp_reqs.append(dict(req))
        snap = self.z.call("hstep", {"kind": "snapshot", "i": i})
        if snap[0] != "ok":
            raise HarnessError(f"snapshot failed: {snap}")
        fresh_req = dict(req, kind="f_fresh_interp", gridi=self.grid_of[i], full=snap[1][0])
        f = self.z.call("fresh", fresh_req)
        compare(dict(req, i=i), h, f)
        if i in self.relinked:
            self.interp_after_relink = True

    def record(self):
        labels = sorted({f"kind:{k}" for k in self.kinds})
        if self.interp_after_relink:
            labels.append("interpolate-after-relink")
        return {"nt": self.interp_after_relink, "labels": labels}

    def teardown(self):
        try:
            self.z.call("hend")
        except Exception:  # noqa: BLE001
            pass


SUBCHECKS = [
    SubCheck("RequestMachine_nojit", history=RequestHistory, mode="nojit",
             budget={"quick": 480, "thorough": 8000}, shards={"quick": 8, "thorough": 16},
             steps={"quick": 10, "thorough": 14}, time_limit={"quick": 240, "thorough": 1500},
             rule="non-trivial = two requests of the history share an equal grid (or are both expressions) and "
                  "differ in exactly one other attribute"),
    SubCheck("FieldMachine_nojit", history=FieldHistory, mode="nojit",
             budget={"quick": 400, "thorough": 5000}, shards={"quick": 4, "thorough": 12},
             steps={"quick": 12, "thorough": 16}, time_limit={"quick": 240, "thorough": 1500},
             rule="non-trivial = an interpolation of a field whose data array was re-linked (collection, dtype "
                  "change) earlier in the history"),
    SubCheck("RequestMachine_jit", history=RequestHistory, mode="jit",
             budget={"quick": 8, "thorough": 160}, shards={"quick": 4, "thorough": 16},
             steps={"quick": 3, "thorough": 4}, time_limit={"quick": 140, "thorough": 1500},
             rule="as RequestMachine_nojit, with real compilation"),
]
