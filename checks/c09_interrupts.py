"""C09 - interrupt schedules are strictly increasing and stay on their lattice.

Histories: one interrupt object, ``initialize(t0)`` followed by a non-decreasing sequence
of queries ``next(t)``.  Each query time is derived from the *previous answer* so that
exact hits, +-1 ulp, just-before and far-beyond queries are reached by construction.
Oracle: reference models of the four documented schedules written from the docstrings.
"""

from __future__ import annotations

import math

import numpy as np
from hypothesis import strategies as st

from vlib import env

env.setup()

from pde.trackers.interrupts import (  # noqa: E402
    ConstantInterrupts,
    FixedInterrupts,
    GeometricInterrupts,
    LogarithmicInterrupts,
    parse_interrupt,
)

from vlib.core import History, SubCheck, Violation  # noqa: E402

PROPERTY = "C09"
RULE = ("histories = initialize(t0) + non-decreasing next(t) queries derived from the previous "
        "answer; distinct = whole history (type, parameters, query list)")
ASSUMPTIONS = [
    "fixed lists are strictly increasing (the statement's 'given increasing list')",
    "geometric factor >= 1.001 and parameters such that dt >= 1e-9*|t| (below, the lattice is "
    "not resolvable in double precision)",
]

MODES = ["exact", "ulp_up", "ulp_down", "just_before", "fraction", "periods", "far", "same", "tiny_up"]


def ulp(x):
    return float(np.spacing(abs(x))) if math.isfinite(x) else 0.0


def nice_float(lo, hi):
    """log-uniform positive float or a 'decimal' value"""
    return st.one_of(
        st.floats(min_value=math.log10(lo), max_value=math.log10(hi)).map(lambda e: 10.0**e),
        st.sampled_from([0.1, 0.01, 0.3, 0.7, 1.0, 2.0, 1 / 3, 0.25, 1e-3, 5.0, 10.0]).filter(
            lambda v: lo <= v <= hi),
    )


def query_strategy(h):
    return st.fixed_dictionaries({
        "mode": st.sampled_from(MODES),
        "x": st.floats(min_value=0.0, max_value=1.0, exclude_max=True),
        "k": st.one_of(st.integers(0, 5), st.integers(0, 1000), st.integers(0, 10**6)),
    })


def reinit_strategy(h):
    """Re-initialisation of the same object starts a new history.  Judged for the two types
    whose `initialize` documents/implements a full reset (constant, fixed); logarithmic and
    geometric schedules keep their grown spacing / last answer across `initialize` on the
    unchanged tree, which the statement (one initialize followed by queries) does not cover.
    Added after the independently seeded change C09-4 (FixedInterrupts keeps its position
    across re-initialisation) was missed."""
    if h.KIND not in ("fixed", "constant") or h.calls < 1:
        return None
    return st.fixed_dictionaries({"back": st.booleans(), "x": st.floats(0.0, 1.0)})


class ScheduleHistory(History):
    """Common driver; subclasses provide construct/model."""

    OPS = {"query": query_strategy, "reinit": reinit_strategy}
    KIND = ""

    def __init__(self, init):
        super().__init__(init)
        self.obj = self.construct(init)
        if init.get("copy_first"):
            self.obj = self.obj.copy()
        self.t0 = float(init["t0"])
        self.calls = 0
        self.t_last = self.t0  # last query
        self.flags = {"exact": False, "catchup": False, "before": False, "inf": False, "reinit": False}
        self.model_init()
        ans = float(self.obj.initialize(self.t0))
        self.first = ans
        self.prev = None
        self.judge(self.t0, ans, initial=True)
        self.prev = ans

    # -- to be provided ---------------------------------------------------------
    def construct(self, init):
        raise NotImplementedError

    def model_init(self):
        pass

    def period(self):
        """current nominal period (for deriving queries)"""
        return 1.0

    def roundoff_factor(self, ans):
        """number of ulps that count as round-off for the not-earlier clause"""
        return 8.0

    def judge_member(self, t, ans, initial):
        raise NotImplementedError

    # -- common -------------------------------------------------------------------
    def fail(self, what, t, ans, key):
        raise Violation(
            f"{self.KIND}: {what}; query t={t!r} answer={ans!r} previous={self.prev!r} "
            f"init={self.init!r} call#{self.calls}", key=f"{self.KIND}:{key}")

    def judge(self, t, ans, initial=False):
        if not isinstance(ans, float):
            ans = float(ans)
        if math.isnan(ans):
            self.fail("answer is NaN", t, ans, "nan")
        tol = self.roundoff_factor(ans) * max(ulp(t), ulp(ans) if math.isfinite(ans) else 0.0)
        if ans < t - tol:
            self.fail("answer earlier than the time asked about", t, ans, "earlier")
        if self.prev is not None:
            if math.isinf(self.prev):
                if not math.isinf(ans):
                    self.fail("exhausted schedule answered a finite time", t, ans, "resurrected")
            elif not ans > self.prev:
                self.fail("answer not strictly later than previous answer", t, ans, "not-increasing")
        self.judge_member(t, ans, initial)

    def op_reinit(self, back, x):
        t0 = self.t0 if back else (self.t_last + x * self.period() if math.isfinite(self.t_last) else self.t0)
        self.t0 = float(t0)
        self.calls = 0
        self.t_last = self.t0
        self.prev = None
        self.model_init()
        self.flags["reinit"] = True
        ans = float(self.obj.initialize(self.t0))
        self.first = ans
        self.judge(self.t0, ans, initial=True)
        self.prev = ans

    def op_query(self, mode, x, k):
        A = self.prev
        P = self.period()
        if not math.isfinite(A):
            cand = self.t_last + (k % 7) * P
            self.flags["inf"] = True
        elif mode == "exact":
            cand = A
        elif mode == "ulp_up":
            cand = float(np.nextafter(A, math.inf))
        elif mode == "ulp_down":
            cand = float(np.nextafter(A, -math.inf))
        elif mode == "just_before":
            cand = A - 1e-6 * (x + 1e-3) * P
        elif mode == "fraction":
            cand = A + x * P
        elif mode == "periods":
            cand = A + (k % 1000) * P + (x * P if k % 2 else 0.0)
        elif mode == "far":
            cand = A + k * P + x * P
        elif mode == "tiny_up":
            cand = A * (1 + 1e-16) + 1e-300
        else:  # same time as last query
            cand = self.t_last
        t = max(self.t_last, cand)
        if math.isfinite(A):
            if t == A:
                self.flags["exact"] = True
            if A - 0.01 * P < t < A:
                self.flags["before"] = True
            if t > A + 2 * P:
                self.flags["catchup"] = True
        self.t_last = t
        self.calls += 1
        ans = float(self.obj.next(t))
        self.judge(t, ans)
        self.prev = ans

    def record(self):
        f = self.flags
        labels = [f"{self.KIND}:{k}" for k, v in f.items() if v]
        labels.append(f"{self.KIND}:calls>=10" if self.calls >= 10 else f"{self.KIND}:calls<10")
        return {"nt": f["exact"] and f["catchup"] and f["before"], "labels": labels}


# ---------------------------------------------------------------------------------------
class ConstantHistory(ScheduleHistory):
    KIND = "constant"

    @classmethod
    def init_strategy(cls):
        def build(dt, t0s, rel, ts_kind, tsx, route, copy_first):
            # |t0| at most 1e6 periods so that the lattice is resolvable
            t0 = t0s * dt * rel
            if ts_kind == "none":
                ts = None
            elif ts_kind == "before":
                ts = t0 - tsx * dt * 10
            elif ts_kind == "zero":
                ts = 0.0  # exactly zero (a falsy but perfectly valid start time)
            else:
                ts = t0 + tsx * dt * 10
            if ts is not None and route == "parse":
                route = "direct"
            return {"dt": dt, "t0": t0, "t_start": ts, "route": route, "copy_first": copy_first}

        return st.builds(
            build, nice_float(1e-6, 1e6), st.sampled_from([0, 0, 1, -1]),
            st.floats(0, 1e6), st.sampled_from(["none", "none", "before", "after", "zero"]),
            st.floats(0, 1), st.sampled_from(["direct", "parse"]), st.booleans())

    def construct(self, init):
        if init["route"] == "parse":
            dt = init["dt"]
            obj = parse_interrupt(int(dt) if float(dt).is_integer() and init["copy_first"] else dt)
            if type(obj) is not ConstantInterrupts:
                raise Violation(f"parse_interrupt({dt!r}) gave {type(obj)}", key="constant:parse")
            return obj
        return ConstantInterrupts(init["dt"], t_start=init["t_start"])

    def period(self):
        return float(self.init["dt"])

    def judge_member(self, t, ans, initial):
        dt = float(self.init["dt"])
        if initial:
            ts = self.init["t_start"]
            want = self.t0 if ts is None else max(self.t0, float(ts))
            if ans != want:
                self.fail(f"first interrupt should be {want!r}", t, ans, "first")
            return
        kf = (ans - self.first) / dt
        k = round(kf)
        scale = max(abs(self.first), abs(ans), abs(t))
        tol_k = 8 * (self.calls + 2) * ulp(scale) / dt + 1e-12 * abs(k)
        if tol_k < 0.25:
            if abs(kf - k) > tol_k or k < 1:
                self.fail(f"answer not on lattice first+k*dt (k={kf!r}, tol {tol_k:.3g})", t, ans, "lattice")
            # minimality: the served time is the first lattice point not before t
            # that lies after the previous answer
            lo = max(t, self.prev + dt)
            if ans > lo + dt * (1e-9 + tol_k) + 8 * ulp(scale) and ans - dt >= lo - dt * tol_k:
                if ans - lo > dt * (1 + 1e-9 + tol_k):
                    self.fail("skipped a lattice point that was still in the future", t, ans, "skip")


class LogarithmicHistory(ScheduleHistory):
    KIND = "logarithmic"

    @classmethod
    def init_strategy(cls):
        def build(dt, f, t0s, rel, ts_kind, tsx, copy_first):
            t0 = t0s * dt * rel
            ts = None if ts_kind == "none" else (t0 - tsx * dt * 10 if ts_kind == "before" else t0 + tsx * dt * 10)
            if ts_kind == "zero":
                ts = 0.0
            return {"dt": dt, "factor": f, "t0": t0, "t_start": ts, "copy_first": copy_first}

        factor = st.one_of(st.just(1.0), st.floats(1.0, 3.0), st.sampled_from([1.1, 1.5, 2.0, 10.0]))
        return st.builds(build, nice_float(1e-6, 1e6), factor, st.sampled_from([0, 0, 1, -1]),
                         st.floats(0, 1e4), st.sampled_from(["none", "none", "before", "after", "zero"]),
                         st.floats(0, 1), st.booleans())

    def construct(self, init):
        return LogarithmicInterrupts(init["dt"], init["factor"], t_start=init["t_start"])

    def model_init(self):
        self.nominal = float(self.init["dt"])  # gap of the next call

    def period(self):
        return self.nominal

    def judge_member(self, t, ans, initial):
        if initial:
            ts = self.init["t_start"]
            want = self.t0 if ts is None else max(self.t0, float(ts))
            if ans != want:
                self.fail(f"first interrupt should be {want!r}", t, ans, "first")
            return
        gap = self.nominal  # dt_initial * factor**(calls-1), by the documented recursion
        ref = float(self.init["dt"]) * float(self.init["factor"]) ** (self.calls - 1)
        if not math.isfinite(ref):
            return
        if abs(gap - ref) > 1e-9 * ref:
            raise AssertionError("model inconsistency")
        mf = (ans - self.prev) / gap
        m = round(mf)
        scale = max(abs(self.prev), abs(ans), abs(t))
        tol = 16 * ulp(scale) / gap + 1e-9 * max(1, abs(m))
        if tol < 0.25:
            if m < 1 or abs(mf - m) > tol:
                self.fail(f"gap {ans - self.prev!r} is not a positive multiple of the nominal gap "
                          f"{gap!r} (= dt_initial*factor^{self.calls - 1}); ratio {mf!r}", t, ans, "gap")
            if t <= self.prev + gap * (1 - 1e-9) - 8 * ulp(scale) and m != 1:
                self.fail("query did not pass the next point but it was skipped", t, ans, "skip")
            if ans - max(t, self.prev + gap) > gap * (1 + tol) and m > 1:
                self.fail("skipped a point that was still in the future", t, ans, "skip")
        self.nominal = gap * float(self.init["factor"])


class GeometricHistory(ScheduleHistory):
    KIND = "geometric"

    @classmethod
    def init_strategy(cls):
        factor = st.one_of(st.floats(1.001, 20.0), st.sampled_from([1.1, 1.5, 2.0, 10.0, 1.001]))
        def build(scale, f, t0kind, t0x, route, copy_first):
            t0 = {"zero": 0.0, "neg": -t0x * scale, "small": t0x * scale, "large": t0x * scale * 1e3,
                  "onlattice": scale * f ** round(t0x * 10)}[t0kind]
            return {"scale": scale, "factor": f, "t0": t0, "route": route, "copy_first": copy_first}

        return st.builds(build, nice_float(1e-6, 1e6), factor,
                         st.sampled_from(["zero", "neg", "small", "large", "onlattice"]),
                         st.floats(0, 1), st.sampled_from(["direct", "parse"]), st.booleans())

    def construct(self, init):
        if init["route"] == "parse":
            obj = parse_interrupt(f"geometric({init['scale']!r}, {init['factor']!r})")
            if type(obj) is not GeometricInterrupts:
                raise Violation(f"parse_interrupt gave {type(obj)}", key="geometric:parse")
            if obj.scale != init["scale"] or obj.factor != init["factor"]:
                raise Violation(f"parse_interrupt changed parameters: {obj!r} from {init!r}",
                                key="geometric:parse")
            return obj
        return GeometricInterrupts(init["scale"], init["factor"])

    def period(self):
        # "one period" = distance to the next lattice point
        A = self.prev if self.prev is not None and math.isfinite(self.prev) else float(self.init["scale"])
        return A * (float(self.init["factor"]) - 1)

    def roundoff_factor(self, ans):
        # A lattice index k is resolved by log(t/scale)/log(factor) only to a few eps*|k|,
        # i.e. to a relative time error of eps*|k|*ln(factor): a query a few ulp above the
        # lattice point of a large index legitimately gets that lattice point (found by the
        # thorough tier at k = 50, factor 10: 23 ulp).
        s, f = float(self.init["scale"]), float(self.init["factor"])
        if not (math.isfinite(ans) and ans > 0):
            return 8.0
        k = abs(math.log(ans / s) / math.log(f))
        return 8.0 + 8.0 * k * math.log(f)

    def judge_member(self, t, ans, initial):
        s, f = float(self.init["scale"]), float(self.init["factor"])
        if not math.isfinite(ans) or ans <= 0:
            self.fail("answer not a positive finite time", t, ans, "lattice")
        kf = math.log(ans / s) / math.log(f)
        k = round(kf)
        tol = 1e-9 * max(1, abs(k)) + 1e-13 / math.log(f)
        if abs(kf - k) > tol:
            self.fail(f"answer not on lattice scale*factor^k (k={kf!r})", t, ans, "lattice")
        # minimality (with the documented half-step guard): nothing in the future is skipped
        lo = s * f ** -0.5 if self.prev is None else self.prev * f**0.5
        lo = max(lo, t)
        if ans > lo * f * (1 + 1e-9 * max(1, abs(k))):
            self.fail("skipped a lattice point that was still in the future", t, ans, "skip")


class FixedHistory(ScheduleHistory):
    KIND = "fixed"

    @classmethod
    def init_strategy(cls):
        def build(start, gaps, t0i, t0x, route, copy_first, as_ints):
            if as_ints:
                start = float(round(start))
                gaps = [float(max(1, round(g))) for g in gaps]
            pts = [start]
            for g in gaps:
                nxt = pts[-1] + g
                if nxt > pts[-1]:
                    pts.append(nxt)
            i = t0i % (len(pts) + 1)
            if i == len(pts):
                t0 = pts[0] - 1.0 - t0x
            else:
                t0 = pts[i] if t0x < 0.5 else pts[i] - (t0x - 0.5)
            return {"points": pts, "t0": t0, "route": route, "copy_first": copy_first}

        return st.builds(build, st.floats(-100, 100),
                         st.lists(st.one_of(st.floats(1e-3, 10), st.sampled_from([0.1, 1.0, 0.5])),
                                  min_size=0, max_size=12),
                         st.integers(0, 20), st.floats(0, 1), st.sampled_from(["direct", "parse", "array"]),
                         st.booleans(), st.booleans())

    def construct(self, init):
        pts = init["points"]
        if init["route"] == "parse":
            obj = parse_interrupt(list(pts))
            if type(obj) is not FixedInterrupts:
                raise Violation(f"parse_interrupt(list) gave {type(obj)}", key="fixed:parse")
            return obj
        if init["route"] == "array":
            return FixedInterrupts(np.array(pts))
        return FixedInterrupts(pts)

    def model_init(self):
        self.idx = -1  # index of the last returned element

    def period(self):
        pts = self.init["points"]
        j = min(self.idx + 1, len(pts) - 1)
        return (pts[j] - pts[j - 1]) if j >= 1 else 1.0

    def judge_member(self, t, ans, initial):
        pts = self.init["points"]
        j = self.idx + 1
        while j < len(pts) and pts[j] < t:
            j += 1
        if j - (self.idx + 1) >= 1:
            self.flags["catchup"] = True
        want = pts[j] if j < len(pts) else math.inf
        self.idx = j
        if ans != want:
            self.fail(f"expected the first not-yet-passed element {want!r} of {pts!r}", t, ans, "element")
        if math.isinf(ans):
            self.flags["inf"] = True

    def record(self):
        rec = super().record()
        f = self.flags
        rec["nt"] = f["exact"] and f["catchup"]
        return rec


def sub(name, cls, q, t):
    return SubCheck(
        name=name, history=cls, mode="pure",
        budget={"quick": q, "thorough": t}, shards={"quick": 4, "thorough": 16},
        steps={"quick": 30, "thorough": 60},
        rule="non-trivial = history with an exact hit, a catch-up over >= 2 periods and a just-before "
             "query (fixed: exact hit and >= 1 skipped element)")


SUBCHECKS = [
    sub("ConstantMachine", ConstantHistory, 2400, 40000),
    sub("LogarithmicMachine", LogarithmicHistory, 2400, 40000),
    sub("GeometricMachine", GeometricHistory, 2400, 40000),
    sub("FixedMachine", FixedHistory, 2400, 40000),
]
