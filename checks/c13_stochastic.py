"""C13 - stochastic steps add exactly the documented noise, reproducibly.

Reference model with a *parallel generator*: ``ref = default_rng(seed)``; per step exactly one
draw ``xi = ref.standard_normal(state.data.shape)`` and

    u <- u + dt f(u, t) + sqrt(var(u) dt / V) xi + 1/2 alpha dt var'(u) / V
         (+ 1/4 var'(u) / V ((sqrt(dt) xi)^2 - dt)     for the Milstein solver)

with ``V`` the cell volumes computed from the grid *specification* (not from py-pde), the
variance laid out per tensor component / per field as documented, ``alpha`` = 0, 1/2, 1 for
Ito / Stratonovich / anti-Ito.  The deterministic rate ``f`` is taken from a second, independent
instance of the equation (``evolution_rate``).  The semi-implicit solver is judged by the
residual of its defining equation ``u' = (u + sqrt(var(u) dt / V) xi) + dt f(u', t + dt)``.

Sub-checks: ``euler_maruyama``, ``milstein``, ``semi_implicit`` (final state of an n-step run +
draw count), ``draw_accounting`` (normal numbers inferred from single steps), ``seed_reproducible``,
``zero_noise_deterministic`` (numpy backend), ``zero_noise_numba`` (numba backend, interpreted) and
``zero_noise_numba_jit`` (small compiled sample), ``tiny_variance`` (variances below 1e-14 on tiny
cells; were treated as zero before fix 2992ecc), ``numba_components_independent`` (numba backend: the
normal numbers inferred from one step are not the same realization for two components / fields; the
draws themselves cannot be compared with a reference there) and ``numba_components_independent_jit``
(small compiled sample), ``noise_dict_reused`` (several equations built from ONE shared ``noise``
dict / list / array object each add the documented increment).
"""

from __future__ import annotations

import math

import numpy as np
from hypothesis import strategies as st

from vlib import env

env.setup()

import pde  # noqa: E402
from pde import PDE, DiffusionPDE, FieldCollection, KPZInterfacePDE, ScalarField, Tensor2Field, VectorField  # noqa: E402
from pde.pdes import ReactionDiffusionPDE  # noqa: E402
from pde.pdes.base import SDEBase  # noqa: E402

from vlib import gen_grids as gg  # noqa: E402
from vlib.core import Rejected, SubCheck, Violation  # noqa: E402

PROPERTY = "C13"
RULE = ("one case = (grid, state kind, equation family, variance kind/layout, interpretation, solver, "
        "dt, number of steps, seed, way the generator is passed); distinct = whole case")
ASSUMPTIONS = [
    "backend='numpy' for every clause about the exact normal numbers; the numba backend (documented to use "
    "numba's own generator) only for 'vanishing variance = deterministic result'",
    "a single ScalarField state gets its variance as a plain number (PDE(..., noise={'u': v} or [v]) on a scalar "
    "state is rejected with a ValueError of np.broadcast_to)",
    "dt is at most 0.45 (explicit) / 0.3 (semi-implicit) of the inverse operator-norm bound of the linear rate, "
    "so that 20 steps neither overflow nor leave the contraction regime of the fixed-point iteration",
    "the deterministic rate is py-pde's own evolution_rate (property C10 judges it)",
    "real-valued states (the documented noise is real)",
]

FIELD_CLASSES = {0: ScalarField, 1: VectorField, 2: Tensor2Field}
ALPHA = {"ito": 0.0, "itô": 0.0, "stratonovich": 0.5, "anti-ito": 1.0, "anti-itô": 1.0,
         "hänggi-klimontovich": 1.0, "hanggi-klimontovich": 1.0}
BC = "auto_periodic_neumann"


# --------------------------------------------------------------------------------------
# independent geometry: cell volumes from the specification
# --------------------------------------------------------------------------------------
def ref_cell_volumes(spec):
    cls = spec["cls"]
    shape = [int(n) for n in spec["shape"]]
    if cls == "unit":
        return np.ones(shape)
    if cls == "cart":
        v = np.ones(shape)
        for ax, ((lo, hi), n) in enumerate(zip(spec["bounds"], shape)):
            v = v * ((hi - lo) / n)
        return v
    r_in, r_out = spec["radius"]
    n = shape[0]
    dr = (r_out - r_in) / n
    r_lo = r_in + dr * np.arange(n)
    r_hi = r_lo + dr
    if cls == "polar":
        return np.pi * (r_hi**2 - r_lo**2)
    if cls == "sph":
        return 4 / 3 * np.pi * (r_hi**3 - r_lo**3)
    lo, hi = spec["bounds_z"]
    dz = (hi - lo) / shape[1]
    return (np.pi * (r_hi**2 - r_lo**2))[:, None] * np.full(shape[1], dz)[None, :]


def volume_condition(spec):
    """relative round-off of a cell volume that is computed as a difference of powers of the radii
    (thin shells far from the origin): eps * (r_hi^d + r_lo^d) / (r_hi^d - r_lo^d), worst cell"""
    cls = spec["cls"]
    if cls not in ("polar", "sph", "cyl"):
        return float(np.finfo(float).eps)
    d = 3 if cls == "sph" else 2
    r_in, r_out = spec["radius"]
    n = int(spec["shape"][0])
    dr = (r_out - r_in) / n
    r_lo = r_in + dr * np.arange(n)
    r_hi = r_lo + dr
    return float(np.finfo(float).eps * np.max((r_hi**d + r_lo**d) / (r_hi**d - r_lo**d)))


def laplace_norm_bound(spec):
    """bound of the infinity norm of the discrete Laplacian with Neumann/periodic conditions"""
    dx = []
    for (lo, hi), n in zip(gg.axes_bounds(spec), spec["shape"]):
        dx.append((hi - lo) / n)
    return 6.0 * sum(1.0 / d**2 for d in dx)


# --------------------------------------------------------------------------------------
# harness equations
# --------------------------------------------------------------------------------------
class LocalSDE(SDEBase):
    """du = (a u + b cos(w t) + D lap u) dt + noise; additive noise through SDEBase itself"""

    def __init__(self, a, b, w, D, *, noise, noise_interpretation="ito", rng=None):
        super().__init__(noise=noise, noise_interpretation=noise_interpretation, rng=rng)
        self.a, self.b, self.w, self.D = a, b, w, D

    def evolution_rate(self, state, t=0):
        out = state.copy()
        out.data = self.a * state.data + self.b * math.cos(self.w * t)
        if self.D:
            out.data += self.D * state.laplace(BC).data
        return out


class NumbaLocalSDE(LocalSDE):
    """purely local harness equation (D = 0) that also offers ``make_evolution_rate`` so that it can be
    solved on the numba backend (the closure is plain arithmetic: compilable and interpretable)"""

    def make_evolution_rate(self, state, backend):
        a, b, w = float(self.a), float(self.b), float(self.w)
        assert not self.D

        def rhs(arr, t):
            return a * arr + b * np.cos(w * t)

        return rhs


class MultiplicativeSDE(LocalSDE):
    """harness subclass overriding make_noise_variance (variance s2*u^2 or s2*(1+u^2))"""

    def __init__(self, a, b, w, D, *, kind, sig2_full, noise_interpretation="ito", rng=None):
        super().__init__(a, b, w, D, noise=0, noise_interpretation=noise_interpretation, rng=rng)
        self.kind = kind
        self.sig2_full = np.array(sig2_full, dtype=float)

    @property
    def is_sde(self):
        return True

    def make_noise_variance(self, state, *, backend, ret_diff=False):
        s2, kind = self.sig2_full, self.kind

        def noise_variance(state_data, t):
            if kind == "u2":
                var, diff = s2 * state_data**2, 2 * s2 * state_data
            elif kind == "1+u2":
                var, diff = s2 * (1 + state_data**2), 2 * s2 * state_data
            else:  # forced stochastic path with a constant variance
                var, diff = s2 * np.ones_like(state_data), np.zeros_like(state_data)
            return (var, diff) if ret_diff else var

        return noise_variance


# --------------------------------------------------------------------------------------
# generator
# --------------------------------------------------------------------------------------
def log_float(lo, hi):
    return st.floats(math.log10(lo), math.log10(hi)).map(lambda e: float(10.0**e))


NICE_DT = [0.1, 0.01, 0.5, 0.25, 1e-3, 0.3, 1.0, 0.05, 1e-4]
NICE_VAR = [1.0, 0.1, 0.5, 2.0, 0.01, 0.3]


@st.composite
def sde_cases(draw, solvers=("euler",), families=("harness", "harness", "harness", "harness", "pde", "pde", "diffusion", "kpz"),
              nonuniform=True, linear_only=False, theta_max=0.45, s_lo=1e-3, zero_frac=True, max_steps=20,
              min_cells=1, pde_variants=("scalar", "vector", "two_scalars", "scalar_vector", "three"),
              noise_as_options=("scalar", "list", "dict", "array")):
    classes = ("polar", "sph", "cyl", "polar", "sph", "cyl", "cart", "cart", "unit") if nonuniform else gg.ALL_CLASSES
    spec = draw(gg.grids(classes=classes, min_cells=min_cells, max_cells=6, max_total=48, len_lo=1e-2, len_hi=1e2,
                         offset_mag=10))
    dim = gg.dim_of(spec)
    family = draw(st.sampled_from(list(families)))
    if linear_only and family == "kpz":
        family = "diffusion"
    solver = draw(st.sampled_from(list(solvers)))
    interp = draw(st.sampled_from(["ito", "stratonovich", "anti-ito", "ito", "stratonovich", "anti-ito",
                                   "itô", "anti-itô", "hänggi-klimontovich", "hanggi-klimontovich"]))
    D = 0.0
    eq = {"family": family}
    # ---- state kind and equation parameters -----------------------------------------------
    if family == "harness":
        skind = draw(st.sampled_from(["scalar", "scalar", "vector", "tensor", "collection", "collection"]))
        ranks = {"scalar": [0], "vector": [1], "tensor": [2]}.get(skind) or draw(
            st.lists(st.sampled_from([0, 0, 1, 2]), min_size=1, max_size=3))
        a = draw(st.sampled_from([0.0, -1.0, -0.5, 0.3, 1.0]))
        b = draw(st.sampled_from([0.0, 1.0, -2.0]))
        w = draw(st.sampled_from([0.0, 1.0, 3.0]))
        if skind == "scalar" and draw(st.booleans()):
            D = draw(st.sampled_from([1.0, 0.1, 2.5]))
        kind = draw(st.sampled_from(["const", "u2", "1+u2", "1+u2", "u2", "const-forced"]))
        eq.update(a=a, b=b, w=w, D=D, kind=kind)
    elif family in ("diffusion", "kpz"):
        skind, ranks, kind = "scalar", [0], "const"
        D = draw(st.sampled_from([1.0, 0.1, 2.5, 0.5]))
        eq.update(D=D)
        if family == "kpz":
            eq.update(lmbda=draw(st.sampled_from([1.0, -0.5, 0.2])))
        interp = "ito"  # these classes have no interpretation argument
    elif family == "rd":  # ReactionDiffusionPDE: scalar species, forwards `noise` to PDE
        nvar = draw(st.sampled_from([2, 2, 3]))
        names = ["a", "b", "c"][:nvar]
        k = draw(st.sampled_from([0.5, 1.0, 0.0, 2.0]))
        D = draw(st.sampled_from([1.0, 0.1, 0.5]))
        diffusivity = D if draw(st.booleans()) else [D, 0.0, 0.5 * D][:nvar]
        src = {"a": f"-{k} * b", "b": f"{k} * a - b", "c": "sin(t) - c"}
        skind, ranks, kind = "collection", [0] * nvar, "const"
        eq.update(variables=names, diffusivity=diffusivity, sources={nm: src[nm] for nm in names},
                  sources_as=draw(st.sampled_from(["dict", "list"])), k=k, D=D,
                  noise_as=draw(st.sampled_from(list(noise_as_options))))
        interp = "ito"
    else:  # PDE class with expressions
        variant = draw(st.sampled_from(list(pde_variants)))
        k = draw(st.sampled_from([0.5, 1.0, 0.0, 2.0]))
        D = draw(st.sampled_from([1.0, 0.1, 0.5]))
        kind = "const"
        if variant == "scalar":
            skind, ranks, rhs = "scalar", [0], {"u": f"{D} * laplace(u) - {k} * u"}
        elif variant == "vector":
            skind, ranks, rhs, D = "vector", [1], {"v": f"-{k} * v"}, 0.0
        elif variant == "tensor":
            skind, ranks, rhs, D = "tensor", [2], {"T": f"-{k} * T + cos(t)"}, 0.0
        elif variant == "two_scalars":
            skind, ranks = "collection", [0, 0]
            rhs = {"a": f"{D} * laplace(a) - {k} * b", "b": f"{k} * a - b"}
        elif variant == "scalar_vector":
            skind, ranks = "collection", [0, 1]
            rhs = {"u": f"{D} * laplace(u) + sin(t)", "v": f"-{k} * v"}
        else:
            skind, ranks = "collection", [1, 0, 0]
            rhs = {"v": f"-{k} * v", "a": f"{D} * laplace(a)", "b": "a - b"}
        eq.update(rhs=rhs, k=k, D=D, noise_as=draw(st.sampled_from(list(noise_as_options))))
    # ---- time step ---------------------------------------------------------------------------
    lip = D * laplace_norm_bound(spec) + abs(eq.get("a", 0.0)) + 2 * abs(eq.get("k", 0.0)) + 1.0
    dt_stab = theta_max / lip
    if draw(st.booleans()):
        dt = min(draw(st.sampled_from(NICE_DT)), dt_stab)
    else:
        dt = draw(log_float(1e-6, 1.0))
        dt = min(dt, dt_stab)
    n = draw(st.one_of(st.integers(2, 5), st.integers(2, max_steps), st.integers(1, 3)))
    # ---- variances ------------------------------------------------------------------------------
    vmin = float(ref_cell_volumes(spec).min())
    ncomp = [dim**r for r in ranks]
    if family == "harness":
        if skind == "collection":
            layout = draw(st.sampled_from(["scalar", "per_field", "per_field"]))
            count = len(ranks) if layout == "per_field" else 1
        elif skind == "scalar":
            layout, count = "scalar", 1
        else:
            layout = draw(st.sampled_from(["scalar", "per_component", "per_component", "per_last_index"]))
            count = {"scalar": 1, "per_component": ncomp[0], "per_last_index": dim}[layout]
    elif family in ("pde", "rd"):
        if skind == "scalar":
            # PDE({"u": ...}, noise={"u": v} / [v]) on a ScalarField ends in a ValueError of
            # np.broadcast_to inside make_noise_variance: a single scalar field takes a plain number
            eq["noise_as"] = "scalar"
        layout = "scalar" if (eq["noise_as"] == "scalar" or len(ranks) == 1) else "per_field"
        count = 1 if layout == "scalar" else len(ranks)
    else:
        layout, count = "scalar", 1
    rel = draw(st.booleans())
    values = []
    for _ in range(count):
        if zero_frac and count > 1 and draw(st.integers(0, 3)) == 0:
            values.append(0.0)
            continue
        s = draw(log_float(s_lo, 1.0))
        v = s * s * vmin / dt
        if not rel:
            nice = draw(st.sampled_from(NICE_VAR))
            if nice * dt / vmin <= 9.0 and nice * dt / vmin >= s_lo**2:  # increments stay O(1)
                v = nice
        values.append(float(v))
    if max(values) == 0:  # at least one field / component is noisy
        values[0] = float(draw(log_float(s_lo, 1.0)) ** 2 * vmin / dt)
    noise = {"layout": layout, "values": values, "kind": kind}
    return {
        "grid": spec, "eq": eq, "state": {"kind": skind, "ranks": ranks, "seed": draw(st.integers(0, 2**31 - 1)),
                                           "amp": draw(st.sampled_from([1.0, 0.1, 5.0]))},
        "noise": noise, "interp": interp, "solver": solver, "dt": float(dt), "n": n,
        "t0": draw(st.sampled_from([0.0, 0.0, 1.0, -2.5])),
        "rng": {"seed": draw(st.integers(0, 2**32 - 1)), "as": draw(st.sampled_from(["int", "generator", "advanced"])),
                "skip": draw(st.integers(1, 7))},
        "maxerror": draw(st.sampled_from([None, 1e-8, 1e-12, 1e-10])),
    }


# --------------------------------------------------------------------------------------
# building py-pde objects from a case
# --------------------------------------------------------------------------------------
def make_state(grid, case):
    s = case["state"]
    dim = grid.dim
    fields = []
    for i, r in enumerate(s["ranks"]):
        data = gg.rng_array(s["seed"] + i, (dim,) * r + grid.shape) * s["amp"]
        fields.append(FIELD_CLASSES[r](grid, data))
    if s["kind"] == "collection":
        return FieldCollection(fields)
    return fields[0]


def variance_full(case, grid):
    """documented layout: sigma^2 per component (tensor fields) / per field (collections),
    as an array broadcastable against state.data"""
    ranks = case["state"]["ranks"]
    dim = grid.dim
    vals = case["noise"]["values"]
    layout = case["noise"]["layout"]
    tail = (1,) * grid.num_axes
    if case["state"]["kind"] == "collection":
        per_field = vals * len(ranks) if layout == "scalar" else vals
        rows = []
        for r, v in zip(ranks, per_field):
            rows += [v] * dim**r
        return np.array(rows, dtype=float).reshape((len(rows),) + tail)
    r = ranks[0]
    shape = (dim,) * r
    if layout == "scalar":
        arr = np.full(shape, vals[0])
    elif layout == "per_component":
        arr = np.array(vals, dtype=float).reshape(shape)
    else:  # one value per last tensor index (numpy broadcasting of a (dim,) array)
        arr = np.broadcast_to(np.array(vals, dtype=float), shape).copy()
    return arr.reshape(shape + tail)


def noise_argument(case, grid):
    """the ``noise`` argument a caller would pass for this layout"""
    vals = case["noise"]["values"]
    layout = case["noise"]["layout"]
    if layout == "scalar":
        return vals[0]
    if case["state"]["kind"] == "collection":
        return list(vals)
    r = case["state"]["ranks"][0]
    if layout == "per_component":
        return np.array(vals, dtype=float).reshape((grid.dim,) * r)
    return np.array(vals, dtype=float)


def make_rng(case, reference=False):
    r = case["rng"]
    if r["as"] == "int" and not reference:
        return int(r["seed"])
    g = np.random.default_rng(int(r["seed"]))
    if r["as"] == "advanced":
        g.standard_normal(r["skip"])
    return g


def field_names(eq):
    return list(eq["variables"]) if eq["family"] == "rd" else list(eq["rhs"])


def pde_noise_argument(case, reverse=False):
    """the ``noise`` argument of the PDE / ReactionDiffusionPDE classes in the requested format"""
    eq, vals = case["eq"], case["noise"]["values"]
    names = field_names(eq)
    if eq["noise_as"] == "scalar":
        return vals[0]
    if eq["noise_as"] == "list":
        return list(vals)
    if eq["noise_as"] == "array":
        return np.array(vals)
    # dict: zero entries are left out (documented default 0); the order of the keys is irrelevant
    pairs = [(nm, v) for nm, v in zip(names, vals) if v != 0] or [(names[0], 0.0)]
    return dict(reversed(pairs) if reverse else pairs)


def rd_as_pde_rhs(eq):
    """the documented right-hand side of ReactionDiffusionPDE written out for the PDE class"""
    names = eq["variables"]
    diff = np.broadcast_to(eq["diffusivity"], (len(names),))
    return {nm: f"{float(d)} * laplace({nm}) + {eq['sources'][nm]}" for nm, d in zip(names, diff)}


def make_equation(case, grid, rng, noise_on=True, noise_obj=None, rhs_obj=None, as_pde=False):
    """the equation under test; ``noise_on=False`` gives its deterministic counterpart.

    ``noise_obj`` / ``rhs_obj``: caller-owned objects handed to the PDE classes *as they are* (to build
    several equations from the same specification objects)"""
    eq, interp = case["eq"], case["interp"]
    fam = eq["family"]
    if fam == "harness":
        kind = eq["kind"]
        if kind == "const" or not noise_on:
            noise = noise_argument(case, grid) if noise_on else 0
            cls = NumbaLocalSDE if eq.get("numba") else LocalSDE
            return cls(eq["a"], eq["b"], eq["w"], eq["D"], noise=noise, noise_interpretation=interp, rng=rng)
        return MultiplicativeSDE(eq["a"], eq["b"], eq["w"], eq["D"], kind=kind, sig2_full=variance_full(case, grid),
                                 noise_interpretation=interp, rng=rng)
    if fam == "diffusion":
        return DiffusionPDE(eq["D"], bc=BC, noise=case["noise"]["values"][0] if noise_on else 0, rng=rng)
    if fam == "kpz":
        return KPZInterfacePDE(nu=eq["D"], lmbda=eq["lmbda"], bc=BC, noise=case["noise"]["values"][0] if noise_on else 0,
                               rng=rng)
    if not noise_on:
        noise = 0
    elif noise_obj is not None:
        noise = noise_obj
    else:
        noise = pde_noise_argument(case)
    if fam == "rd" and not as_pde:
        names = eq["variables"]
        if rhs_obj is not None:
            sources = rhs_obj
        elif eq["sources_as"] == "dict":
            sources = dict(eq["sources"])
        else:
            sources = [eq["sources"][nm] for nm in names]
        return ReactionDiffusionPDE(list(names), eq["diffusivity"], sources, bc=BC, noise=noise, rng=rng)
    if rhs_obj is not None:
        rhs = rhs_obj
    else:
        rhs = rd_as_pde_rhs(eq) if fam == "rd" else dict(eq["rhs"])
    return PDE(rhs, bc=BC, noise=noise, noise_interpretation=interp, rng=rng)


def ref_variance(case, s2, u):
    kind = case["noise"]["kind"]
    if kind == "u2":
        return s2 * u**2, 2 * s2 * u
    if kind == "1+u2":
        return s2 * (1 + u**2), 2 * s2 * u
    return s2 * np.ones_like(u), np.zeros_like(u)


def solver_kwargs(case):
    kw = {}
    if case["solver"] == "implicit":
        kw["maxiter"] = 1000
        if case["maxerror"] is not None:
            kw["maxerror"] = case["maxerror"]
    return kw


def run_solve(eq, state, case, t_start, steps, backend="numpy"):
    dt = case["dt"]
    t_end = t_start + steps * dt
    from pde.solvers.base import ConvergenceError

    try:
        res = eq.solve(state, t_range=(t_start, t_end), dt=dt, backend=backend, solver=case["solver"],
                       tracker=None, **solver_kwargs(case))
    except ConvergenceError as e:
        raise Rejected(f"ConvergenceError: {e}")
    done = eq.diagnostics["solver"]["steps"]
    if done != steps:
        raise Rejected(f"solver made {done} steps instead of {steps} (time bookkeeping, property C07)")
    return res


class Model:
    """reference model of one trajectory"""

    def __init__(self, case, eq_rate=None):
        self.case = case
        self.grid = gg.build_grid(case["grid"])
        self.V = ref_cell_volumes(case["grid"])
        # relative tolerance per step: 1e-12 plus the conditioning of the cell volumes themselves
        self.rtol = 1e-12 + 8 * volume_condition(case["grid"])
        self.s2 = variance_full(case, self.grid)
        self.alpha = ALPHA[case["interp"]]
        self.ref_rng = make_rng(case, reference=True)
        # deterministic twin on its own grid; may be shared between models of the same specification
        self.eq_rate = eq_rate or make_equation(case, gg.build_grid(case["grid"]), rng=0, noise_on=False)
        self.template = make_state(self.grid, case)
        self.scale = 0.0

    def rate(self, u, t):
        f = self.template.copy()
        f.data = u
        return np.array(self.eq_rate.evolution_rate(f, t).data, dtype=float)

    def terms(self, u, t, xi):
        dt = self.case["dt"]
        var, dvar = ref_variance(self.case, self.s2, u)
        det = dt * self.rate(u, t)
        noise = np.sqrt(var * dt / self.V) * xi
        drift = 0.5 * self.alpha * dt * dvar / self.V
        mil = 0.25 * dvar / self.V * ((math.sqrt(dt) * xi) ** 2 - dt)
        self.scale = max(self.scale, float(np.max(np.abs(u) + np.abs(det) + np.abs(noise) + np.abs(drift) + np.abs(mil))))
        return det, noise, drift, mil

    def step(self, u, t):
        xi = self.ref_rng.standard_normal(u.shape)  # exactly one draw of exactly that shape
        det, noise, drift, mil = self.terms(u, t, xi)
        new = u + det + noise + drift
        if self.case["solver"] == "milstein":
            new = new + mil
        return new, xi


def case_labels(case):
    spec = case["grid"]
    labs = [gg.grid_label(spec), "family:" + case["eq"]["family"], "state:" + case["state"]["kind"],
            "var:" + case["noise"]["kind"], "layout:" + case["noise"]["layout"],
            "alpha:" + str(ALPHA[case["interp"]]), "interp:" + case["interp"], "rng:" + case["rng"]["as"],
            "solver:" + case["solver"], "steps>=2" if case["n"] >= 2 else "steps=1"]
    if any(v == 0 for v in case["noise"]["values"]) and any(v != 0 for v in case["noise"]["values"]):
        labs.append("some-zero-variance")
    if 0 < max(case["noise"]["values"]) <= 1e-14:
        labs.append("max-variance<=1e-14")
    if case["state"]["kind"] == "collection" and len(set(case["state"]["ranks"])) > 1:
        labs.append("mixed-rank-collection")
    return labs


def is_nt(case):
    nonuniform = case["grid"]["cls"] in ("polar", "sph", "cyl")
    dependent = case["noise"]["kind"] in ("u2", "1+u2")
    return bool((nonuniform or dependent or ALPHA[case["interp"]] != 0) and case["n"] >= 2)


def bucket(case, what):
    return (f"{case['solver']}:{'alpha0' if ALPHA[case['interp']] == 0 else 'alpha>0'}:{case['state']['kind']}:"
            f"{case['noise']['kind']}:{what}")


def check_draw_count(eq, model, case):
    got = float(eq.rng.standard_normal())
    want = float(model.ref_rng.standard_normal())
    if got != want:
        raise Violation(
            f"after {case['n']} steps the equation's generator is not where {case['n']} draws of shape "
            f"state.data.shape leave it: next normal number {got!r}, expected {want!r}", key=bucket(case, "draw-count"))


# --------------------------------------------------------------------------------------
# explicit solvers: final state of an n-step run against the reference recursion
# --------------------------------------------------------------------------------------
def check_explicit(case):
    grid = gg.build_grid(case["grid"])
    return judge_explicit(case, grid, make_equation(case, grid, make_rng(case)))


def judge_explicit(case, grid, eq, eq_rate=None):
    """n-step run of the given equation (built for ``case`` on ``grid``) against the reference recursion"""
    model = Model(case, eq_rate=eq_rate)
    state = make_state(grid, case)
    if not eq.is_sde:
        raise Violation(f"equation with variances {case['noise']['values']} reports is_sde=False",
                        key=bucket(case, "is_sde"))
    res = run_solve(eq, state, case, case["t0"], case["n"])
    u = np.array(state.data, dtype=float)
    dt = case["dt"]
    for i in range(case["n"]):
        u, _ = model.step(u, case["t0"] + i * dt)
    if not np.all(np.isfinite(u)):
        return {"nt": False, "labels": ["overflow"]}
    tol = case["n"] * model.rtol * model.scale
    err = float(np.max(np.abs(res.data - u)))
    if not err <= tol:
        idx = np.unravel_index(int(np.argmax(np.abs(res.data - u))), u.shape)
        raise Violation(
            f"{case['solver']} n={case['n']} dt={dt!r} {case['interp']}: final state differs from the reference "
            f"recursion by {err:.3g} (tolerance {tol:.3g}) at index {idx}: got {res.data[idx]!r}, expected {u[idx]!r}; "
            f"variances {case['noise']['values']} layout {case['noise']['layout']} kind {case['noise']['kind']}",
            key=bucket(case, "state"))
    check_draw_count(eq, model, case)
    return {"nt": is_nt(case), "labels": case_labels(case)}


# --------------------------------------------------------------------------------------
# semi-implicit solver: residual of the defining equation, step by step
# --------------------------------------------------------------------------------------
def check_semi_implicit(case):
    model = Model(case)
    grid = gg.build_grid(case["grid"])
    state = make_state(grid, case)
    eq = make_equation(case, grid, make_rng(case))
    dt, n = case["dt"], case["n"]
    maxerror = case["maxerror"] if case["maxerror"] is not None else 1e-4  # documented default
    cur = state
    for i in range(n):
        t = case["t0"] + i * dt
        new = run_solve(eq, cur, case, t, 1)
        u, u_new = np.array(cur.data, dtype=float), np.array(new.data, dtype=float)
        xi = model.ref_rng.standard_normal(u.shape)
        _, noise, _, _ = model.terms(u, t, xi)
        # u_new = (u + noise) + dt f(u_new, t + dt) up to the convergence criterion of the iteration:
        # rms(last update) < maxerror and contraction factor <= 0.3 by construction of dt
        resid = u_new - dt * model.rate(u_new, t + dt) - u - noise
        tol = 0.6 * math.sqrt(u.size) * maxerror + model.rtol * model.scale
        err = float(np.max(np.abs(resid)))
        if not err <= tol:
            raise Violation(
                f"semi-implicit step {i}: u' - dt f(u', t+dt) - u differs from sqrt(var dt/V) xi by {err:.3g} "
                f"(tolerance {tol:.3g}, maxerror {maxerror:g}, largest noise increment {np.max(np.abs(noise)):.3g}); "
                f"dt={dt!r} variances {case['noise']['values']} kind {case['noise']['kind']}",
                key=bucket(case, "increment"))
        cur = new
    check_draw_count(eq, model, case)
    # one n-step run with the same seed ends in the same state
    eq2 = make_equation(case, grid, make_rng(case))
    res = run_solve(eq2, state, case, case["t0"], n)
    err = float(np.max(np.abs(res.data - cur.data)))
    if not err <= model.rtol * model.scale * n:
        raise Violation(f"n-step run differs from {n} single steps with the same seed by {err:.3g}",
                        key=bucket(case, "n-step-vs-single-steps"))
    return {"nt": is_nt(case), "labels": case_labels(case) + [f"maxerror:{maxerror:g}"]}


# --------------------------------------------------------------------------------------
# draw accounting: normal numbers inferred from single explicit steps
# --------------------------------------------------------------------------------------
def check_draw_accounting(case):
    model = Model(case)
    grid = gg.build_grid(case["grid"])
    state = make_state(grid, case)
    eq = make_equation(case, grid, make_rng(case))
    dt, n = case["dt"], case["n"]
    cur = state
    judged = 0
    for i in range(n):
        t = case["t0"] + i * dt
        new = run_solve(eq, cur, case, t, 1)
        u, u_new = np.array(cur.data, dtype=float), np.array(new.data, dtype=float)
        xi = model.ref_rng.standard_normal(u.shape)
        det, noise, drift, mil = model.terms(u, t, xi)
        rest = u_new - u - det - drift - (mil if case["solver"] == "milstein" else 0.0)
        var, _ = ref_variance(case, model.s2, u)
        amp = np.broadcast_to(np.sqrt(var * dt / model.V), u.shape)
        # conditioning of the inference: round-off of the state relative to the noise amplitude
        cond = (64 * np.finfo(float).eps * (np.abs(u) + np.abs(u_new) + np.abs(det) + np.abs(drift) + np.abs(mil))
                + model.rtol * (np.abs(drift) + np.abs(mil)))
        zero = amp == 0
        if np.any(zero) and float(np.max(np.abs(rest[zero]) - cond[zero])) > 0:
            raise Violation(f"step {i}: components with zero variance received a stochastic increment "
                            f"{np.max(np.abs(rest[zero])):.3g}", key=bucket(case, "zero-variance-component"))
        ok = (~zero) & (cond <= 1e-10 * np.where(zero, 1.0, amp))
        if np.any(ok):
            xi_inf = rest[ok] / amp[ok]
            dev = np.abs(xi_inf - xi[ok])
            lim = (1e-9 + model.rtol) * (1 + np.abs(xi[ok])) + cond[ok] / amp[ok]
            if np.any(dev > lim):
                j = int(np.argmax(dev - lim))
                raise Violation(
                    f"step {i}: the normal number inferred from the step, {xi_inf[j]!r}, is not draw #{i} of the "
                    f"parallel generator, {xi[ok][j]!r} (|diff| {dev[j]:.3g}); solver {case['solver']} dt={dt!r}",
                    key=bucket(case, "inferred-normal"))
            judged += int(ok.sum())
        cur = new
    check_draw_count(eq, model, case)
    labs = case_labels(case) + ["inferred>0" if judged else "inferred=0"]
    return {"nt": is_nt(case) and judged > 0, "labels": labs}


# --------------------------------------------------------------------------------------
# same seed -> bit-identical
# --------------------------------------------------------------------------------------
def check_seed_reproducible(case):
    runs = []
    for rep in range(2):
        grid = gg.build_grid(case["grid"])
        state = make_state(grid, case)
        c = dict(case)
        if rep == 1 and case["rng"]["as"] != "advanced":
            # the other way of passing the same seed
            c["rng"] = dict(case["rng"], **{"as": "generator" if case["rng"]["as"] == "int" else "int"})
        eq = make_equation(c, grid, make_rng(c))
        if rep == 1:
            # the equation travels through the standard library's duplication first (worker processes,
            # duplicated realisations; after missed seed C13-7: pickling dropped the generator): the duplicate
            # carries the generator with its state, so the run draws the same numbers
            dup = case["rng"]["seed"] % 3
            if dup == 1:
                import pickle

                eq = pickle.loads(pickle.dumps(eq))
            elif dup == 2:
                import copy

                eq = copy.deepcopy(eq)
        runs.append(np.array(run_solve(eq, state, c, case["t0"], case["n"]).data))
    if runs[0].tobytes() != runs[1].tobytes():
        raise Violation(f"two runs with seed {case['rng']['seed']} differ by {np.max(np.abs(runs[0] - runs[1])):.3g}",
                        key=bucket(case, "same-seed"))
    c = dict(case)
    c["rng"] = dict(case["rng"], seed=(case["rng"]["seed"] + 1) % 2**32)
    grid = gg.build_grid(case["grid"])
    other = np.array(run_solve(make_equation(c, grid, make_rng(c)), make_state(grid, case), c, case["t0"], case["n"]).data)
    differs = not np.array_equal(other, runs[0])
    if not differs:
        raise Violation("a different seed gave the identical trajectory (noise not drawn from the equation's generator)",
                        key=bucket(case, "seed-ignored"))
    return {"nt": is_nt(case), "labels": case_labels(case)}


# --------------------------------------------------------------------------------------
# vanishing variance -> deterministic result
# --------------------------------------------------------------------------------------
@st.composite
def zero_cases(draw, backends=("numpy",), solvers=("euler", "milstein", "implicit"), modes=None):
    backend = draw(st.sampled_from(list(backends)))
    if modes is not None:
        mode = draw(st.sampled_from(list(modes)))
    elif backend == "numpy":
        mode = draw(st.sampled_from(["plain_zero", "forced_zero", "partial", "partial", "partial_pde"]))
    else:
        mode = draw(st.sampled_from(["plain_zero", "partial_pde", "partial_pde"]))
    fam = {"plain_zero": ("harness", "diffusion", "pde", "kpz"), "forced_zero": ("harness",), "partial": ("harness",),
           "partial_pde": ("pde",)}[mode]
    if backend != "numpy":
        fam = tuple(f for f in fam if f != "harness")
    case = draw(sde_cases(solvers=solvers, families=fam, linear_only=True, theta_max=0.3, s_lo=0.03, zero_frac=False))
    case["backend"] = backend
    case["mode"] = mode
    vals = case["noise"]["values"]
    if mode == "plain_zero":
        case["noise"]["values"] = [0.0] * len(vals)
        case["noise"]["kind"] = "const"
        if case["eq"]["family"] == "harness":
            case["eq"]["kind"] = "const"
    elif mode == "forced_zero":
        case["noise"]["values"] = [0.0] * len(vals)
        kind = draw(st.sampled_from(["const-forced", "u2", "1+u2"]))
        case["noise"]["kind"] = kind
        case["eq"]["kind"] = kind
    elif mode == "partial":
        # harness with a purely local rate: components do not talk to each other
        case["eq"]["D"] = 0.0
        skind = draw(st.sampled_from(["vector", "tensor", "collection"]))
        dim = gg.dim_of(case["grid"])
        if skind == "collection":
            ranks = draw(st.lists(st.sampled_from([0, 0, 1, 2]), min_size=2, max_size=3))
            count, layout = len(ranks), "per_field"
        else:
            ranks = [1] if skind == "vector" else [2]
            count, layout = dim ** ranks[0], "per_component"
        case["state"].update(kind=skind, ranks=ranks)
        v = vals[0]
        zeros = draw(st.lists(st.booleans(), min_size=count, max_size=count))
        if all(zeros) or not any(zeros):
            zeros[0], zeros[-1] = True, False
        case["noise"].update(layout=layout, values=[0.0 if z else v for z in zeros])
        if case["solver"] == "implicit":
            case["solver"] = "euler"  # convergence criterion couples the components
    else:  # partial_pde: uncoupled fields, some without noise
        k = case["eq"].get("k", 0.5)
        D = case["eq"].get("D", 1.0) or 1.0
        variant = draw(st.sampled_from(["sv", "ss", "vss"]))
        if variant == "sv":
            ranks, rhs = [0, 1], {"u": f"{D} * laplace(u) + sin(t)", "v": f"-{k} * v"}
        elif variant == "ss":
            ranks, rhs = [0, 0], {"a": f"{D} * laplace(a) - {k} * a", "b": f"-{k} * b + 1"}
        else:
            ranks, rhs = [1, 0, 0], {"v": f"-{k} * v", "a": f"{D} * laplace(a)", "b": "-b"}
        case["eq"].update(rhs=rhs, D=D, k=k, noise_as=draw(st.sampled_from(["list", "dict", "array"])))
        case["state"].update(kind="collection", ranks=ranks)
        v = vals[0]
        zeros = draw(st.lists(st.booleans(), min_size=len(ranks), max_size=len(ranks)))
        if all(zeros) or not any(zeros):
            zeros[0], zeros[-1] = True, False
        case["noise"].update(layout="per_field", values=[0.0 if z else v for z in zeros])
        if case["solver"] == "implicit":
            case["solver"] = "euler"
    return case


def check_zero_noise(case, exact=True):
    backend = case["backend"]
    grid = gg.build_grid(case["grid"])
    state = make_state(grid, case)
    n, dt = case["n"], case["dt"]
    seed_rng = make_rng(case)
    eq = make_equation(case, grid, seed_rng)
    res = np.array(run_solve(eq, state, case, case["t0"], n, backend=backend).data)
    eq_det = make_equation(case, grid, 0, noise_on=False)
    if eq_det.is_sde:
        raise Violation("equation with noise=0 reports is_sde=True", key="zero:is_sde")
    det = np.array(run_solve(eq_det, state, case, case["t0"], n, backend=backend).data)
    s2 = np.broadcast_to(variance_full(case, grid), res.shape)
    quiet = s2 == 0
    scale = float(np.max(np.abs(det))) + 1e-300
    diff = np.abs(res - det)
    if exact:
        bad = quiet & ~((res == det) | (np.isnan(res) & np.isnan(det)))
    else:  # compiled code: the two steppers are different LLVM functions (fast-math contraction)
        bad = quiet & ~(diff <= 1e-13 * n * scale)
    if np.any(bad):
        idx = tuple(int(i) for i in np.argwhere(bad)[0])
        raise Violation(
            f"[{backend}] {case['mode']} solver {case['solver']}: component with zero variance differs from the "
            f"deterministic result at {idx}: {res[idx]!r} vs {det[idx]!r} (variances {case['noise']['values']}, "
            f"kind {case['noise']['kind']})", key=f"zero:{backend}:{case['mode']}:{case['solver']}")
    labs = case_labels(case) + ["backend:" + backend, "mode:" + case["mode"]]
    if case["mode"] in ("partial", "partial_pde"):
        noisy = ~quiet
        if not np.any(diff[noisy] > 0):
            raise Violation(f"[{backend}] components with variance {max(case['noise']['values'])} did not move away "
                            "from the deterministic result", key=f"zero:{backend}:{case['mode']}:no-noise-at-all")
    if case["mode"] == "plain_zero" and backend == "numpy":
        # documented: a deterministic equation is solved -> the generator is not touched
        fresh = make_rng(case, reference=True)
        if float(eq.rng.standard_normal()) != float(fresh.standard_normal()):
            raise Violation("noise=0: the equation's generator was consumed", key="zero:numpy:generator-consumed")
    return {"nt": case["mode"] != "plain_zero" and n >= 2 or (case["grid"]["cls"] in ("polar", "sph", "cyl") and n >= 2),
            "labels": labs}


def check_zero_noise_jit(case):
    return check_zero_noise(case, exact=False)


# --------------------------------------------------------------------------------------
# positive variances below 1e-14 (were silently treated as zero before fix 2992ecc)
# --------------------------------------------------------------------------------------
def tiny_cases():
    return st.fixed_dictionaries({
        "n_cells": st.integers(2, 4),
        "length": st.sampled_from([1e-3, 2e-3, 5e-4]),
        "variance": st.sampled_from([1e-14, 1e-15, 5e-15, 2e-16]),
        "family": st.sampled_from(["diffusion", "pde", "harness"]),
        "seed": st.integers(0, 2**31 - 1),
    })


def check_tiny_variance(case):
    n, L = case["n_cells"], case["length"]
    spec = {"cls": "cart", "shape": [n] * 3, "bounds": [[0.0, L]] * 3, "periodic": [True] * 3}
    grid = gg.build_grid(spec)
    V = ref_cell_volumes(spec)  # 2e-12 ... 1e-9
    var, dt, seed = case["variance"], 0.1, case["seed"]
    state = ScalarField(grid, gg.rng_array(seed, grid.shape))
    if case["family"] == "diffusion":
        eq = DiffusionPDE(1e-9, bc=BC, noise=var, rng=seed)  # dt*D/dx^2 <= 0.01
    elif case["family"] == "pde":
        eq = PDE({"u": "-u"}, noise=var, rng=seed)
    else:
        eq = LocalSDE(-1.0, 0.0, 0.0, 0.0, noise=var, rng=seed)
    res = eq.solve(state, t_range=dt, dt=dt, backend="numpy", solver="euler", tracker=None)
    xi = np.random.default_rng(seed).standard_normal(state.data.shape)
    expect = np.sqrt(var * dt / V) * xi
    moved = res.data - state.data - dt * eq.evolution_rate(state.copy(), 0).data
    if np.max(np.abs(moved - expect)) > 1e-6 * np.max(np.abs(expect)):
        raise Violation(
            f"variance {var:g} > 0 on cells of volume {V.flat[0]:.3g}, dt={dt}: the documented increment "
            f"sqrt(var*dt/V)*xi has size {np.max(np.abs(expect)):.3g} but the step added {np.max(np.abs(moved)):.3g} "
            f"(is_sde={eq.is_sde}; the documentation says the equation is deterministic only if the variance "
            "is zero)",
            key="C13:is_sde:variance-below-1e-14-treated-as-zero" if not eq.is_sde else "tiny_variance:increment")
    return {"nt": True, "labels": ["family:" + case["family"]]}


# --------------------------------------------------------------------------------------
# numba backend: every component / field gets its own normal numbers
# --------------------------------------------------------------------------------------
VAR_FACTORS = [1.0, 0.5, 2.0, 0.25, 1.0]


@st.composite
def independent_cases(draw, solvers=("euler", "milstein", "implicit"), families=("harness", "harness", "pde"),
                      max_n=3):
    """multi-component states (vector, tensor, collection of 2-3 fields) on grids with >= 3 cells, additive noise
    with non-zero variance for every component, purely local or Laplacian-coupled linear rate"""
    case = draw(sde_cases(solvers=solvers, families=families, linear_only=True, theta_max=0.3, s_lo=0.03,
                          zero_frac=False, max_steps=3, min_cells=3,
                          pde_variants=("vector", "tensor", "two_scalars", "scalar_vector", "three")))
    dim = gg.dim_of(case["grid"])
    eq = case["eq"]
    v = max(case["noise"]["values"])
    if eq["family"] == "harness":
        skind = draw(st.sampled_from(["vector", "tensor", "collection", "collection"]))
        if skind == "collection":
            ranks = draw(st.lists(st.sampled_from([0, 0, 1, 2]), min_size=2, max_size=3))
            layout = draw(st.sampled_from(["scalar", "per_field", "per_field"]))
            count = len(ranks) if layout == "per_field" else 1
        else:
            ranks = [1] if skind == "vector" else [2]
            layout = draw(st.sampled_from(["scalar", "per_component", "per_component", "per_last_index"]))
            count = {"scalar": 1, "per_component": dim ** ranks[0], "per_last_index": dim}[layout]
        eq.update(D=0.0, kind="const", numba=True)
        if draw(st.integers(0, 3)) == 0:  # equation without deterministic part
            eq.update(a=0.0, b=0.0)
        if sum(dim**r for r in ranks) < 2:  # a vector / tensor on a 1d grid has a single component
            skind, ranks = "collection", [ranks[0], 0]
            layout = draw(st.sampled_from(["scalar", "per_field"]))
            count = 2 if layout == "per_field" else 1
        case["state"].update(kind=skind, ranks=ranks)
        case["noise"].update(kind="const", layout=layout)
    else:
        if sum(dim**r for r in case["state"]["ranks"]) < 2:  # ditto: add an uncoupled scalar field
            eq["rhs"] = dict(eq["rhs"], s=f"-{eq['k']} * s + 1")
            case["state"].update(kind="collection", ranks=[case["state"]["ranks"][0], 0])
            if eq["noise_as"] != "scalar":
                case["noise"].update(layout="per_field", values=[v, v])
        count = len(case["noise"]["values"])
    # all variances positive (every component is judged), different per component / field
    factors = draw(st.lists(st.sampled_from(VAR_FACTORS), min_size=count, max_size=count))
    case["noise"]["values"] = [float(v * f) for f in factors]
    if case["solver"] == "implicit":
        case["maxerror"] = draw(st.sampled_from([1e-12, 1e-13]))  # the iteration error stays far below the noise
    case["n"] = min(case["n"], max_n)  # every step is a separate solve (a new stepper)
    case["backend"] = "numba"
    return case


def check_components_independent(case):
    """The numba backend uses numba's own generator, so the draws cannot be predicted.  Deterministic signature
    of independent draws: the normal numbers inferred from one step,

        xi = (u' - u - dt f(u, t)) / sqrt(var dt / V)        (explicit solvers, additive noise)
        xi = (u' - dt f(u', t + dt) - u) / sqrt(var dt / V)  (semi-implicit solver)

    are not the same array for two different components / fields (equality of two independent continuous
    draws in all >= 3 cells has probability zero), and not the same array in two successive steps."""
    from pde.backends.numba.utils import random_seed

    backend = case["backend"]
    model = Model(case)
    grid = gg.build_grid(case["grid"])
    state = make_state(grid, case)
    eq = make_equation(case, grid, make_rng(case))
    if not eq.is_sde:
        raise Violation(f"equation with variances {case['noise']['values']} reports is_sde=False",
                        key=f"independent:{backend}:is_sde")
    random_seed(int(case["rng"]["seed"]) % 2**31)  # replays see the same realization
    dt, n = case["dt"], case["n"]
    ncell = int(np.prod(grid.shape))
    amp = np.broadcast_to(np.sqrt(model.s2 * dt / model.V), state.data.shape)
    eps = np.finfo(float).eps
    cur, previous = state, None
    pairs = 0
    labs = case_labels(case) + ["backend:" + backend]
    for i in range(n):
        t = case["t0"] + i * dt
        new = run_solve(eq, cur, case, t, 1, backend=backend)
        u, u_new = np.array(cur.data, dtype=float), np.array(new.data, dtype=float)
        if case["solver"] == "implicit":
            det = dt * model.rate(u_new, t + dt)
            slack = 2 * case["maxerror"]  # convergence criterion of the iteration, contraction <= 0.3
        else:
            det = dt * model.rate(u, t)
            slack = 0.0
        rest = u_new - u - det
        # error of an inferred normal number (round-off of the state, iteration error, cell volumes)
        cond = (64 * eps * (np.abs(u) + np.abs(u_new) + np.abs(det)) + slack) / amp + model.rtol * np.abs(rest / amp)
        xi = (rest / amp).reshape((-1,) + tuple(grid.shape))
        cond = cond.reshape(xi.shape)
        if not np.all(np.isfinite(xi)):
            return {"nt": False, "labels": ["overflow"]}
        well = [bool(np.max(c) <= 1e-8) for c in cond]
        if float(np.max(np.abs(xi[well]), initial=0.0)) > 10.0:  # P(|N(0,1)| > 10) = 1.5e-23
            j = np.unravel_index(int(np.argmax(np.abs(xi) * np.array(well).reshape((-1,) + (1,) * grid.num_axes))),
                                 xi.shape)
            raise Violation(
                f"[{backend}] {case['solver']} step {i}: the stochastic increment at {j} is {xi[j]:.3g} times the "
                f"documented standard deviation sqrt(var*dt/V) = {amp.reshape(xi.shape)[j]:.3g}",
                key=f"independent:{backend}:{case['solver']}:{case['state']['kind']}:amplitude")
        for a in range(len(xi)):
            if not well[a]:
                continue
            if float(np.max(np.abs(xi[a]))) <= float(np.max(cond[a])):  # |N(0,1)| <= 1e-8 in all cells: P < 1e-24
                raise Violation(
                    f"[{backend}] {case['solver']} step {i}: component {a} with variance > 0 "
                    f"(standard deviation {amp.reshape(xi.shape)[a].max():.3g}) received no noise at all",
                    key=f"independent:{backend}:{case['solver']}:{case['state']['kind']}:no-noise")
            for b in range(a + 1, len(xi)):
                if not well[b]:
                    continue
                pairs += 1
                d = float(np.max(np.abs(xi[a] - xi[b])))
                if d <= 1e-6:
                    raise Violation(
                        f"[{backend}] {case['solver']} step {i}, state {case['state']['kind']} ranks "
                        f"{case['state']['ranks']} on {ncell} cells: components {a} and {b} of the state data received "
                        f"the SAME normal numbers (inferred xi differ by at most {d:.3g}; e.g. {float(xi[a].flat[0])!r} "
                        f"and {float(xi[b].flat[0])!r} in the first cell) - every cell and component must get its own draw",
                        key=f"independent:{backend}:{case['solver']}:{case['state']['kind']}:same-realization")
            if previous is not None and previous[1][a] and float(np.max(np.abs(xi[a] - previous[0][a]))) <= 1e-6:
                raise Violation(
                    f"[{backend}] {case['solver']}: component {a} received the same normal numbers in steps {i - 1} "
                    f"and {i}", key=f"independent:{backend}:{case['solver']}:{case['state']['kind']}:same-in-two-steps")
        previous = (xi, well)
        cur = new
    labs.append("pairs>0" if pairs else "pairs=0")
    labs.append(f"components:{min(len(xi), 9)}")
    return {"nt": pairs > 0, "labels": labs}


# --------------------------------------------------------------------------------------
# several equations from ONE noise specification object
# --------------------------------------------------------------------------------------
@st.composite
def reuse_cases(draw):
    case = draw(sde_cases(solvers=("euler",), families=("pde", "pde", "rd"), max_steps=4,
                          pde_variants=("vector", "two_scalars", "scalar_vector", "three", "two_scalars", "three"),
                          noise_as_options=("dict", "dict", "dict", "list", "array")))
    eqs = []
    for _ in range(draw(st.integers(2, 3))):
        eqs.append({
            "solver": draw(st.sampled_from(["euler", "euler", "milstein"])),
            "rng": {"seed": draw(st.integers(0, 2**32 - 1)), "as": draw(st.sampled_from(["int", "generator", "advanced"])),
                    "skip": draw(st.integers(1, 7))},
            # a ReactionDiffusionPDE specification is also handed to the PDE class itself
            "as_pde": draw(st.booleans()) if case["eq"]["family"] == "rd" else True,
        })
    case["eqs"] = eqs
    case["reverse_keys"] = draw(st.booleans())
    case["share_rhs"] = draw(st.booleans())
    return case


def check_noise_reuse(case):
    """every equation built from one and the same ``noise`` object (dict / list / array owned by the caller)
    adds the documented increment with the variances of that specification: n-step run against the reference
    recursion with the parallel generator, exactly as in ``euler_maruyama`` / ``milstein``"""
    grid = gg.build_grid(case["grid"])
    eqc = case["eq"]
    container = eqc["noise_as"]
    shared = pde_noise_argument(case, reverse=case["reverse_keys"])  # ONE object for all equations
    rhs_shared = None
    if case["share_rhs"] and all(e["as_pde"] for e in case["eqs"]):
        rhs_shared = rd_as_pde_rhs(eqc) if eqc["family"] == "rd" else dict(eqc["rhs"])
    elif case["share_rhs"] and eqc["family"] == "rd" and not any(e["as_pde"] for e in case["eqs"]):
        rhs_shared = dict(eqc["sources"])
    labs = []
    eq_rate = make_equation(case, gg.build_grid(case["grid"]), rng=0, noise_on=False)  # deterministic twin (noise=0)
    for k, e in enumerate(case["eqs"]):
        sub = dict(case, solver=e["solver"], rng=e["rng"])
        cls = "PDE" if e["as_pde"] else "ReactionDiffusionPDE"
        eq = make_equation(sub, grid, make_rng(sub), noise_obj=shared, rhs_obj=rhs_shared, as_pde=e["as_pde"])
        try:
            rec = judge_explicit(sub, grid, eq, eq_rate=eq_rate)
        except Violation as v:
            what = (v.key or "").rsplit(":", 1)[-1]
            raise Violation(
                f"equation #{k + 1} ({cls}, {e['solver']}) of {len(case['eqs'])} built from ONE shared noise "
                f"{container} object (now {shared!r}): {v.detail}",
                key=f"reuse:{container}:{'first' if k == 0 else 'later'}-equation:{what}") from None
        labs = rec["labels"]
        labs += ["class:" + cls, "eq-solver:" + e["solver"]]
    labs = sorted(set(labs) - {"solver:euler", "solver:milstein"})
    labs += ["noise_as:" + container, f"equations:{len(case['eqs'])}",
             "rhs-object-shared" if rhs_shared is not None else "rhs-object-fresh"]
    if container == "dict":
        labs.append("dict-partial" if len(shared) < len(field_names(eqc)) else "dict-full")
        labs.append("dict-reversed" if case["reverse_keys"] and len(shared) > 1 else "dict-in-order")
    return {"nt": True, "labels": labs}


# --------------------------------------------------------------------------------------
# --------------------------------------------------------------------------------------
# adaptive stepping of a stochastic equation (after missed seed C13-6): either refused with the
# documented RuntimeError or the noise is really there - never silently the deterministic equation
# --------------------------------------------------------------------------------------
def adaptive_sde_cases():
    return st.fixed_dictionaries({
        "n_cells": st.integers(2, 5),
        "variance": st.sampled_from([1.0, 0.1, 1e-3, 4.0]),
        "family": st.sampled_from(["diffusion", "pde", "harness", "harness_numba"]),
        "backend": st.sampled_from(["numba", "numba", "numpy", "auto"]),
        "solver": st.sampled_from(["euler", "milstein"]),
        "dt": st.sampled_from([None, 1e-3, 1e-2]),
        "adaptive_arg": st.sampled_from([True, True, None]),  # None: left to the default of solve() without dt
        "seed": st.integers(0, 2**31 - 1),
    })


def check_adaptive_sde(case):
    n, var, seed = case["n_cells"], case["variance"], case["seed"]
    grid = gg.build_grid({"cls": "unit", "shape": [n], "periodic": [True]})
    state = ScalarField(grid, gg.rng_array(seed, grid.shape))

    def build(noise):
        if case["family"] == "diffusion":
            return DiffusionPDE(0.1, bc=BC, noise=noise, rng=seed)
        if case["family"] == "pde":
            return PDE({"u": "-u"}, noise=noise, rng=seed)
        cls = NumbaLocalSDE if case["family"] == "harness_numba" else LocalSDE
        return cls(-1.0, 0.0, 0.0, 0.0, noise=noise, rng=seed)

    kw = {"solver": case["solver"], "backend": case["backend"], "tracker": None}
    if case["dt"] is not None:
        kw["dt"] = case["dt"]
    if case["adaptive_arg"] is not None:
        kw["adaptive"] = True
    elif case["dt"] is not None:
        return {"nt": False, "labels": ["fixed-step (dt given, adaptive left at its default)"]}
    labels = [f"family:{case['family']}", f"backend:{case['backend']}", f"solver:{case['solver']}",
              "dt:given" if case["dt"] is not None else "dt:none",
              "adaptive:explicit" if case["adaptive_arg"] else "adaptive:default"]
    eq = build(var)
    try:
        res = eq.solve(state.copy(), t_range=0.05, **kw)
    except RuntimeError as e:
        if "adaptive" in str(e).lower() and "stochastic" in str(e).lower():
            return {"nt": True, "labels": labels + ["refused (documented RuntimeError)"]}
        raise
    if not eq.diagnostics["solver"].get("dt_adaptive"):
        return {"nt": False, "labels": labels + ["ran with a fixed step"]}
    res0 = build(0).solve(state.copy(), t_range=0.05, **kw)
    if np.array_equal(res.data, res0.data):
        raise Violation(
            f"stochastic equation ({case['family']}, variance {var}) solved with adaptive {case['solver']} on backend "
            f"{case['backend']!r} (dt={case['dt']}): no error, and the result is bit-identical to the noise-free "
            f"equation {res0.data.tolist()!r} - the documented noise sqrt(var*dt/V)*xi was never added "
            f"(info['stochastic']={eq.diagnostics['solver'].get('stochastic')})", key="adaptive-sde:no-noise")
    return {"nt": True, "labels": labels + ["ran adaptively with noise"]}


def _sub(name, strategy, check, quick, thorough, shards, mode="nojit", rule="", tl=None):
    return SubCheck(name, strategy=strategy, check=check, mode=mode,
                    budget={"quick": quick, "thorough": thorough}, shards={"quick": shards[0], "thorough": shards[1]},
                    time_limit=tl or {"quick": 150, "thorough": 1500}, rule=rule)


NT_RULE = "non-trivial = (non-uniform cell volumes or field-dependent variance or alpha != 0) and >= 2 steps"

SUBCHECKS = [
    _sub("euler_maruyama", lambda: sde_cases(solvers=("euler",)), check_explicit, 900, 15000, (3, 4), rule=NT_RULE),
    _sub("milstein", lambda: sde_cases(solvers=("milstein",)), check_explicit, 900, 15000, (3, 4), rule=NT_RULE),
    _sub("semi_implicit", lambda: sde_cases(solvers=("implicit",), linear_only=True, theta_max=0.3, s_lo=0.03,
                                            max_steps=8), check_semi_implicit, 400, 6000, (3, 3), rule=NT_RULE),
    _sub("draw_accounting", lambda: sde_cases(solvers=("euler", "milstein"), max_steps=8), check_draw_accounting,
         400, 6000, (2, 2), rule=NT_RULE + " and at least one well-conditioned inferred normal number"),
    _sub("seed_reproducible", lambda: sde_cases(solvers=("euler", "milstein", "implicit"), linear_only=True,
                                                theta_max=0.3, max_steps=8), check_seed_reproducible,
         300, 5000, (2, 1), rule=NT_RULE),
    _sub("zero_noise_deterministic", lambda: zero_cases(backends=("numpy",)), check_zero_noise, 300, 5000, (1, 1),
         rule="non-trivial = stochastic code path with (partly) zero variance, >= 2 steps"),
    _sub("zero_noise_numba", lambda: zero_cases(backends=("numba",), solvers=("euler", "milstein")), check_zero_noise,
         100, 1500, (1, 1), rule="numba backend interpreted; non-trivial = uncoupled fields, some without noise"),
    _sub("zero_noise_numba_jit", lambda: zero_cases(backends=("numba",), solvers=("euler", "milstein"),
                                                    modes=("partial_pde",)),
         check_zero_noise_jit, 3, 40, (1, 2), mode="jit", tl={"quick": 100, "thorough": 1200},
         rule="numba backend compiled (tiny sample)"),
    _sub("tiny_variance", tiny_cases, check_tiny_variance, 30, 200, (1, 1),
         rule="every case has 0 < variance <= 1e-14 on cells of volume <= 1e-9 (increments of order 1e-3)"),
    _sub("numba_components_independent", independent_cases, check_components_independent, 150, 2000, (1, 2),
         rule="numba backend interpreted (the shape of the draw is fixed in python-level code); non-trivial = at "
              "least one pair of well-conditioned components / fields compared"),
    _sub("numba_components_independent_jit", lambda: independent_cases(families=("harness",), max_n=2),
         check_components_independent, 2, 30, (1, 2), mode="jit", tl={"quick": 100, "thorough": 1200},
         rule="numba backend compiled (tiny sample, harness equation without operators)"),
    _sub("adaptive_sde_refused_or_noisy", adaptive_sde_cases, check_adaptive_sde, 150, 2000, (1, 2),
         rule="stochastic equation + adaptive Euler/Milstein on every backend (numba interpreted): refused with the "
              "documented RuntimeError, or the result differs from the noise-free run; non-trivial = refused or ran "
              "adaptively"),
    _sub("adaptive_sde_refused_or_noisy_jit", adaptive_sde_cases, check_adaptive_sde, 4, 40, (1, 2), mode="jit",
         tl={"quick": 100, "thorough": 1200}, rule="the same with the numba backend compiled (tiny sample)"),
    _sub("noise_dict_reused", reuse_cases, check_noise_reuse, 120, 2000, (2, 2),
         rule="2-3 equations (PDE / ReactionDiffusionPDE) from one shared noise dict / list / array object, numpy "
              "backend; every case is non-trivial"),
]
