"""C10 - a PDE's interpreted rate, compiled rate and advertised expression agree.

Routes
  A  ``eq.evolution_rate(state, t).data``                       (interpreted, field API)
  B  ``eq.make_pde_rhs(state, backend='numba')(state.data, t)`` (closure over compiled operators;
     breadth with NUMBA_DISABLE_JIT=1, sample with the real JIT) and ``backend='numpy'``
  C  ``PDE(<the class's own expression text>, bc=...)`` through A and B
  D  independent evaluation of the generating terms: the right-hand side is kept as an AST
     (``vlib.gen_exprs``) whose local parts are evaluated by the NumPy evaluator and whose operator
     nodes are evaluated through the field API (``ScalarField.laplace(bc, args={'t': t})`` ...),
     with the boundary condition looked up by *equation variable and operator name* as documented.

Tolerance: ``TOLK*eps*E`` with the evaluator's running error scale ``E`` (sum of the magnitudes of
the partial terms; through an operator the scale is multiplied by a bound of the operator's
absolute row sum, ghost-cell contributions of inhomogeneous conditions included).  Route C is
compared with the documented equation evaluated with the factors *as printed* by the advertised
text (``%g``: 6 significant digits), so the allowance for the printed digits is exact, not a
loosened tolerance.
"""

from __future__ import annotations

import math

import numpy as np
from hypothesis import strategies as st

from vlib import env

env.setup()

import pde  # noqa: E402

from vlib import gen_exprs as G  # noqa: E402
from vlib import gen_grids as GG  # noqa: E402
from vlib.core import HarnessError, SubCheck, Violation, dumps  # noqa: E402

PROPERTY = "C10"
RULE = ("case = (equation class + parameters | expression right-hand sides, grid, boundary-condition "
        "assignment per BC argument/operator, time, state); distinct = whole case")
ASSUMPTIONS = [
    "noise = 0 (deterministic part only); real float64 states",
    "boundary conditions are given for both sides of every axis (also the inner side of hole-free "
    "polar/spherical grids); Robin conditions use a non-negative coefficient (2 + g*dx = 0 is singular)",
    "route C (generic PDE built from the class's own expression text) is compared where the text can "
    "state the same problem: Cahn-Hilliard with bc_c == bc_mu; Kuramoto-Sivashinsky and Swift-"
    "Hohenberg with bc == bc_lap and linear-homogeneous conditions (the advertised text nests the "
    "Laplacians differently from the class: equal only for linear operators)",
    "expression PDEs: operators occur linearly (coefficient(local) * operator(argument)) next to local "
    "terms of the C11 grammar restricted to functions sympy knows; bc_ops keys of one case never "
    "overlap (only VAR:OP, only VAR:*, or only *:OP), so the documented lookup is unambiguous; "
    "operators with vector arguments (divergence) never get expression-type conditions "
    "(documented NotImplementedError)",
    "field names never collide with axis names or `t` (documented ValueError)",
]

TOLK = 64.0
TOLK_JIT = 256.0
DT2 = 0.61  # offset of the second evaluation time

AXES = {"unit": "xyz", "cart": "xyz", "polar": "r", "sph": "r", "cyl": "rz"}


# =========================================================================================
# boundary conditions (scalar conditions in the simple dict format)
# =========================================================================================
T_EXPRS = ["sin(t)", "0.3*t + 1", "cos(2*t)", "t**2 - 0.5", "1.5"]


@st.composite
def side_specs(draw, ncells, homogeneous=False, allow_expr=True):
    kinds = ["value", "derivative", "mixed"] + (["curvature"] if ncells >= 2 else [])
    if allow_expr and not homogeneous:
        kinds += ["value_expression", "derivative_expression"]
    kind = draw(st.sampled_from(kinds))
    if kind.endswith("_expression"):
        return {"kind": kind, "expr": draw(st.sampled_from(T_EXPRS))}
    v = 0.0 if homogeneous else draw(st.sampled_from([1.0, -0.5, 0.0, 2.0, 0.3, -1.7, 1.5]))
    side = {"kind": kind, "v": float(v)}
    if kind == "mixed":
        side["g"] = float(draw(st.sampled_from([1.0, 0.5, 2.0, 0.0, 3.5])))
    return side


@st.composite
def bc_specs(draw, spec, homogeneous=False, allow_expr=True, allow_auto=True):
    """{"auto": name} or {"sides": {"x-": side, "x+": side, "y": "periodic"}}"""
    if allow_auto and draw(st.sampled_from([False, False, False, True])):
        return {"auto": draw(st.sampled_from(["auto_periodic_neumann", "auto_periodic_dirichlet"]))}
    sides = {}
    for ax, n, per in zip(AXES[spec["cls"]], spec["shape"], spec["periodic"]):
        if per:
            sides[ax] = "periodic"
        else:
            sides[ax + "-"] = draw(side_specs(int(n), homogeneous, allow_expr))
            sides[ax + "+"] = draw(side_specs(int(n), homogeneous, allow_expr))
    return {"sides": sides}


def bc_to_pde(bc):
    if "auto" in bc:
        return bc["auto"]
    out = {}
    for key, s in bc["sides"].items():
        if s == "periodic":
            out[key] = "periodic"
        elif s["kind"].endswith("_expression"):
            out[key] = {s["kind"]: s["expr"]}
        elif s["kind"] == "mixed":
            out[key] = {"type": "mixed", "value": s["g"], "const": s["v"]}
        else:
            out[key] = {s["kind"]: s["v"]}
    return out


def bc_is_default(bc):
    return bc.get("auto") == "auto_periodic_neumann"


def bc_homogeneous(bc):
    """linear-homogeneous: the operator with this condition is a linear map"""
    if "auto" in bc:
        return True
    return all(s == "periodic" or (not s["kind"].endswith("_expression") and s["v"] == 0.0)
               for s in bc["sides"].values())


def bc_has_expr(bc):
    return "sides" in bc and any(s != "periodic" and s["kind"].endswith("_expression")
                                 for s in bc["sides"].values())


def bc_magnitude(bc, spec, t):
    """bound of the inhomogeneous ghost-cell contribution (in units of the field)"""
    if "auto" in bc:
        return 0.0
    dx = {ax: (b[1] - b[0]) / int(n) for ax, b, n in zip(AXES[spec["cls"]], GG.axes_bounds(spec), spec["shape"])}
    mag = 0.0
    for key, s in bc["sides"].items():
        if s == "periodic":
            continue
        h = dx[key[0]]
        if s["kind"].endswith("_expression"):
            v = 2.0 + abs(t) * 2 + t * t
            mag = max(mag, 2 * v if s["kind"].startswith("value") else h * v)
        elif s["kind"] == "value":
            mag = max(mag, 2 * abs(s["v"]))
        elif s["kind"] == "derivative":
            mag = max(mag, h * abs(s["v"]))
        elif s["kind"] == "mixed":
            mag = max(mag, h * abs(s["v"]))
        else:
            mag = max(mag, h * h * abs(s["v"]))
    return mag


def bc_label(bc):
    if "auto" in bc:
        return bc["auto"]
    kinds = sorted({s if s == "periodic" else s["kind"] for s in bc["sides"].values()})
    return "+".join(kinds)


# =========================================================================================
# field-API evaluator (route D) on top of the independent local evaluator
# =========================================================================================
def numnode(v):
    v = float(v)
    return ["num", v] if v >= 0 else ["neg", ["num", -v]]


class FieldEvaluator(G.Evaluator):
    """Evaluates an AST whose leaves are field data arrays; ``["op", name, arg..., tag?]`` nodes go
    through the field API.  ``bc_of(opname, tag)`` returns the semantic BC spec."""

    def __init__(self, envd, grid, spec, t, bc_of):
        super().__init__(envd)
        self.grid = grid
        self.spec = spec
        self.t = float(t)
        self.bc_of = bc_of
        bounds = GG.axes_bounds(spec)
        self.dx = [(b[1] - b[0]) / int(n) for b, n in zip(bounds, spec["shape"])]
        self.inv2 = sum(1.0 / h**2 for h in self.dx)  # sum 1/dx^2
        self.full = tuple(int(n) for n in spec["shape"])
        self.ops_used = []

    def field(self, val):
        return pde.ScalarField(self.grid, np.broadcast_to(val.v, self.full).copy())

    def vfield(self, val):
        dim = self.grid.dim
        return pde.VectorField(self.grid, np.broadcast_to(val.v, (dim, *self.full)).copy())

    def ueff(self, val, bc):
        """error scale of the padded input of an operator"""
        return 3.0 * float(np.max(val.E)) + bc_magnitude(bc, self.spec, self.t)

    def ev(self, ast):
        if ast[0] != "op":
            return super().ev(ast)
        name = ast[1]
        tag = ast[-1] if isinstance(ast[-1], str) else None
        args = {"t": self.t}
        s1 = sum(1.0 / h for h in self.dx)
        if name == "dot":
            a, b = self.ev(ast[2]), self.ev(ast[3])
            v = np.einsum("i...,i...->...", a.v, b.v)
            E = np.abs(v) + np.sum(np.abs(a.v) * b.E + np.abs(b.v) * a.E, axis=0)
            return G.Val(np.array(v, dtype=float), E)
        if name == "integral":
            a = self.ev(ast[2])
            vol = self.grid.cell_volumes
            v = self.field(a).integral
            E = float(np.sum(np.broadcast_to(a.E, self.full) * vol)) + abs(v)
            self.ops_used.append(("integral", ""))
            return G.Val(np.array(float(v)), np.array(E))
        a = self.ev(ast[2])
        bc = self.bc_of(name, tag)
        pbc = bc_to_pde(bc)
        self.ops_used.append((name, bc_label(bc)))
        u = self.ueff(a, bc)
        if name == "laplace":
            v = self.field(a).laplace(pbc, args=args).data
            E = np.abs(v) + 8.0 * self.inv2 * u
        elif name == "gradient_squared":
            v = self.field(a).gradient_squared(pbc, args=args).data
            E = np.abs(v) + 2.0 * math.sqrt(float(np.max(np.abs(v)))) * math.sqrt(self.inv2) * u + self.inv2 * u * u * G.EPS
        elif name == "gradient":
            v = self.field(a).gradient(pbc, args=args).data
            E = np.abs(v) + 2.0 * max(1.0 / h for h in self.dx) * u
        elif name == "divergence":
            v = self.vfield(a).divergence(pbc, args=args).data
            E = np.abs(v) + 2.0 * s1 * u
        elif name == "vector_laplace":
            v = self.vfield(a).laplace(pbc, args=args).data
            E = np.abs(v) + 8.0 * self.inv2 * u
        else:
            raise HarnessError(f"unknown operator {name}")
        return G.Val(np.array(v, dtype=float), E)


def run_fields(ast, envd, grid, spec, t, bc_of, vector=False):
    ev = FieldEvaluator(envd, grid, spec, t, bc_of)
    full = tuple(int(n) for n in spec["shape"])
    try:
        with np.errstate(all="ignore"):
            r = ev.run(ast)
    except G.DomainBug as e:
        raise HarnessError(f"generator produced an ill-defined formula: {e}") from None
    shape = full if (np.ndim(r.v) <= len(full) and not vector) else (grid.dim, *full)
    E = r.E
    if np.any(ev.bad):
        # cells within round-off of a jump of Mod are not judged
        E = np.where(np.broadcast_to(ev.bad, np.broadcast(E, ev.bad).shape), np.inf, E)
    return np.broadcast_to(r.v, shape), np.broadcast_to(E, shape), ev


def compare(got, want, E, what, key, tolk, rel=None):
    got = np.asarray(got, dtype=float)
    if got.shape != want.shape:
        # a rate that is constant in space may come back as a number (it is added to the state by
        # broadcasting); anything else must have the shape of the state data
        try:
            got = np.broadcast_to(got, want.shape)
        except ValueError:
            raise Violation(f"{what}: shape {got.shape}, expected {want.shape}", key=key + ":shape") from None
    tol = tolk * G.EPS * E + 1e-300
    if rel is not None:
        tol = tol + rel * E
    dev = np.abs(got - want)
    if not np.all(dev <= tol):
        i = np.unravel_index(int(np.argmax(np.where(np.isnan(dev), np.inf, dev / tol))), want.shape)
        raise Violation(f"{what}: {got[i]!r} vs {want[i]!r} at cell {tuple(int(j) for j in i)} (|dev|={dev[i]:.3g}, "
                        f"tolerance {tol[i]:.3g}, scale {E[i]:.3g})", key=key)
    return float(np.max(dev / (G.EPS * E + 1e-300)))


def dev_label(worst):
    if worst == 0:
        return "dev:0"
    if worst < 1:
        return "dev:<1epsE"
    if worst < 8:
        return "dev:<8epsE"
    return "dev:>=8epsE"


# =========================================================================================
# predefined classes
# =========================================================================================
def V(name):
    return ["var", name]


def L(arg, tag):
    return ["op", "laplace", arg, tag]


def GS(arg, tag):
    return ["op", "gradient_squared", arg, tag]


def mul(a, b):
    return ["mul", a, b]


def sub(a, b):
    return ["sub", a, b]


def add(a, b):
    return ["add", a, b]


def P(p, name):
    return numnode(p[name])


C = V("c")
C3 = ["pow", C, 3]
C2 = ["pow", C, 2]

def F(f, i):
    return numnode(f[i])


# Documented equations (class docstrings; KPZ as implemented/advertised: lambda*|grad h|^2), written in
# terms of the factors that the advertised expression prints: "factors" computes them from the
# parameters exactly as the class does (e.g. speed**2, rate - kc2**2), "formula" builds the AST.
CLASSES = {
    "diffusion": {
        "ctor": lambda: pde.DiffusionPDE, "params": ["diffusivity"], "bcargs": ["bc"], "fields": ["c"],
        "factors": lambda p: [p["diffusivity"]],
        "formula": lambda f: {"c": mul(F(f, 0), L(C, "bc"))},
    },
    "allen_cahn": {
        "ctor": lambda: pde.AllenCahnPDE, "params": ["interface_width", "mobility"], "bcargs": ["bc"], "fields": ["c"],
        "factors": lambda p: [p["interface_width"], p["mobility"]],
        "formula": lambda f: {"c": mul(F(f, 1), add(sub(mul(F(f, 0), L(C, "bc")), C3), C))},
    },
    "cahn_hilliard": {
        "ctor": lambda: pde.CahnHilliardPDE, "params": ["interface_width"], "bcargs": ["bc_c", "bc_mu"], "fields": ["c"],
        "factors": lambda p: [p["interface_width"]],
        "formula": lambda f: {"c": L(sub(sub(C3, C), mul(F(f, 0), L(C, "bc_c"))), "bc_mu")},
    },
    "kpz": {
        "ctor": lambda: pde.KPZInterfacePDE, "params": ["nu", "lmbda"], "bcargs": ["bc"], "fields": ["c"],
        "factors": lambda p: [p["nu"], p["lmbda"]],
        "formula": lambda f: {"c": add(mul(F(f, 0), L(C, "bc")), mul(F(f, 1), GS(C, "bc")))},
    },
    "ks": {
        "ctor": lambda: pde.KuramotoSivashinskyPDE, "params": ["nu"], "bcargs": ["bc", "bc_lap"], "fields": ["c"],
        "factors": lambda p: [p["nu"]],
        "formula": lambda f: {"c": sub(sub(["neg", mul(F(f, 0), L(L(C, "bc"), "bc_lap"))], L(C, "bc")),
                                       mul(["num", 0.5], GS(C, "bc")))},
    },
    "swift_hohenberg": {
        "ctor": lambda: pde.SwiftHohenbergPDE, "params": ["rate", "kc2", "delta"], "bcargs": ["bc", "bc_lap"],
        "fields": ["c"],
        "factors": lambda p: [p["rate"] - p["kc2"] ** 2, p["delta"], 2 * p["kc2"]],
        "formula": lambda f: {"c": sub(add(sub(sub(mul(F(f, 0), C), mul(F(f, 2), L(C, "bc"))),
                                               L(L(C, "bc"), "bc_lap")),
                                           mul(F(f, 1), C2)), C3)},
    },
    "wave": {
        "ctor": lambda: pde.WavePDE, "params": ["speed"], "bcargs": ["bc"], "fields": ["u", "v"],
        "factors": lambda p: [p["speed"] ** 2],
        "formula": lambda f: {"u": V("v"), "v": mul(F(f, 0), L(V("u"), "bc"))},
    },
    "klein_gordon": {
        "ctor": lambda: pde.KleinGordonPDE, "params": ["speed", "mass"], "bcargs": ["bc"], "fields": ["u", "v"],
        "factors": lambda p: [p["speed"] ** 2, p["mass"] ** 2],
        "formula": lambda f: {"u": V("v"), "v": sub(mul(F(f, 0), L(V("u"), "bc")), mul(F(f, 1), V("u")))},
    },
}


def printed_factors(case):
    """the factors as the advertised text prints them: ``%g`` (6 significant digits); Allen-Cahn
    omits a mobility that is close to one (documented via np.isclose in the expression property)"""
    fs = CLASSES[case["cls"]]["factors"](case["params"])
    out = [float(f"{f:g}") for f in fs]
    if case["cls"] == "allen_cahn" and np.isclose(fs[1], 1):
        out[1] = 1.0
    return out


def param_strategy():
    return st.one_of(
        st.sampled_from([0.5, 2.0, -1.0, 1.0, 0.0, 0.1, -0.3, 1.5, 3.0]),
        st.integers(-4000, 4000).map(lambda i: i / 1000.0),           # <= 4 significant digits
        st.floats(-3.0, 3.0, allow_nan=False).map(float),             # arbitrary doubles
        st.sampled_from([1.0000001, 0.999999999, 1e-3, 1.23456789]),  # around the isclose/%g limits
    )


@st.composite
def class_cases(draw, for_c=False, jit=False):
    name = draw(st.sampled_from(sorted(CLASSES)))
    info = CLASSES[name]
    spec = draw(GG.grids(max_axes=2, min_cells=1, max_cells=4 if jit else 6, max_total=36, len_lo=0.05,
                         len_hi=50.0, offset_mag=20.0))
    params = {p: float(draw(param_strategy())) for p in info["params"]}
    bcs = {}
    if for_c and name in ("ks", "swift_hohenberg"):
        # comparable with the advertised text only for one linear-homogeneous condition
        bcs["bc"] = draw(bc_specs(spec, homogeneous=True))
        bcs["bc_lap"] = draw(st.sampled_from(["same", None]))
    elif for_c and name == "cahn_hilliard":
        bcs["bc_c"] = draw(bc_specs(spec, allow_expr=not jit))
        bcs["bc_mu"] = "same"
    else:
        for a in info["bcargs"]:
            if a == "bc_lap" and draw(st.sampled_from([False, False, True])):
                bcs[a] = None  # documented default: same as bc
            else:
                bcs[a] = draw(bc_specs(spec, allow_expr=not jit))
    return {"cls": name, "params": params, "grid": spec, "bcs": bcs,
            "t": float(draw(st.sampled_from([0.7, 0.0, 1.5, -0.4, 2.25]))),
            "state": {"seed": draw(st.integers(0, 2**31)),
                      "range": draw(st.sampled_from([[-1.0, 1.0], [0.0, 2.0], [-3.0, 3.0], [0.9, 1.1]]))}}


def resolve_bcs(case):
    """semantic BC spec per BC argument of the class (None / 'same' resolved)"""
    info = CLASSES[case["cls"]]
    first = info["bcargs"][0]
    out = {}
    for a in info["bcargs"]:
        b = case["bcs"].get(a)
        out[a] = case["bcs"][first] if (b is None or b == "same") else b
    return out


def build_class(case):
    info = CLASSES[case["cls"]]
    kwargs = dict(case["params"])
    for a in info["bcargs"]:
        b = case["bcs"].get(a)
        if b is None:
            continue  # leave the documented default (bc_lap=None -> same as bc)
        if b == "same":
            b = case["bcs"][info["bcargs"][0]]
        kwargs[a] = bc_to_pde(b)
    return info["ctor"]()(**kwargs)


def build_state(case, grid):
    info = CLASSES[case["cls"]] if "cls" in case else None
    names = info["fields"] if info else [f["name"] for f in case["fields"]]
    full = tuple(int(n) for n in case["grid"]["shape"])
    lo, hi = case["state"]["range"]
    ranks = {f["name"]: f.get("rank", 0) for f in case["fields"]} if not info else {}
    datas, fields = {}, []
    for i, n in enumerate(names):
        shp = (grid.dim, *full) if ranks.get(n) else full
        datas[n] = G.values_in_range(case["state"]["seed"] + 13 * i, shp, lo, hi, nice=0.1)
        cls = pde.VectorField if ranks.get(n) else pde.ScalarField
        fields.append(cls(grid, datas[n].copy(), label=n))
    state = fields[0] if len(fields) == 1 else pde.FieldCollection(fields)
    return state, datas


def class_reference(case, grid, datas, printed=False):
    """documented formula through the field API: rate array (stacked for collections) and scale;
    ``printed=True`` uses the factors rounded as in the advertised expression text"""
    info = CLASSES[case["cls"]]
    bcs = resolve_bcs(case)
    formula = info["formula"](printed_factors(case) if printed else info["factors"](case["params"]))
    vals, Es, used = [], [], []
    for var in info["fields"]:
        v, E, ev = run_fields(formula[var], datas, grid, case["grid"], case["t"], lambda op, tag: bcs[tag])
        vals.append(v)
        Es.append(E)
        used += ev.ops_used
    if len(vals) == 1:
        return vals[0], Es[0], used
    return np.array(vals), np.array(Es), used


def class_labels(case, used):
    bcs = resolve_bcs(case)
    labs = [f"class:{case['cls']}", GG.grid_label(case["grid"])]
    labs += sorted({f"bc:{bc_label(b)}" for b in bcs.values()})
    if len(bcs) == 2:
        a, b = list(bcs.values())
        labs.append("two-bcs:different" if a != b else "two-bcs:equal")
    labs.append("params:special-only" if all(v in (0.0, 1.0, -1.0) for v in case["params"].values())
                else "params:general")
    if any(bc_has_expr(b) for b in bcs.values()):
        labs.append("bc:time-dependent-expression")
    return labs


def class_nontrivial(case):
    bcs = resolve_bcs(case)
    general = any(v not in (0.0, 1.0) for v in case["params"].values())
    nondefault = any(not bc_is_default(b) for b in bcs.values())
    if len(bcs) == 2:
        a, b = list(bcs.values())
        return general and nondefault and a != b
    return general and nondefault


def check_class_numpy_vs_compiled(case, tolk=TOLK):
    grid = GG.build_grid(case["grid"])
    eq = build_class(case)
    state, datas = build_state(case, grid)
    want, E, used = class_reference(case, grid, datas)
    key = f"class:{case['cls']}"
    orig = state.data.copy()
    a = eq.evolution_rate(state, case["t"]).data
    w1 = compare(a, want, E, f"{case['cls']}: evolution_rate vs documented formula through the field API",
                 key + ":interpreted-vs-formula", tolk)
    rhs = eq.make_pde_rhs(state, backend="numba")
    b = rhs(state.data.copy(), case["t"])
    w2 = compare(b, a, E, f"{case['cls']}: make_pde_rhs('numba') vs evolution_rate", key + ":compiled-vs-interpreted", tolk)
    rhs_np = eq.make_pde_rhs(state, backend="numpy")
    b2 = rhs_np(state.data.copy(), case["t"])
    w3 = compare(b2, a, E, f"{case['cls']}: make_pde_rhs('numpy') vs evolution_rate", key + ":numpy-rhs-vs-interpreted", tolk)
    if not np.array_equal(state.data, orig):
        raise Violation(f"{case['cls']}: the state was modified by a rate evaluation", key=key + ":state-modified")
    if any(bc_has_expr(b) for b in resolve_bcs(case).values()):
        # the same closures at another time (time-dependent boundary conditions)
        case2 = dict(case, t=case["t"] + DT2)
        want2, E2, _ = class_reference(case2, grid, datas)
        compare(eq.evolution_rate(state, case2["t"]).data, want2, E2,
                f"{case['cls']}: second evolution_rate at t={case2['t']}", key + ":interpreted-second-time", tolk)
        compare(rhs(state.data.copy(), case2["t"]), want2, E2,
                f"{case['cls']}: compiled rate called again at t={case2['t']}", key + ":compiled-second-time", tolk)
    labs = class_labels(case, used) + [dev_label(max(w1, w2, w3))]
    return {"nt": class_nontrivial(case), "labels": labs}


def check_class_numpy_vs_compiled_jit(case):
    return check_class_numpy_vs_compiled(case, tolk=TOLK_JIT)


def check_class_vs_expression(case, tolk=TOLK):
    grid = GG.build_grid(case["grid"])
    eq = build_class(case)
    state, datas = build_state(case, grid)
    info = CLASSES[case["cls"]]
    bcs = resolve_bcs(case)
    if len({dumps(b) for b in bcs.values()}) != 1:
        raise HarnessError("route C needs one condition for all operators")
    bc = bc_to_pde(bcs[info["bcargs"][0]])
    want, E, used = class_reference(case, grid, datas)
    want_p, E_p, _ = class_reference(case, grid, datas, printed=True)
    E = np.maximum(E, E_p)
    a = eq.evolution_rate(state, case["t"]).data
    key = f"class-vs-text:{case['cls']}"
    w0 = compare(a, want, E, f"{case['cls']}: evolution_rate vs documented formula", key + ":class-vs-formula", tolk)
    if len(info["fields"]) == 1:
        text = {"c": eq.expression}
    else:
        text = dict(eq.expressions)
    generic = pde.PDE(text, bc=bc)
    # the text states the class's equation with the factors printed by %g: the generic PDE must equal
    # the documented formula evaluated with exactly these printed factors
    c = generic.evolution_rate(state.copy(), case["t"]).data
    w1 = compare(c, want_p, E, f"{case['cls']}: PDE({text!r}).evolution_rate vs the class's equation with the "
                 f"printed factors {printed_factors(case)}", key + ":interpreted", tolk)
    cb = generic.make_pde_rhs(state.copy(), backend="numba")(state.data.copy(), case["t"])
    w2 = compare(cb, want_p, E, f"{case['cls']}: PDE({text!r}) compiled vs the class's equation with the printed "
                 f"factors {printed_factors(case)}", key + ":compiled", tolk)
    fs = info["factors"](case["params"])
    exact = printed_factors(case) == fs
    labs = class_labels(case, used) + ["text-prints-exactly" if exact else "text-rounded-to-6-digits",
                                       dev_label(max(w0, w1, w2))]
    if not exact:
        rel = float(np.max(np.abs(want_p - want) / (G.EPS * E + 1e-300)))
        labs.append("rounding-visible" if rel > 8 * tolk else "rounding-below-tolerance")
    for f in fs:
        if f in (0.0, 1.0, -1.0):
            labs.append(f"expr_prod-special:{f:g}")
    nt = any(v not in (0.0, 1.0) for v in case["params"].values()) and not bc_is_default(bcs[info["bcargs"][0]])
    return {"nt": nt, "labels": labs}


def check_class_vs_expression_jit(case):
    return check_class_vs_expression(case, tolk=TOLK_JIT)


# =========================================================================================
# expression PDEs
# =========================================================================================
FIELD_NAMES = ["c", "u", "v", "phi", "a", "b", "s", "rho", "c1", "n_A", "h"]
OPS_SCALAR = ["laplace", "gradient_squared", "dotgrad", "divgrad", "integral"]


#: local terms with the modulo function (after missed seed C10-5: the compiled printer wrote Mod as fmod,
#: which differs from the interpreted `%` where dividend and divisor have opposite signs)
PROFILE_PDE_MOD = dict(G.PROFILE_PDE, mod=True, mod_weight=10)


@st.composite
def small_local(draw, leaves, ranges, depth=2, budget=5):
    profile = PROFILE_PDE_MOD if draw(st.sampled_from([False, False, True])) else G.PROFILE_PDE
    b = G.Builder(draw, leaves, ranges, profile, budget)
    return b.node(draw(st.sampled_from([d for d in (2, 1) if d <= depth])), root=True)


@st.composite
def rhs_asts(draw, fields, leaves, ranges, allow_div=True):
    """sum of (coefficient * operator term) and local terms"""
    fvars = [["var", f["name"]] for f in fields]
    terms = []
    nterms = draw(st.sampled_from([2, 3, 1]))
    ops = []
    for _ in range(nterms):
        kind = draw(st.sampled_from(["op", "op", "local"]))
        if kind == "local":
            terms.append(draw(small_local(leaves, ranges, depth=3, budget=8)))
            continue
        op = draw(st.sampled_from([o for o in OPS_SCALAR if allow_div or o != "divgrad"]))
        if op in ("laplace", "integral"):
            # operator arguments: a field or a local polynomial of fields that cannot cancel to a
            # constant (`laplace(c - c)` -> laplace(0) is a loud AttributeError, not a rate)
            f = draw(st.sampled_from(fvars))
            g = draw(st.sampled_from(fvars))
            tmpl = draw(st.sampled_from(["f", "f", "f**3", "f*g", "f**2", "f+g**2", "f-g**3"]))
            arg = {"f": f, "f**3": ["pow", f, 3], "f*g": ["mul", f, g], "f**2": ["pow", f, 2],
                   "f+g**2": ["add", f, ["pow", g, 2]],
                   "f-g**3": ["sub", f, ["mul", ["num", 0.5], ["pow", g, 3]]]}[tmpl]
            node = ["op", op, arg]
        elif op == "gradient_squared":
            node = ["op", "gradient_squared", draw(st.sampled_from(fvars))]
        elif op == "dotgrad":
            node = ["op", "dot", ["op", "gradient", draw(st.sampled_from(fvars))],
                    ["op", "gradient", draw(st.sampled_from(fvars))]]
        else:
            node = ["op", "divergence", ["op", "gradient", draw(st.sampled_from(fvars))]]
        ops.append(op)
        ck = draw(st.sampled_from(["num", "none", "local", "neg"]))
        if ck == "num":
            node = ["mul", ["num", float(draw(st.sampled_from([0.5, 2.0, 1.5, 0.1, 3.0, 0.25])))], node]
        elif ck == "local":
            node = ["mul", draw(small_local(leaves, ranges, depth=2, budget=4)), node]
        elif ck == "neg":
            node = ["neg", node]
        terms.append(node)
    ast = terms[0]
    for tm in terms[1:]:
        ast = [draw(st.sampled_from(["add", "sub"])), ast, tm]
    return ast


@st.composite
def vector_rhs(draw, w, scalars, leaves, ranges):
    """right-hand side of a vector field: sum of vector-valued terms"""
    W = ["var", w]
    terms = []
    for _ in range(draw(st.sampled_from([2, 1, 3]))):
        kind = draw(st.sampled_from(["vector_laplace", "gradient", "w*local", "w"]))
        if kind == "vector_laplace":
            tm = ["op", "vector_laplace", W]
        elif kind == "gradient":
            tm = ["op", "gradient", draw(st.sampled_from(scalars))]
        elif kind == "w*local":
            tm = ["mul", W, draw(small_local(leaves, ranges, depth=2, budget=4))]
        else:
            tm = W
        ck = draw(st.sampled_from(["num", "none", "neg"]))
        if ck == "num":
            tm = ["mul", ["num", float(draw(st.sampled_from([0.5, 2.0, 1.5, 0.25])))], tm]
        elif ck == "neg":
            tm = ["neg", tm]
        terms.append(tm)
    ast = terms[0]
    for tm in terms[1:]:
        ast = [draw(st.sampled_from(["add", "sub"])), ast, tm]
    return ast


@st.composite
def scalar_vector_term(draw, w, scalars):
    """scalar-valued term involving the vector field"""
    W = ["var", w]
    kind = draw(st.sampled_from(["divergence", "dot(w,grad)", "dot(w,w)"]))
    if kind == "divergence":
        tm = ["op", "divergence", W]
    elif kind == "dot(w,grad)":
        tm = ["op", "dot", W, ["op", "gradient", draw(st.sampled_from(scalars))]]
    else:
        tm = ["op", "dot", W, W]
    return ["mul", ["num", float(draw(st.sampled_from([0.5, 2.0, 1.5])))], tm]


def ops_in(ast, acc=None):
    acc = set() if acc is None else acc
    if ast[0] == "op":
        acc.add(ast[1])
    for c in ast[1:]:
        if isinstance(c, list):
            ops_in(c, acc)
    return acc


@st.composite
def expr_pde_cases(draw, jit=False):
    spec = draw(GG.grids(max_axes=2, min_cells=1, max_cells=4 if jit else 5, max_total=25, len_lo=0.05,
                         len_hi=50.0, offset_mag=20.0))
    axes = AXES[spec["cls"]][:len(spec["shape"])]
    nf = draw(st.sampled_from([1, 2, 1, 3] if not jit else [1, 2]))
    names = [n for n in draw(st.permutations(FIELD_NAMES)) if n not in axes][:nf]
    lo, hi = draw(st.sampled_from([[-1.0, 1.0], [0.0, 2.0], [-2.0, 2.0], [0.5, 1.5]]))
    fields = [{"name": n, "lo": lo, "hi": hi, "n": 0} for n in names]
    t = float(draw(st.sampled_from([0.7, 0.0, 1.5, -0.4, 2.25])))
    # the rate is also evaluated at t + DT2 with the same objects: guards cover both times
    varlist = list(fields) + [{"name": "t", "lo": t, "hi": t + DT2, "n": 0}]
    if draw(st.booleans()):
        varlist += [{"name": ax, "lo": b[0], "hi": b[1], "n": 0} for ax, b in zip(axes, GG.axes_bounds(spec))]
    consts = []
    # 0-3 constants in *drawn* (not alphabetical) order with distinct values; added after the
    # independently seeded change C10-2 (constants bound by sorted names but insertion-ordered
    # values) was missed when the order was always ["k0", "kf"]
    cnames = draw(st.one_of(st.sampled_from([[], ["k0"], ["kf"], ["k0", "kf"]]),
                            st.lists(st.sampled_from(["k0", "kf", "a1", "Zc", "m2"]), unique=True, max_size=3)))
    svalues = draw(st.permutations([2.0, 0.5, -1.5, 0.25, 3.0]))
    for j, cname in enumerate(cnames):
        if cname in ("kf", "Zc"):
            consts.append({"name": cname, "lo": 0.5, "hi": 2.0, "seed": draw(st.integers(0, 2**31))})
        else:
            consts.append({"name": cname, "value": float(svalues[j])})
    leaves, ranges = G.leaves_and_ranges(varlist, consts)
    rhs = {}
    vector_mode = spec["cls"] in ("unit", "cart") and draw(st.sampled_from([False, False, False, True]))
    if vector_mode:
        # one vector field next to the scalar ones (Cartesian grids: no symmetry constraints)
        wname = names[-1] if len(names) > 1 else [n for n in FIELD_NAMES if n not in axes and n not in names][0]
        scal = [f for f in fields if f["name"] != wname] or fields[:1]
        if len(names) == 1:
            names = names + [wname]
        scal = [f for f in fields if f["name"] != wname]
        fields = scal + [{"name": wname, "lo": lo, "hi": hi, "n": 0, "rank": 1}]
        svars = [["var", f["name"]] for f in scal]
        leaves = [l for l in leaves if l != ["var", wname]]
        for f in scal:
            ast = draw(rhs_asts(scal, leaves, ranges))
            if draw(st.booleans()):
                ast = [draw(st.sampled_from(["add", "sub"])), ast, draw(scalar_vector_term(wname, svars))]
            rhs[f["name"]] = ast
        rhs[wname] = draw(vector_rhs(wname, svars, leaves, ranges))
    else:
        for n in names:
            rhs[n] = draw(rhs_asts(fields, leaves, ranges))
    used_ops = set()
    for a in rhs.values():
        used_ops |= ops_in(a)
    vector_ops = bool(used_ops & {"divergence", "vector_laplace"}) or vector_mode
    allow_expr = not vector_ops and not jit
    bc = draw(bc_specs(spec, allow_expr=allow_expr))
    style = draw(st.sampled_from(["explicit", "op-wild", "var-wild", "none"]))
    bc_ops = {}
    opnames = sorted(used_ops - {"dot", "integral"})
    names = list(rhs)
    if style == "explicit":
        for n in names:
            for o in sorted(ops_in(rhs[n]) - {"dot", "integral"}):
                if draw(st.sampled_from([True, True, False])):
                    bc_ops[f"{n}:{o}"] = draw(bc_specs(spec, allow_expr=allow_expr))
    elif style == "op-wild":
        for o in opnames:
            if draw(st.sampled_from([True, True, False])):
                bc_ops[f"*:{o}"] = draw(bc_specs(spec, allow_expr=allow_expr))
    elif style == "var-wild":
        for n in names:
            if draw(st.sampled_from([True, True, False])):
                bc_ops[f"{n}:*"] = draw(bc_specs(spec, allow_expr=allow_expr))
    # NB: the order of the equations matters (it is the order of the fields in the state) and JSON
    # objects are written with sorted keys -> list of [variable, AST] pairs
    return {"grid": spec, "fields": fields, "rhs": [[n, rhs[n]] for n in rhs], "consts": consts, "bc": bc,
            "bc_ops": bc_ops,
            "t": t, "shape_seed": draw(st.integers(0, 2**31)), "unicode": draw(st.booleans()),
            "state": {"seed": draw(st.integers(0, 2**31)), "range": [lo, hi]}}


def lookup_bc(case, var, op):
    """documented lookup: a key of bc_ops matching VARIABLE:OPERATOR (with wildcards), else bc"""
    for key, b in case["bc_ops"].items():
        kv, ko = key.split(":")
        if kv in (var, "*") and ko in (op, "*"):
            return b
    return case["bc"]


def build_expr_pde(case, grid):
    texts, alts = {}, set()
    for i, (n, a) in enumerate(case["rhs"]):
        t, al = G.render_info(a, case["shape_seed"] + i, unicode_ops=case["unicode"])
        texts[n] = t
        alts.update(al)
    full = tuple(int(n) for n in case["grid"]["shape"])
    consts, cvals = {}, {}
    for c in case["consts"]:
        if "value" in c:
            consts[c["name"]] = cvals[c["name"]] = float(c["value"])
        else:
            cvals[c["name"]] = G.values_in_range(c["seed"], full, c["lo"], c["hi"])
            consts[c["name"]] = pde.ScalarField(grid, cvals[c["name"]].copy())
    eq = pde.PDE(texts, bc=bc_to_pde(case["bc"]),
                 bc_ops={k: bc_to_pde(b) for k, b in case["bc_ops"].items()} or None,
                 consts=consts or None)
    return eq, texts, cvals, sorted(alts)


def expr_reference(case, grid, datas, cvals):
    envd = dict(datas)
    envd.update(cvals)
    envd["t"] = case["t"]
    coords = {}
    bounds = GG.axes_bounds(case["grid"])
    shape = [int(n) for n in case["grid"]["shape"]]
    for i, ax in enumerate(AXES[case["grid"]["cls"]][:len(shape)]):
        lo, hi = bounds[i]
        c = lo + (np.arange(shape[i]) + 0.5) * ((hi - lo) / shape[i])
        shp = [1] * len(shape)
        shp[i] = shape[i]
        coords[ax] = c.reshape(shp)
    envd.update(coords)
    vals, Es, used = [], [], []
    ranks = {f["name"]: f.get("rank", 0) for f in case["fields"]}
    full = tuple(shape)
    for var, ast in case["rhs"]:
        v, E, ev = run_fields(ast, envd, grid, case["grid"], case["t"],
                              lambda op, tag, var=var: lookup_bc(case, var, op), vector=bool(ranks[var]))
        vals.append(v)
        Es.append(E)
        used += [(var, *u) for u in ev.ops_used]
    if len(vals) == 1:
        return vals[0], Es[0], used
    # data layout of a collection: one row per scalar field, dim rows per vector field
    return (np.concatenate([v.reshape(-1, *full) for v in vals]),
            np.concatenate([e.reshape(-1, *full) for e in Es]), used)


def expr_labels(case, used, alts):
    labs = [GG.grid_label(case["grid"]), f"nfields:{len(case['fields'])}"]
    if any(f.get("rank") for f in case["fields"]):
        labs.append("state:scalar+vector")
    labs += sorted({f"op:{u[1]}" for u in used})
    labs += sorted({f"bc:{u[2]}" for u in used if u[2]})
    keys = case["bc_ops"]
    labs.append("bc_ops:" + ("none" if not keys else "explicit" if all("*" not in k for k in keys)
                             else "op-wildcard" if all(k.startswith("*:") for k in keys) else "var-wildcard"))
    per_op = {}
    for u in used:
        per_op.setdefault(u[0], set()).add(u[2])
    if any(len({b for b in s if b}) > 1 for s in per_op.values()):
        labs.append("different-bcs-within-one-equation")
    names = set()
    for _, a in case["rhs"]:
        names |= G.names_in(a)
    if "t" in names:
        labs.append("uses:t")
    if names & set(AXES[case["grid"]["cls"]]):
        labs.append("uses:coordinates")
    for _, a in case["rhs"]:
        if G.names_in(a, ("uconst",)):
            labs.append("uses:consts")
            break
    if any("call2:Mod" in G.kinds_of(a) for _, a in case["rhs"]):
        labs.append("uses:Mod")
    labs += ["shape:" + a for a in alts]
    if any(bc_has_expr(b) for b in [case["bc"], *case["bc_ops"].values()]):
        labs.append("bc:time-dependent-expression")
    return labs


def expr_nontrivial(case, used):
    has_op = any(u[1] != "integral" for u in used)
    nondefault = not bc_is_default(case["bc"]) or any(not bc_is_default(b) for b in case["bc_ops"].values())
    return has_op and nondefault


def _expr_common(case):
    grid = GG.build_grid(case["grid"])
    state, datas = build_state(case, grid)
    eq, texts, cvals, alts = build_expr_pde(case, grid)
    want, E, used = expr_reference(case, grid, datas, cvals)
    return grid, state, datas, eq, texts, want, E, used, alts, cvals


def check_expr_vs_field_api(case, tolk=TOLK):
    grid, state, datas, eq, texts, want, E, used, alts, cvals = _expr_common(case)
    orig = state.data.copy()
    a = eq.evolution_rate(state, case["t"]).data
    w = compare(a, want, E, f"PDE({texts!r}).evolution_rate vs field API", "expr:interpreted-vs-field-api", tolk)
    if not np.array_equal(state.data, orig):
        raise Violation("the state was modified by evolution_rate", key="expr:state-modified")
    return {"nt": expr_nontrivial(case, used), "labels": expr_labels(case, used, alts) + [dev_label(w)]}


def check_expr_numpy_vs_compiled(case, tolk=TOLK):
    grid, state, datas, eq, texts, want, E, used, alts, cvals = _expr_common(case)
    a = eq.evolution_rate(state, case["t"]).data
    rhs = eq.make_pde_rhs(state, backend="numba")
    b = rhs(state.data.copy(), case["t"])
    w1 = compare(b, a, E, f"PDE({texts!r}): make_pde_rhs('numba') vs evolution_rate", "expr:compiled-vs-interpreted", tolk)
    names = set()
    for _, ast in case["rhs"]:
        names |= G.names_in(ast)
    if "t" in names or any(bc_has_expr(x) for x in [case["bc"], *case["bc_ops"].values()]):
        # the same objects at another time (explicit time dependence, time-dependent conditions)
        case2 = dict(case, t=case["t"] + DT2)
        want2, E2, _ = expr_reference(case2, grid, datas, cvals)
        compare(rhs(state.data.copy(), case2["t"]), want2, E2,
                f"PDE({texts!r}): compiled rate called again at t={case2['t']}", "expr:compiled-second-time", tolk)
        compare(eq.evolution_rate(state, case2["t"]).data, want2, E2,
                f"PDE({texts!r}): second evolution_rate at t={case2['t']}", "expr:interpreted-second-time", tolk)
    b2 = eq.make_pde_rhs(state, backend="numpy")(state.data.copy(), case["t"])
    w2 = compare(b2, a, E, f"PDE({texts!r}): make_pde_rhs('numpy') vs evolution_rate", "expr:numpy-rhs-vs-interpreted", tolk)
    w3 = compare(b, want, E, f"PDE({texts!r}): make_pde_rhs('numba') vs field API", "expr:compiled-vs-field-api", tolk)
    return {"nt": expr_nontrivial(case, used),
            "labels": expr_labels(case, used, alts) + [dev_label(max(w1, w2, w3))]}


def check_expr_numpy_vs_compiled_jit(case):
    return check_expr_numpy_vs_compiled(case, tolk=TOLK_JIT)


# =========================================================================================
NT_CLASS = ("non-trivial = some parameter not in {0, 1}, a non-default boundary condition and, for classes "
            "with two BC arguments, different conditions for the two")
NT_EXPR = "non-trivial = at least one differential operator and a non-default boundary condition"

SUBCHECKS = [
    SubCheck("class_numpy_vs_compiled", strategy=class_cases, check=check_class_numpy_vs_compiled, mode="nojit",
             budget={"quick": 1000, "thorough": 20000}, shards={"quick": 4, "thorough": 8}, rule=NT_CLASS),
    SubCheck("class_vs_expression_pde", strategy=lambda: class_cases(for_c=True), check=check_class_vs_expression,
             mode="nojit", budget={"quick": 450, "thorough": 8000}, shards={"quick": 3, "thorough": 8},
             rule="non-trivial = some parameter not in {0, 1} and a non-default boundary condition"),
    SubCheck("expr_pde_numpy_vs_compiled", strategy=expr_pde_cases, check=check_expr_numpy_vs_compiled, mode="nojit",
             budget={"quick": 300, "thorough": 6000}, shards={"quick": 3, "thorough": 8}, rule=NT_EXPR),
    SubCheck("expr_pde_vs_field_api", strategy=expr_pde_cases, check=check_expr_vs_field_api, mode="nojit",
             budget={"quick": 400, "thorough": 8000}, shards={"quick": 3, "thorough": 8}, rule=NT_EXPR),
    SubCheck("class_numpy_vs_compiled_jit", strategy=lambda: class_cases(jit=True),
             check=check_class_numpy_vs_compiled_jit, mode="jit",
             budget={"quick": 12, "thorough": 300}, shards={"quick": 2, "thorough": 8}, rule=NT_CLASS),
    SubCheck("expr_pde_numpy_vs_compiled_jit", strategy=lambda: expr_pde_cases(jit=True),
             check=check_expr_numpy_vs_compiled_jit, mode="jit",
             budget={"quick": 6, "thorough": 100}, shards={"quick": 2, "thorough": 4}, rule=NT_EXPR),
]

for _s in SUBCHECKS:
    _s.time_limit = {"quick": 110, "thorough": 1500}
