"""C01 - differential operators are second-order consistent discretisations.

Two deciding steps (DESIGN.md section 4):

(a) *stencil equivalence*: the raw operator ``grid.make_operator_no_bc(name, **options)``
    applied to a ghost-padded array equals the documented stencil of the coordinate system
    (``vlib.ref_stencils``, written from the coordinate-form formulas) on dense random,
    one-hot, ghost-only and integer inputs, real and complex, component by component, with a
    condition-aware tolerance ``eps * sum|w_j||u_j| * (64 + 16 kappa)``;
(b) *consistency*: on three nested resolutions the operator applied to exact samples of a
    smooth symmetric field converges to the continuum operator evaluated in the Cartesian
    embedding (``vlib.ref_continuum``, shares no formula with the code) with the order the
    statement promises, in region (i) (fixed distance from r = 0) and region (ii) (all cells).
"""

from __future__ import annotations

import math

import numpy as np
from hypothesis import strategies as st

from vlib import env

env.setup()

import pde  # noqa: E402
from pde.backends import get_backend  # noqa: E402

from vlib import ref_continuum as RC  # noqa: E402
from vlib import ref_stencils as RS  # noqa: E402
from vlib.core import HarnessError, Rejected, SubCheck, Violation, case_hash  # noqa: E402
from vlib.gen_grids import (  # noqa: E402
    build_grid,
    grid_label,
    grids,
    length_strategy,
    log_float,
    rng_array,
)

PROPERTY = "C01"
RULE = ("(a) non-trivial = >= 3 cells on every differentiated axis and an input with non-zero "
        "ghost and valid cells; distinct = whole case (grid incl. geometry, operator, options, "
        "dtype, backend, data seed).  (b) non-trivial = discretisation error above the round-off "
        "floor on the two finest levels; distinct = whole case (grid, operator, options, field "
        "seed)")
ASSUMPTIONS = [
    "raw operators are applied to ghost-padded arrays (boundary conditions are property C02/C03)",
    "inputs of the spherical operators respect the symmetry their `safe` mode asserts "
    "(theta-components zero, T_thth == T_phph, T_phth == -T_thph, ...): every field that can be "
    "expressed on a SphericalSymGrid does",
    "default 5-point (2n+1-point) Cartesian Laplacian; the spectral variant and the 9-point "
    "corner_weight variant are configuration options outside the statement",
    "scipy backend: Cartesian grids; its Laplacian only for isotropic spacing (documented "
    "RuntimeError otherwise); spacings that differ by less than 1e-5 relative (inside scipy's "
    "np.allclose window) but more than round-off are not generated",
    "(b): hole grids have r_in >= 0.3 * width so that the coarsest level resolves the inner "
    "radius; fields are real; 3-d Cartesian base resolution 6..10 instead of 8..16 (cost)",
    "(b): one-sided (forward/backward) variants are judged in region (i) only - the statement "
    "promises no uniform rate for them",
]

NB = "numba"


# =========================================================================================
# (a) stencil equivalence
# =========================================================================================
def _optkey(opts):
    return ",".join(f"{k}={opts[k]}" for k in sorted(opts)) or "-"


def _famlabel(g: RS.Geometry):
    return f"cart{g.num_axes}d" if g.family == "cart" else g.family


def _choose(pick, spec, names):
    """operator and options as a pure function (hash) of the drawn data ``pick``

    (Hypothesis re-uses parts of earlier examples, so ``sampled_from`` - and any single drawn
    integer - clumps in small samples: some operators then occur 0-1 times among the ~100
    compiled cases of a quick run.  Whole cases are rarely repeated, so a hash of all drawn data
    spreads evenly.)
    """
    rng = np.random.default_rng(int(case_hash(pick), 16))
    op = names[int(rng.integers(len(names)))]
    table = RS.op_info(spec, op)[2]
    opts = {k: v[int(rng.integers(len(v)))] for k, v in sorted(table.items())}
    return op, opts


@st.composite
def stencil_cases(draw, classes, kind):
    """kind: 'named' (registered by name), 'patterns' (d_d<ax>...), 'scipy'"""
    if kind == "scipy":
        spec = draw(_scipy_grid())
    else:
        # three of four grids have >= 3 cells per axis (the non-trivial class), the rest
        # also reaches the degenerate 1- and 2-cell axes
        min_cells = 3 if draw(st.integers(0, 3)) > 0 else 1
        spec = draw(grids(classes=classes, min_cells=min_cells, max_cells=8, max_total=512))
    g = RS.Geometry(spec)
    names = RS.known_operators(spec)
    if kind == "patterns":
        names = [n for n in names if RS.parse_pattern(g, n) is not None]
    else:
        names = [n for n in names if RS.parse_pattern(g, n) is None]
        if kind == "scipy":
            names = [n for n in names if n != "gradient_squared"]
    rest = {
        "backend": "scipy" if kind == "scipy" else NB,
        "dtype": draw(st.sampled_from(["f8", "c16"])),
        "seed": draw(st.integers(0, 2**32 - 1)),
        "kexp": draw(st.integers(-3, 3)),
    }
    op, opts = _choose([spec, rest, draw(st.integers(0, 2**32 - 1))], spec, names)
    return {"grid": spec, "op": op, "opts": opts, **rest}


@st.composite
def _scipy_grid(draw):
    """Cartesian grid that is exactly isotropic (3 of 4) or clearly anisotropic"""
    dim = draw(st.integers(1, 3))
    min_cells = 3 if draw(st.integers(0, 3)) > 0 else 1
    shape = [draw(st.integers(min_cells, 8)) for _ in range(dim)]
    per = [draw(st.booleans()) for _ in range(dim)]
    if draw(st.integers(0, 5)) == 0:
        return {"cls": "unit", "shape": shape, "periodic": per}
    dx = draw(length_strategy(1e-3, 1e2))
    iso = draw(st.integers(0, 3)) > 0
    bounds = []
    for n in shape:
        f = 1.0 if iso else draw(st.sampled_from([1.0, 0.5, 2.0, 1.25, 3.0]))
        lo = draw(st.sampled_from([0.0, -1.0, 1.0, -0.5, 10.0]))
        bounds.append([lo, lo + n * dx * f])
    return {"cls": "cart", "shape": shape, "bounds": bounds, "periodic": per}


def _inputs(spec, op, opts, rank_in, dim, full_shape, dtype, seed, kexp):
    """the input arrays of one case: (tag, array)"""
    shape = (dim,) * rank_in + tuple(full_shape)
    scale = 10.0**kexp
    nax = len(full_shape)
    valid = (Ellipsis,) + (slice(1, -1),) * nax
    dense = rng_array(seed, shape, dtype, "normal", scale)
    res = [("dense", dense)]
    # one-hot: any component, any cell including ghost and corner cells
    rng = np.random.default_rng(seed ^ 0x5A5A5A5A)
    for tag in ("onehot", "onehot2"):
        a = np.zeros(shape, dtype=dense.dtype)
        pos = tuple(int(rng.integers(0, n)) for n in shape)
        a[pos] = scale * (1.0 if dtype == "f8" else complex(0.6, -0.8))
        res.append((tag, a))
    ghost = rng_array(seed + 1, shape, dtype, "uniform", scale)
    ghost[valid] = 0
    res.append(("ghost-only", ghost))
    res.append(("int", rng_array(seed + 2, shape, dtype, "int")))
    for _tag, a in res:
        RS.enforce_preconditions(spec, op, opts, a)
    return res


def _first_bad(bad):
    return tuple(int(i) for i in np.argwhere(bad)[0])


def check_stencil(case):
    spec, op, opts, backend = case["grid"], case["op"], dict(case["opts"]), case["backend"]
    g = RS.Geometry(spec)
    grid = build_grid(spec)
    be = get_backend(backend)
    registered = set(be.get_registered_operators(grid))
    if backend == NB and registered != set(RS.known_operators(spec)):
        raise HarnessError(f"operators registered for {type(grid).__name__} differ from the "
                           f"reference table: {sorted(registered ^ set(RS.known_operators(spec)))}")
    if op not in registered:
        raise HarnessError(f"{op} not registered for backend {backend}")
    rank_in, rank_out, _ = RS.op_info(spec, op)
    kw = {k: v for k, v in opts.items() if v != "absent"}
    fam = _famlabel(g)
    key = f"stencil:{backend}:{fam}:{op}:{_optkey(opts)}"

    # geometry of the grid object agrees with the documented formula (component of the oracle)
    dx = np.asarray(grid.discretization, dtype=float)
    if dx.shape != (g.num_axes,) or not np.allclose(dx, g.dx, rtol=16 * RS.EPS * (1 + g.kappa), atol=0):
        raise Violation(f"grid.discretization={dx!r} but (max-min)/N={g.dx!r} for {spec!r}",
                        key=f"stencil:geometry:{g.family}")
    if grid.dim != g.dim:
        raise Violation(f"grid.dim={grid.dim} expected {g.dim}", key=f"stencil:geometry:{g.family}")

    extra_rel = 0.0
    if backend == "scipy" and op in ("laplace", "vector_laplace"):
        mean = float(np.mean(g.dx))
        dev = max(abs(d / mean - 1) for d in g.dx)
        iso = dev < 1e-8
        try:
            f = grid.make_operator_no_bc(op, backend=backend, **kw)
        except RuntimeError as e:
            if iso:
                raise Violation(f"scipy {op} rejects an isotropic grid: {e}", key=key + ":rejects-isotropic")
            raise Rejected(str(e))
        if not iso:
            raise Violation(f"scipy {op} accepted an anisotropic grid dx={g.dx}", key=key + ":accepts-anisotropic")
        extra_rel = 8 * dev / RS.EPS
    else:
        f = grid.make_operator_no_bc(op, backend=backend, **kw)

    dtype = case["dtype"]
    out_shape = (g.dim,) * rank_out + g.shape
    full_shape = tuple(n + 2 for n in g.shape)
    labels = [f"{fam}:{op}", f"{grid_label(spec)}", f"dtype:{dtype}"]
    if opts:
        labels.append(f"opts:{op}:{_optkey(opts)}")
    for tag, a in _inputs(spec, op, opts, rank_in, g.dim, full_shape, dtype, case["seed"], case["kexp"]):
        work = a.copy()
        out = np.full(out_shape, np.nan, dtype=a.dtype)
        try:
            f(work, out)
        except Exception as e:  # noqa: BLE001 - any exception on a sound padded array is a violation
            raise Violation(f"{backend} {op}{kw} on {spec!r} ({dtype}, input '{tag}') raised "
                            f"{type(e).__name__}: {e}", key=key + ":exception")
        if not np.array_equal(work, a):
            raise Violation(f"{op}{kw} modified its input array ({tag}); grid {spec!r}",
                            key=key + ":input-modified")
        val, bound = RS.apply(spec, op, opts, a)
        if val.shape != out.shape:
            raise HarnessError(f"reference shape {val.shape} != {out.shape}")
        tol = RS.tolerance(spec, op, opts, bound, extra_rel)
        bad = ~(np.abs(out - val) <= tol)
        if bad.any():
            idx = _first_bad(bad)
            raise Violation(
                f"{backend} {op}{kw} on {spec!r} ({dtype}, input '{tag}'): result{list(idx)}="
                f"{out[idx]!r} but the documented stencil gives {val[idx]!r} (tolerance "
                f"{float(tol[idx]):.3g}); {int(bad.sum())} of {bad.size} entries differ; component "
                f"index {list(idx[:rank_out])}, cell {list(idx[rank_out:])}", key=key)
    # gradient_squared is quadratic: polarisation identity against the gradient reference
    if op == "gradient_squared":
        shape = full_shape
        u = rng_array(case["seed"] + 3, shape, dtype, "normal", 10.0 ** case["kexp"])
        v = rng_array(case["seed"] + 4, shape, dtype, "normal", 10.0 ** case["kexp"])
        o1 = np.full(out_shape, np.nan, dtype=u.dtype)
        o2 = o1.copy()
        f(u + v, o1)
        f(u - v, o2)
        got = (o1 - o2) / 4
        want, bound = _bilinear_gradient(g, opts, u, v)
        tol = RS.tolerance(spec, op, opts, bound) * 8
        bad = ~(np.abs(got - want) <= tol)
        if bad.any():
            idx = _first_bad(bad)
            raise Violation(
                f"gradient_squared{kw} on {spec!r}: polarisation (gs(u+v)-gs(u-v))/4 = {got[idx]!r} "
                f"but grad u . grad v = {want[idx]!r} at cell {list(idx)}", key=key + ":polarisation")
    pat = RS.parse_pattern(g, op)
    axes = [pat[1]] if pat else range(g.num_axes)
    nt = all(g.shape[i] >= 3 for i in axes)
    labels.append("cells>=3" if nt else "cells<3")
    if numba_disabled():
        labels.append("nojit")
    return {"nt": nt, "labels": labels}


def _bilinear_gradient(g, opts, u, v):
    """sum_axes D u * D v with the documented difference quotients, and its bound"""
    tot = None
    for ax in range(g.num_axes):
        if opts.get("central", True):
            terms = [(RS.d1(u, g, ax), RS.d1(v, g, ax), 1.0)]
        else:
            terms = [(RS.d1(u, g, ax, m), RS.d1(v, g, ax, m), 0.5) for m in ("forward", "backward")]
        for a, b, w in terms:
            t = RS.Lin(a.v * b.v * w, 3 * (a.b + b.b) ** 2 * w)
            tot = t if tot is None else tot + t
    return tot.v, tot.b


def numba_disabled():
    import numba

    return bool(numba.config.DISABLE_JIT)


# =========================================================================================
# (b) convergence to the continuum operator
# =========================================================================================
THR_2ND = 1.7
THR_1ST = 0.8
FLOOR = 1e-9
F_C01_KEYS = {
    "tensor_divergence":
        "C01:spherical-nohole:conservative:tensor_divergence:cells-adjoining-origin:first-order",
    "tensor_double_divergence":
        "C01:spherical-nohole:conservative:tensor_double_divergence:innermost-cell:flux-form-value",
}


@st.composite
def refine_cases(draw, fam, ops=None, force_hole=None):
    nres = st.integers(8, 16)
    if fam == "cart":
        dim = draw(st.integers(1, 3))
        if dim == 3:
            nres = st.integers(6, 10)
        shape = [draw(nres) for _ in range(dim)]
        bounds = []
        for _ in range(dim):
            lo = draw(st.one_of(st.sampled_from([0.0, -1.0, 1.0]), st.floats(-10, 10)))
            bounds.append([lo, lo + draw(log_float(0.1, 10.0))])
        spec = {"cls": "cart", "shape": shape, "bounds": bounds,
                "periodic": [draw(st.booleans()) for _ in range(dim)]}
    else:
        hole = draw(st.booleans()) if force_hole is None else force_hole
        width = draw(log_float(0.1, 10.0))
        r_in = width * draw(log_float(0.3, 10.0)) if hole else 0.0
        spec = {"cls": fam, "shape": [draw(nres)], "radius": [r_in, r_in + width], "periodic": [False]}
        if fam == "cyl":
            lo = draw(st.one_of(st.sampled_from([0.0, -1.0]), st.floats(-10, 10)))
            spec["shape"].append(draw(nres))
            spec["bounds_z"] = [lo, lo + draw(log_float(0.1, 10.0))]
            spec["periodic"] = [False, draw(st.booleans())]
    rest = {"seed": draw(st.integers(0, 2**32 - 1)), "singular": draw(st.booleans())}
    pick = [spec, rest, draw(st.integers(0, 2**32 - 1))]
    if ops is not None:
        names = ops
    else:
        # three of four cases use a named operator, one a single-axis derivative pattern
        g = RS.Geometry(spec)
        want_pattern = int(case_hash(["pattern?", pick]), 16) % 4 == 0
        names = [n for n in RS.known_operators(spec) if (RS.parse_pattern(g, n) is not None) == want_pattern]
    op, opts = _choose(pick, spec, names)
    return {"grid": spec, "op": op, "opts": opts, **rest}


def _level_spec(spec, level):
    s = dict(spec)
    s["shape"] = [int(n) * 2**level for n in spec["shape"]]
    return s


class WitnessXX:
    """T = X (x) X on the embedding of a spherical grid: T_rr = r^2, all other components zero;
    (div T)_r = 4 r, div div T = 12 (the witness quoted for the known finding F-C01)."""

    fam, rank, D = "sph", 2, 3

    def __init__(self, r_out):
        self.length = [float(r_out)] * 3
        self.h = [5e-3 * float(r_out)] * 3

    def __call__(self, X):
        return np.array([[X[i] * X[j] for j in range(3)] for i in range(3)])


def _make_field(spec, rank, seed, singular, preset=None):
    g = RS.Geometry(spec)
    if preset == "xx":
        if g.family != "sph" or rank != 2:
            raise HarnessError("preset 'xx' is a spherical tensor field")
        return WitnessXX(g.bounds[0][1])
    if g.family == "cart":
        return RC.CartField(g.dim, rank, g.bounds, seed)
    r_in, r_out = g.bounds[0]
    z = g.bounds[1] if g.family == "cyl" else (None, None)
    sing = bool(singular) and r_in >= 0.5 * (r_out - r_in)
    return RC.SymField(g.family, rank, r_in, r_out, z[0], z[1], seed, singular=sing)


def _region_edge(spec):
    """inner edge of region (i): smallest cell edge of the coarsest level >= 20 % of r_out"""
    g = RS.Geometry(spec)
    if g.family == "cart":
        return -math.inf
    r_in, r_out = g.bounds[0]
    delta = 0.2 * r_out
    if r_in >= delta:
        return -math.inf
    k = math.ceil((delta - r_in) / g.dr - 1e-9)
    return r_in + k * g.dr


def level_errors(case, level, field=None):
    """max-norm errors of the operator on refinement ``level``: dict with regions and scale"""
    spec0, op, opts = case["grid"], case["op"], dict(case["opts"])
    spec = _level_spec(spec0, level)
    g = RS.Geometry(spec)
    rank_in, rank_out, _ = RS.op_info(spec, op)
    F = field if field is not None else _make_field(spec0, rank_in, case["seed"], case["singular"],
                                                    case.get("preset"))
    grid = build_grid(spec)
    kw = {k: v for k, v in opts.items() if v != "absent"}
    f = grid.make_operator_no_bc(op, backend=NB, **kw)
    full = [g.coords_full(ax) for ax in range(g.num_axes)]
    valid = [c[1:-1] for c in full]
    a = np.ascontiguousarray(RC.sample(F, g.family, full), dtype=float)
    if a.shape != (g.dim,) * rank_in + tuple(n + 2 for n in g.shape):
        raise HarnessError(f"sample shape {a.shape}")
    chk = a.copy()
    RS.enforce_preconditions(spec, op, opts, chk)
    if not np.array_equal(chk, a):
        raise HarnessError("generated field violates the symmetry preconditions")
    out = np.full((g.dim,) * rank_out + g.shape, np.nan)
    f(a, out)
    pat = RS.parse_pattern(g, op)
    if pat is not None:
        order, axis, _method = pat
        ex = RC.exact(F, g.family, "d1" if order == 1 else "d2", valid, axis=g.axes[axis])
        dorder = order
    else:
        ex = RC.exact(F, g.family, op, valid)
        dorder = RC.OPERATORS[op][2]
    if ex.shape != out.shape:
        raise HarnessError(f"oracle shape {ex.shape} != {out.shape}")
    err = np.abs(out - ex)
    if not np.all(np.isfinite(err)):
        raise Violation(f"{op}{kw} returned non-finite values on exact samples of a smooth field; "
                        f"grid {spec!r}", key=f"refine:{g.family}:{op}:non-finite")
    err_cells = err.reshape((-1,) + g.shape).max(axis=0)
    ell = min(F.length)
    fmax = float(np.abs(a).max())
    scale = float(np.abs(ex).max()) + (fmax / ell**dorder if op != "gradient_squared" else (fmax / ell) ** 2)
    res = {"ii": float(err_cells.max()), "scale": scale, "inner": float(err_cells[0].max()) if g.family != "cart" else 0.0}
    edge = _region_edge(spec0)
    if g.family == "cart" or edge == -math.inf:
        res["i"] = res["ii"]
    else:
        r = valid[0]
        mask = r >= edge
        res["i"] = float(err_cells[mask].max())
    return res, F


def _rates(errs, floor):
    """(slope over the last three levels, finest pair) or None when below the round-off floor"""
    if errs[-1] <= floor or errs[-2] <= floor:
        return None
    fin = math.log2(errs[-2] / errs[-1])
    slope = math.log2(errs[-3] / errs[-1]) / 2 if errs[-3] > floor else fin
    return slope, fin


def expected_orders(spec, op, opts):
    """(threshold region i, threshold region ii or None, tag) from the property statement"""
    g = RS.Geometry(spec)
    opts = dict(opts)
    pat = RS.parse_pattern(g, op)
    method = pat[2] if pat else opts.get("method", "central")
    hole_free = g.family != "cart" and g.r_in == 0
    if method in ("forward", "backward"):
        return THR_1ST, None, "one-sided"
    if g.family == "cyl" and op == "vector_laplace" and hole_free:
        return THR_2ND, THR_1ST, "cyl-vector-laplace-axis"
    if g.family == "sph" and hole_free and op in F_C01_KEYS and RS.sph_conservative(op, opts):
        # known finding F-C01: judged against the characterised behaviour
        return THR_2ND, (THR_1ST if op == "tensor_divergence" else -0.3), "F-C01"
    return THR_2ND, THR_2ND, "central"


#: finest refinement level (N * 2**level cells per axis) tried before a violation is declared
MAX_LEVEL = {1: 6, 2: 4, 3: 3}


def check_refine(case):
    """Observed order on the levels N, 2N, 4N; while the verdict is negative the case is refined
    further (the property is about the limit rate, and e.g. the one-sided conservative divergence
    has the error (dr/r) (1 + O(dr/r)), whose observed order approaches 1 only for dr << r); a
    violation is declared when the three finest affordable levels still miss the order."""
    spec, op, opts = case["grid"], case["op"], dict(case["opts"])
    g = RS.Geometry(spec)
    thr_i, thr_ii, tag = expected_orders(spec, op, opts)
    levels, F = [], None
    for lev in range(3):
        res, F = level_errors(case, lev, F)
        levels.append(res)

    def judge():
        scale = max(l["scale"] for l in levels)
        floor = FLOOR * scale
        verdict = {}
        for region, thr in (("i", thr_i), ("ii", thr_ii)):
            if thr is None:
                continue
            errs = [l[region] for l in levels]
            verdict[region] = (_rates(errs, floor), thr, errs)
        return verdict, [k for k, (r, thr, _e) in verdict.items() if r is not None and min(r) < thr]

    verdict, failing = judge()
    while failing and len(levels) <= MAX_LEVEL[g.num_axes]:
        res, F = level_errors(case, len(levels), F)
        levels.append(res)
        verdict, failing = judge()
    hole = g.family != "cart" and g.r_in > 0
    famtag = g.family + ("+hole" if hole else "")
    if failing:
        region = failing[0]
        r, thr, errs = verdict[region]
        raise Violation(
            f"{op}{opts} on {spec!r}: max-norm error against the continuum operator in region ({region}) "
            f"[{'cells at >= 20% of r_out' if region == 'i' else 'all cells'}] at N, 2N, 4N, ... = "
            f"{['%.3e' % e for e in errs]}: observed order on the three finest levels (slope, finest pair) = "
            f"({r[0]:.2f}, {r[1]:.2f}) < required {thr} ({tag}); field seed {case['seed']}",
            key=f"refine:{famtag}:{op}:{_optkey(opts)}:region-{region}")
    trivial = all(r is None for r, _t, _e in verdict.values())
    labels = [f"{g.family}:{op}", "hole" if hole else ("no-hole" if g.family != "cart" else "cartesian"),
              f"class:{tag}", "exact(below floor)" if trivial else "measurable", f"levels:{len(levels)}"]
    if opts:
        labels.append(f"opts:{op}:{_optkey(opts)}")
    if g.family == "cart":
        labels.append(f"cart{g.num_axes}d")
    for region, (r, _thr, _e) in verdict.items():
        if r is not None:
            labels.append(f"order({region})~{min(4, max(-1, round(r[1] * 2) / 2))}")
    return {"nt": not trivial, "labels": labels}


# ---- dedicated sub-check for the known finding F-C01 -------------------------------------
@st.composite
def fc01_cases(draw):
    op = draw(st.sampled_from(sorted(F_C01_KEYS)))
    width = draw(log_float(0.1, 10.0))
    spec = {"cls": "sph", "shape": [draw(st.integers(8, 16))], "radius": [0.0, width], "periodic": [False]}
    cons = True if op == "tensor_divergence" else draw(st.sampled_from([True, "absent"]))
    return {"grid": spec, "op": op, "opts": {"conservative": cons},
            "seed": draw(st.integers(0, 2**32 - 1)), "singular": False,
            "preset": draw(st.sampled_from([None, None, None, "xx"]))}


def check_fc01(case):
    """Raises the known-finding violation while the deviation reproduces."""
    op = case["op"]
    levels, F = [], None
    for lev in range(4):
        res, F = level_errors(case, lev, F)
        levels.append(res)
    scale = max(l["scale"] for l in levels)
    floor = FLOOR * scale
    errs_ii = [l["ii"] for l in levels]
    errs_in = [l["inner"] for l in levels]
    r = _rates(errs_ii, floor)
    labels = [f"F-C01:{op}"]
    if r is None:
        return {"nt": False, "labels": labels + ["below floor"]}
    if op == "tensor_divergence":
        if min(r) < THR_2ND:
            raise Violation(
                f"hole-free SphericalSymGrid {case['grid']['radius']}, conservative tensor_divergence: error over "
                f"all cells at N..8N = {['%.3e' % e for e in errs_ii]} -> order ({r[0]:.2f}, {r[1]:.2f}), "
                f"innermost cell {['%.3e' % e for e in errs_in]}; away from the origin second order",
                key=F_C01_KEYS[op])
    else:
        if errs_in[-1] > floor and errs_in[-1] > 0.25 * errs_in[0] and min(r) < THR_2ND:
            raise Violation(
                f"hole-free SphericalSymGrid {case['grid']['radius']}, conservative tensor_double_divergence: "
                f"innermost-cell error at N..8N = {['%.3e' % e for e in errs_in]} does not decrease "
                f"(all cells: order {r[1]:.2f})", key=F_C01_KEYS[op])
    return {"nt": True, "labels": labels + ["deviation not reproduced"]}


# =========================================================================================
# sub-check inventory
# =========================================================================================
_RULE_A = (">= 3 cells on every differentiated axis; inputs: dense random, two one-hot (any cell incl. "
           "ghost/corner), ghost-only, integer; tolerance eps*sum|w||u|*(64+16 kappa)")
_RULE_B = ("error above 1e-9*scale on the two finest levels; orders from N,2N,4N (refined further, up to 64N "
           "in 1-d / 16N in 2-d / 8N in 3-d, before a violation), least-squares slope and finest pair")


def _stencil(name, classes, kind, mode, q, t, shards, tshards):
    return SubCheck(
        name=name, strategy=lambda: stencil_cases(classes, kind), check=check_stencil, mode=mode,
        budget={"quick": q, "thorough": t}, shards={"quick": shards, "thorough": tshards},
        time_limit={"quick": 150, "thorough": 1500}, rule=_RULE_A)


def _refine(name, fam, mode, q, t, shards, tshards):
    return SubCheck(
        name=name, strategy=lambda: refine_cases(fam), check=check_refine, mode=mode,
        budget={"quick": q, "thorough": t}, shards={"quick": shards, "thorough": tshards},
        time_limit={"quick": 150, "thorough": 1500}, rule=_RULE_B)


_ALL = ("unit", "cart", "polar", "sph", "cyl")
# measured cost per case (real JIT): stencil 0.15 s (Cartesian) ... 0.7 s (spherical, assertions
# compiled in); refinement case 0.65 ... 1.3 s; interpreted 1-d cases 5 ... 20 ms
SUBCHECKS = [
    # (a) real JIT (longest jobs first)
    _stencil("stencil_spherical", ("sph",), "named", "jit", 150, 6000, 3, 12),
    _stencil("stencil_cylindrical", ("cyl",), "named", "jit", 120, 5000, 2, 8),
    _stencil("stencil_cartesian", ("unit", "cart"), "named", "jit", 260, 10000, 2, 8),
    _stencil("stencil_polar", ("polar",), "named", "jit", 100, 4000, 1, 4),
    _stencil("stencil_derivative_patterns", _ALL, "patterns", "jit", 140, 5000, 1, 4),
    # (b) compiled operators
    _refine("refine_cylindrical", "cyl", "jit", 70, 2000, 2, 8),
    _refine("refine_cartesian", "cart", "jit", 80, 2000, 2, 8),
    _refine("refine_spherical_jit", "sph", "jit", 24, 800, 1, 4),
    _refine("refine_polar_jit", "polar", "jit", 20, 600, 1, 4),
    # (b) interpreted breadth for the 1-d grids (no compilation: ~100x cheaper per case)
    _refine("refine_spherical", "sph", "nojit", 700, 10000, 1, 4),
    _refine("refine_polar", "polar", "nojit", 400, 6000, 1, 4),
    SubCheck(name="known_finding_spherical_origin", strategy=fc01_cases, check=check_fc01, mode="nojit",
             budget={"quick": 12, "thorough": 100}, shards={"quick": 1, "thorough": 1},
             rule="hole-free spherical grid, conservative tensor_divergence / tensor_double_divergence; raises "
                  "the F-C01 known-finding keys while the deviation reproduces"),
    # (a) interpreted breadth and the scipy backend
    _stencil("stencil_curvilinear_nojit", ("polar", "sph", "cyl"), "named", "nojit", 4500, 60000, 1, 4),
    _stencil("stencil_cartesian_nojit", ("unit", "cart"), "named", "nojit", 3000, 40000, 1, 4),
    _stencil("stencil_derivative_patterns_nojit", _ALL, "patterns", "nojit", 1500, 20000, 1, 2),
    _stencil("stencil_scipy", ("unit", "cart"), "scipy", "pure", 1500, 20000, 1, 2),
]
