"""C11 - compiling an expression preserves its meaning.

Programs: random expression ASTs of the frozen grammar (``vlib.gen_exprs``), rendered to text in
a random syntactic shape.  Oracle: the independent NumPy evaluator working on the AST.  Routes:
``ScalarExpression.__call__``, ``get_function('numpy'|'numba')`` with separate and single
arguments, ``TensorExpression``, ``<Field>.from_expression`` on every grid class,
``differentiate``/``derivatives`` (against forward-mode derivatives of the AST, cross-checked with
finite differences of the oracle), ``parse_number`` and ``evaluate``.  Aimed families: the point-wise
fall-back of ``ScalarField.from_expression`` (expressions that cannot be evaluated with arrays) and
repeated ``get_function`` requests on one expression object with different per-request ``user_funcs``.

Tolerance: ``|got - want| <= TOLK * eps * E`` where ``E`` is the evaluator's running error scale
(sum of the magnitudes of the partial terms weighted with the sensitivities of the enclosing
operations).  Points closer to a jump of floor/ceiling/Mod/heaviside/comparison than the
round-off of the jump's argument are not judged; jumps with exactly computed arguments are judged
exactly, including the value at the jump.
"""

from __future__ import annotations

import math
import re
import signal
import time
from contextlib import contextmanager

import numpy as np
from hypothesis import strategies as st

from vlib import env

env.setup()

import pde  # noqa: E402
from pde.tools.expressions import (  # noqa: E402
    ScalarExpression,
    TensorExpression,
    evaluate,
    parse_number,
)

from vlib import gen_exprs as G  # noqa: E402
from vlib import gen_grids as GG  # noqa: E402
from vlib.core import HarnessError, Rejected, SubCheck, Violation  # noqa: E402

PROPERTY = "C11"
RULE = ("case = (AST, syntactic shape, signature/aliases, constants, argument values); non-trivial = "
        "AST of depth >= 3 with a non-commutative operator (- / **) nested inside another one and at "
        "least one judged point; distinct = whole case")
ASSUMPTIONS = [
    "only the grammar frozen in DESIGN.md C11 (erf only on the numpy route); arguments are finite "
    "float64 scalars/arrays",
    "formulas are well-conditioned by construction (interval guards): log/sqrt/cbrt/real-power "
    "arguments >= 0.3, denominators and Mod divisors |.| >= 0.3, bounded arguments of exp/tan/asin..., "
    "all sub-terms bounded by 100; cbrt is only applied to positive arguments (sympy reads cbrt(x) as "
    "the principal root x**(1/3))",
    "points within round-off of a jump (floor, ceiling, Mod, heaviside, comparisons, atan2 branch cut) "
    "are not judged unless the jump's argument is computed exactly (x, x - 0.5, ...)",
    "symmetric coordinates of curvilinear grids are 0 for `cartesian[i]` (default of "
    "GridBase._coords_full)",
    "derivatives only for ASTs of differentiable nodes known to sympy (no Abs, jumps, hypot, exp2, "
    "user functions)",
    "a sympy.simplify call that does not return within 6 s or ends in a RecursionError is skipped "
    "(counted, not judged)",
    "point-wise fall-back of ScalarField.from_expression (user function with a python `if`, Piecewise, sign): "
    "the threshold lies in the middle of a gap (> 1e-7 relative) between the values the argument takes on the "
    "grid; no array constants and no `cartesian[i]` (the cell-by-cell evaluation rejects them with a ValueError)",
    "a failure that sympy alone reproduces without any repository code - the same exception from parse_expr, "
    "simplify or the function built by lambdify, or a free dummy symbol returned by simplify - is a loud "
    "rejection by the third-party library: counted as rejected, not judged (the diagnosis runs only after a "
    "failure was observed; if it fails itself the violation stands).  A silent value change by sympy.simplify "
    "alone (30-digit evalf of parsed and simplified text differ) is reported as the listed known finding",
    "numba cannot lower a list of arrays with different memory layouts: TensorExpression.get_function('numba', "
    "single_arg=True) called with a 2-d argument array fails to compile with an assertion inside numba for forms "
    "holding a bare variable next to a computed entry; counted as rejected",
    "parse_number on a point within round-off of a jump (floor(-2/tanh(729))) may raise sympy's "
    "PrecisionExhausted: ill-conditioned, not judged",
    "repeated get_function requests: the per-request user function f is not also given at construction "
    "(precedence between the two is not documented); arguments in [0.2, 1.5]",
]

TOLK = 64.0  # numpy route
TOLK_JIT = 256.0  # numba route (fastmath: reassociation, reciprocal, FMA)
SIMPLIFY_LIMIT = 6.0


# =========================================================================================
# helpers
# =========================================================================================
class _Timeout(BaseException):
    pass


@contextmanager
def time_limit(seconds):
    def handler(signum, frame):
        raise _Timeout()

    old = signal.signal(signal.SIGALRM, handler)
    # periodic: sympy swallows exceptions in a few places, so the alarm keeps firing every second
    signal.setitimer(signal.ITIMER_REAL, seconds, 1.0)
    try:
        yield
    finally:
        signal.setitimer(signal.ITIMER_REAL, 0)
        signal.signal(signal.SIGALRM, old)


def accept(fn, text, what):
    """Run a constructor of the code under test on an input that is sound by construction (only
    the frozen grammar, declared variables/constants): a validation error is a violation here."""
    try:
        return fn()
    except RecursionError:
        # sympy.simplify occasionally recurses without end (observed with Mod in relations); like a
        # simplify call that does not return this is counted and not judged
        raise _Timeout() from None
    except (ValueError, RuntimeError, NotImplementedError, TypeError, KeyError, AttributeError) as e:
        why = sympy_rejects(text, e)
        if why:
            raise Rejected(why) from None
        raise Violation(f"{what}: sound input `{text}` rejected with {type(e).__name__}: {str(e)[:300]}",
                        key=f"rejected-sound-input:{what}:{type(e).__name__}") from None


def sympy_rejects(text, e):
    """reason when sympy alone (no repository code) fails on the text like the code under test did"""
    if not isinstance(text, str):
        return None
    try:
        alone = SympyAlone(text, *split_names(text))
    except Exception:  # noqa: BLE001
        return None
    if alone.raises_same(type(e).__name__, str(e)):
        return (f"sympy alone ({alone.stage}) raises the same {type(e).__name__}: {str(e)[:80]} "
                "[loud failure of the third-party library]")
    new = alone.new_free_symbols()
    stem = lambda n: re.sub(r"\d+$", "", n)  # noqa: E731  (dummy symbols are numbered per process)
    if new and any(stem(n) in str(e) and stem(n) not in text for n in new):
        return f"sympy.simplify alone introduces the free symbol(s) {sorted(new)} [third-party bug, loud]"
    return None


def run_generated(fn, text, what, diag=None):
    """Call code generated from an expression.  Exceptions raised *inside* generated code have
    no repository frame at the end of their traceback, so they are classified here: a name that
    does not occur in the written text was introduced by sympy.simplify (``re``, ``sign`` ...) -
    a loud rejection outside the grammar, counted and not judged; everything else is a violation
    (the property says the call returns the value)."""
    try:
        return fn()
    except (Violation, Rejected, HarnessError, _Timeout):
        raise
    except Exception as e:  # noqa: BLE001
        msg = str(e)
        name = getattr(e, "name", None) if isinstance(e, NameError) else None
        if name is None:
            m = re.search(r"Untyped global name '(\w+)'", msg) or re.search(r"name '(\w+)' is not defined", msg)
            name = m.group(1) if m else None
        if name is not None and not re.search(rf"\b{re.escape(name)}\b", text):
            raise Rejected(f"simplification introduced the unsupported function `{name}`") from None
        short = msg.strip().splitlines()[0][:300] if msg.strip() else ""
        if isinstance(e, AssertionError):
            tb = e.__traceback__
            while tb is not None and tb.tb_next is not None:
                tb = tb.tb_next
            if tb is not None and tb.tb_frame.f_code.co_filename.replace("\\", "/").endswith("numba/cpython/listobj.py"):
                # numba cannot lower a list literal with items of different types (an array next to a number the
                # entry simplified to, arrays of different layouts): loud limitation of the compiler
                raise Rejected("numba cannot lower a list with items of different types") from None
        if isinstance(e, TypeError) and isinstance(text, str) and sympy_printer_complexifies(text):
            raise Rejected("sympy's code printers write cot/sec/csc with a deep rewrite that turns hyperbolic functions "
                           f"into complex trigonometric ones; {type(e).__name__}: {short[:80]} [loud failure of the "
                           "third-party library]") from None
        if diag is not None and isinstance(text, str):
            # ``diag`` = (argument names, argument values): does the function that sympy.lambdify alone
            # builds for the simplified text fail in the same way?
            try:
                alone = SympyAlone(text, *split_names(text))
                same = alone.lambdified_raises_same(diag[0], diag[1], type(e).__name__, msg)
            except Exception:  # noqa: BLE001
                same = False
            if same:
                raise Rejected(f"the function sympy.lambdify alone builds raises the same {type(e).__name__}: "
                               f"{short[:80]} [loud failure of the third-party library]") from None
        raise Violation(f"{what}: unexpected {type(e).__name__}: {short} for `{text}`",
                        key=f"exception:{type(e).__name__}:{what}") from None


# ---- attribution of failures to sympy itself -------------------------------------------------
KEY_SIMPLIFY = "C11:sympy.simplify-in-ExpressionBase.__init__:rewritten-expression-has-different-value"
KEY_AUTOEVAL = "C11:sympy.parse_expr-automatic-evaluation:parsed-expression-has-different-value"
_NAME_RE = re.compile(r"[A-Za-z_][A-Za-z_0-9]*")


class SympyAlone:
    """The same text taken through sympy alone (``parse_expr`` -> ``simplify`` -> ``lambdify``), without
    any code of the repository.  Used only AFTER a failure was observed, to decide whether its root
    cause lies in sympy: an exception that sympy raises by itself with the same type and message is a
    loud rejection by the third-party library (counted, not judged); a ``simplify`` result whose value
    (sympy's own 30-digit evalf) differs from the value of the parsed text is the listed known finding.
    Any failure of this diagnosis itself means `not attributed`: the original violation stands."""

    def __init__(self, text, symbols=(), functions=()):
        import sympy
        from sympy.parsing.sympy_parser import parse_expr

        self.sympy = sympy
        self.stage = None  # stage at which sympy alone raised
        self.exc = None
        self.parsed = self.simplified = self.unevaluated = None
        self.text, self.functions = text, list(functions)
        local = {n: sympy.Symbol(n) for n in symbols}
        local.update({n: sympy.Function(n) for n in functions})
        try:
            with time_limit(2 * SIMPLIFY_LIMIT):
                self.stage = "parse_expr"
                self.parsed = parse_expr(text, local_dict=local).subs(sympy.Function("heaviside"), sympy.Heaviside)
                try:
                    # the text as written, without sympy's automatic evaluation (Mod(x/pi, -x) -> x/pi + x ...)
                    self.unevaluated = parse_expr(text, local_dict=local, evaluate=False).subs(
                        sympy.Function("heaviside"), sympy.Heaviside)
                except Exception:  # noqa: BLE001
                    self.unevaluated = None
                self.stage = "simplify"
                self.simplified = sympy.simplify(self.parsed)
                self.stage = None
        except _Timeout:
            self.stage = "timeout"
        except Exception as e:  # noqa: BLE001
            self.exc = e

    def raises_same(self, exc_type_name, message):
        """did sympy alone raise an exception of this type with this message (parse/simplify)?"""
        e = self.exc
        return (e is not None and type(e).__name__ == exc_type_name
                and str(e).strip()[:80] == str(message).strip()[:80])

    def new_free_symbols(self):
        if self.simplified is None:
            return set()
        return {str(x) for x in self.simplified.free_symbols - self.parsed.free_symbols}

    def lambdified_raises_same(self, names, args, exc_type_name, message):
        """does the function sympy.lambdify builds for the simplified expression raise the same error?"""
        if self.simplified is None:
            return False
        try:
            fn = self.sympy.lambdify([self.sympy.Symbol(n) for n in names], self.simplified, modules="numpy")
            with np.errstate(all="ignore"):
                fn(*args)
        except Exception as e:  # noqa: BLE001
            return type(e).__name__ == exc_type_name and str(e).strip()[:80] == str(message).strip()[:80]
        return False

    def value_changed(self, point, scale, real_only=False):
        """(parsed value, simplified value) at ``point`` (name -> float) with sympy's own evalf when they
        differ by more than 1e-9*scale, else None"""
        if self.simplified is None:
            return None
        sympy = self.sympy
        subs = {sympy.Symbol(n): sympy.Float(repr(float(v)), 40) for n, v in point.items()}
        try:
            with time_limit(4 * SIMPLIFY_LIMIT):
                a = complex(self.parsed.evalf(30, subs=subs))
                b = complex(self.simplified.evalf(30, subs=subs))
                if abs(a - b) <= 1e-9 * (abs(scale) + abs(a)):
                    # simplify is applied again to the simplified expression when an expression object is copied
                    # (thorough tier: the second application exchanged sin and csc)
                    again = sympy.simplify(self.simplified)
                    b2 = complex(again.evalf(30, subs=subs))
                    if abs(a - b2) > 1e-9 * (abs(scale) + abs(a)):
                        self.simplified, b = again, b2
        except _Timeout:
            return None
        except Exception:  # noqa: BLE001
            return None
        if not (math.isfinite(a.real) and math.isfinite(a.imag)):
            return None
        if real_only and abs(a.imag) > 1e-12 * (1 + abs(a.real)):
            return None
        if abs(a - b) > 1e-9 * (abs(scale) + abs(a)):
            return a, b
        return None

    def autoeval_changed(self, point, scale, real_only=False):
        """(value of the text as written, value of parse_expr(text)) when sympy's automatic evaluation at
        parse time changes the value, else None"""
        if self.parsed is None:
            return None
        sympy = self.sympy
        from sympy.parsing.sympy_parser import parse_expr

        subs = {sympy.Symbol(n): sympy.Float(repr(float(v)), 40) for n, v in point.items()}
        try:
            with time_limit(2 * SIMPLIFY_LIMIT):
                # the text as written AT the point: the names stand for numbers while it is parsed, so nothing is
                # evaluated symbolically (evaluate=False does not stop the `%` operator from evaluating)
                local = {n: sympy.Float(repr(float(v)), 40) for n, v in point.items()}
                local.update({n: sympy.Function(n) for n in self.functions})
                numeric = parse_expr(self.text, local_dict=local).subs(sympy.Function("heaviside"), sympy.Heaviside)
                a0 = complex(numeric.evalf(30))
                a = complex(self.parsed.evalf(30, subs=subs))
        except _Timeout:
            return None
        except Exception:  # noqa: BLE001
            return None
        if not (math.isfinite(a0.real) and math.isfinite(a0.imag)):
            return None
        if real_only and abs(a0.imag) > 1e-12 * (1 + abs(a0.real)):
            return None
        if abs(a0 - a) > 1e-9 * (abs(scale) + abs(a0)):
            return a0, a
        return None


def sympy_printer_complexifies(text):
    """does the function sympy.lambdify ALONE generates for the (simplified) text contain the imaginary unit
    although the text does not?  (`_print_cot/_print_sec/_print_csc` use a deep `rewrite`, which also turns
    tanh(x) into -1j*tan(1j*x), cosh(x) into cos(1j*x) ...; ufuncs such as floor, hypot, % then fail loudly)"""
    import inspect

    try:
        flat = re.sub(r"\[(\d+)\]", r"_\1", text)  # indexed variables as plain symbols
        alone = SympyAlone(flat, *split_names(flat))
        if alone.simplified is None:
            return False
        syms = sorted(alone.simplified.free_symbols, key=str)
        src = inspect.getsource(alone.sympy.lambdify(syms, alone.simplified, modules="numpy"))
    except Exception:  # noqa: BLE001
        return False
    return "1j" in src and "1j" not in text


def split_names(text, user_funcs=()):
    """(symbols, functions) to declare when parsing ``text`` with sympy alone: every identifier that is
    not called is a symbol (except pi, E), every called identifier that sympy does not know is a function"""
    import sympy

    syms, funcs = set(), set(user_funcs)
    for m in _NAME_RE.finditer(text):
        if m.start() > 0 and text[m.start() - 1] in "0123456789.":
            continue  # exponent of a number (1e0)
        name = m.group(0)
        if text[m.end():].lstrip().startswith("("):
            if not hasattr(sympy, name):
                funcs.add(name)
        elif name not in ("pi", "E", "I", "True", "False"):
            syms.add(name)
    funcs.discard("abs")  # python's builtin: abs(expr) is sympy's Abs
    return sorted(syms - funcs), sorted(funcs)


def root_kind(ast):
    return f"{ast[0]}:{ast[1]}" if ast[0] in ("call", "call2", "ufunc", "cmp") else ast[0]


def compare(got, res, what, key, tolk, shape_exact=None, text=""):
    """Compare ``got`` with the oracle result ``res`` on the judged points.

    Returns (number of judged points, worst deviation in units of eps*E)."""
    g = np.asarray(got)
    if g.dtype == object:
        raise Violation(f"{what}: result has dtype object ({got!r}) for `{text}`", key=key + ":dtype")
    want_shape = res.v.shape
    if shape_exact is not None and g.shape != tuple(shape_exact):
        raise Violation(f"{what}: result shape {g.shape}, expected {tuple(shape_exact)} for `{text}`",
                        key=key + ":shape")
    try:
        g = np.broadcast_to(g, want_shape)
    except ValueError:
        raise Violation(f"{what}: result shape {np.shape(got)} does not broadcast to {want_shape} "
                        f"for `{text}`", key=key + ":shape") from None
    good = ~res.bad
    if not good.any():
        return 0, 0.0
    if np.iscomplexobj(g):
        if np.any(np.abs(g.imag[good]) > tolk * G.EPS * res.E[good]):
            raise Violation(f"{what}: complex result {g[good]} for `{text}`", key=key + ":complex")
        g = g.real
    g = g.astype(float)
    dev = np.abs(g - res.v)
    tol = tolk * G.EPS * res.E + 1e-300
    fail = good & ~(dev <= tol)
    if fail.any():
        i = np.unravel_index(int(np.argmax(np.where(fail, dev / tol, 0))), want_shape)
        vio = Violation(
            f"{what}: `{text}` gave {g[i]!r}, formula value {res.v[i]!r} (|dev|={dev[i]:.3g}, "
            f"tolerance {tol[i]:.3g} = {tolk:g}*eps*{res.E[i]:.3g}) at point index {tuple(int(j) for j in i)}",
            key=key)
        vio.index = tuple(int(j) for j in i)
        vio.scale = float(res.E[i])
        raise vio
    worst = float(np.max(np.where(good, dev / tol, 0))) * tolk
    return int(good.sum()), worst


def dev_label(worst):
    if worst == 0:
        return "dev:0"
    if worst < 1:
        return "dev:<1epsE"
    if worst < 8:
        return "dev:<8epsE"
    return "dev:>=8epsE"


def depth_label(ast):
    d = G.depth_of(ast)
    return f"depth:{d if d < 7 else '7+'}"


FAMILIES = {
    "fn:trig": {"sin", "cos", "tan", "sec", "cot"},
    "fn:inverse-trig": {"asin", "acos", "atan"},
    "fn:hyperbolic": {"sinh", "cosh", "tanh", "asinh", "acosh", "atanh"},
    "fn:exp-log-root": {"exp", "exp2", "log", "sqrt", "cbrt"},
    "fn:floor-ceiling": {"floor", "ceiling"},
    "fn:Abs": {"Abs"},
    "fn:erf": {"erf"},
}
OPERATOR_FORMS = {"div-as-pow", "sub-as-add-neg", "neg-as-mul"}


def ast_labels(ast, alts=()):
    """compact classification (the evidence keeps the 40 most frequent labels per sub-check)"""
    labs = [depth_label(ast)]
    kinds = G.kinds_of(ast)
    called = {k.split(":")[1] for k in kinds if k.startswith("call:")}
    labs += [fam for fam, names in FAMILIES.items() if called & names]
    labs += [f"fn:{k.split(':')[1]}" for k in sorted(kinds) if k.startswith("call2:")]
    if any(k.startswith("ufunc:") for k in kinds):
        labs.append("fn:user-function")
    for k, lab in (("heav", "fn:heaviside"), ("cmp", "top-level-comparison"), ("rpow", "op:real-power"),
                   ("pow", "op:integer-power"), ("div", "op:division"), ("sub", "op:subtraction"),
                   ("const", "uses:pi-or-E")):
        if k in kinds:
            labs.append(lab)
    if G.has_nested_noncomm(ast):
        labs.append("nested-non-commutative")
    js = repr(ast)
    if any(f"['call', '{inv}', ['call', '{fwd}'" in js for inv, (fwd, _, _) in G.OFF_BRANCH.items()):
        labs.append("inverse(forward(x)) off the principal branch")
    alts = set(alts)
    if "parens" in alts:
        labs.append("shape:redundant-parentheses")
    if alts & OPERATOR_FORMS:
        labs.append("shape:alternative-operator-form")
    if alts - OPERATOR_FORMS - {"parens"}:
        labs.append("shape:alternative-function-form")
    return labs


# ---- signatures ------------------------------------------------------------------------------
CLASH = ["beta", "gamma", "S", "Q", "N", "zeta"]


@st.composite
def signatures(draw, vs, allow_none=True, allow_alias=True):
    """Return {"sig": None | [entry,...], "names": {var: text name}, "mode": str}."""
    # NB: Hypothesis favours the first element of sampled_from
    modes = ["perm"] + (["alias", "alias", "clash"] if allow_alias else []) + ["extra", "plain"]
    if allow_none:
        modes = modes[:2] + ["none", "none"] + modes[2:]
    mode = draw(st.sampled_from(modes))
    if mode == "none":
        return {"sig": None, "names": {}, "mode": mode}
    entries, names = [], {}
    clash = list(draw(st.permutations(CLASH)))
    for v in vs:
        name = v["name"]
        if mode == "alias" and draw(st.booleans()):
            entry = [name, name + "_a"] + ([name + "2"] if draw(st.booleans()) else [])
            names[name] = draw(st.sampled_from(entry))
            entries.append(entry)
        elif mode == "clash" and draw(st.booleans()):
            names[name] = clash.pop()
            entries.append(names[name])
        else:
            entries.append(name)
    if mode == "extra":
        for extra in draw(st.lists(st.sampled_from(["q_unused", "zz9", "k"]), min_size=1, max_size=2,
                                   unique=True)):
            entries.insert(draw(st.integers(0, len(entries))), extra)
    if mode != "plain":
        entries = list(draw(st.permutations(entries)))
    return {"sig": entries, "names": names, "mode": mode}


def definite(entry):
    return entry if isinstance(entry, str) else entry[0]


# ---- cases -------------------------------------------------------------------------------------
@st.composite
def scalar_cases(draw, profile, max_depth=5, indexed=True, consts=True, cmp_top=True, budget=16,
                 max_vars=4, layouts=("flat", "flat", "outer", "scalar", "mixed"), allow_none=True,
                 routes=("call",)):
    vs = draw(G.variables(max_vars=max_vars, indexed=indexed))
    cs = draw(G.uconsts()) if consts else []
    ast = draw(G.asts(vs, cs, profile=profile, max_depth=max_depth, cmp_top=cmp_top, budget=budget))
    sig = draw(signatures(vs, allow_none=allow_none))
    return {
        "ast": ast, "vars": vs, "consts": cs, "sig": sig,
        "shape_seed": draw(st.integers(0, 2**31)),
        "args": {"seed": draw(st.integers(0, 2**31)), "n": draw(st.sampled_from([3, 4, 2, 5, 6, 1])),
                 "layout": draw(st.sampled_from(list(layouts)))},
        "route": draw(st.sampled_from(list(routes))),
    }


def build_env(case):
    """argument values: name -> float | ndarray, const values, full result shape"""
    vs, a = case["vars"], case["args"]
    n, layout, seed = int(a["n"]), a["layout"], int(a["seed"])
    nv = len(vs)
    shapes = []
    for i in range(nv):
        if layout == "flat":
            shapes.append((n,))
        elif layout == "scalar":
            shapes.append(())
        elif layout == "mixed":
            shapes.append(() if (i + seed) % 2 else (n,))
        else:  # outer: the first three variables vary along their own axis
            k = min(nv, 3)
            if i < k:
                shp = [1] * k
                shp[i] = 1 + (n + i) % 3
                shapes.append(tuple(shp))
            else:
                shapes.append(())
    full = np.broadcast_shapes(*shapes) if shapes else ()
    envd = {}
    anchors = []
    for a in ([case["ast"]] if "ast" in case else case.get("asts", [])):
        anchors += G.jump_anchors(a)
    for i, v in enumerate(vs):
        shp = shapes[i]
        if v.get("n"):
            shp = (int(v["n"]), *shp)
        val = G.values_in_range(seed + 7 * i, shp, v["lo"], v["hi"])
        # aim at jumps with exactly computed arguments (heaviside(x - 0.5), x >= 1 ...): the first
        # point sits on the jump, so that the value *at* the jump is judged
        for aname, aidx, aval in anchors:
            if aname == v["name"] and v["lo"] <= aval <= v["hi"] and (val.ndim > 0 or seed % 2 == 0):
                if v.get("n"):
                    if aidx is not None and aidx < val.shape[0]:
                        val[aidx].flat[0:1] = aval
                        if val[aidx].ndim == 0:
                            val[aidx] = aval
                elif aidx is None:
                    if val.ndim:
                        val.flat[0] = aval
                    else:
                        val = np.array(aval)
        envd[v["name"]] = float(val) if val.shape == () else val
    consts = {}
    for c in case["consts"]:
        if "value" in c:
            consts[c["name"]] = float(c["value"])
        else:
            val = G.values_in_range(c["seed"], full if full != () else (1,), c["lo"], c["hi"])
            consts[c["name"]] = val
            if full == ():
                full = (1,)
    return envd, consts, full


def make_expression(case, text, cls=ScalarExpression, **kw):
    """Build the expression object (with a time limit on sympy.simplify)."""
    sig = case["sig"]["sig"]
    envd, consts, full = build_env(case)
    used = G.names_in(case["ast"] if cls is ScalarExpression else ["list", *case["asts"]],
                      kinds=("uconst",))
    cdict = {k: v for k, v in consts.items()}  # all declared constants are passed
    ufs = G.user_funcs_of(case["ast"] if cls is ScalarExpression else ["list", *case["asts"]])
    kwargs = dict(signature=sig, consts=cdict or None, user_funcs=ufs or None)
    if cls is ScalarExpression:
        kwargs["allow_indexed"] = any(v.get("n") for v in case["vars"])
    kwargs.update(kw)
    t0 = time.time()
    with time_limit(SIMPLIFY_LIMIT):
        expr = accept(lambda: cls(text, **kwargs), text, cls.__name__)
    return expr, envd, consts, full, time.time() - t0, used


def call_args(expr, case, envd):
    """positional arguments in the order of ``expr.vars`` (definite names of the signature)"""
    sig = case["sig"]["sig"]
    by_def = {}
    for v in case["vars"]:
        txt = case["sig"]["names"].get(v["name"], v["name"])
        name = txt
        if sig is not None:
            for e in sig:
                if e == txt or (isinstance(e, list) and txt in e):
                    name = definite(e)
        by_def[name] = envd[v["name"]]
    # variables of the signature that the formula does not use get an arbitrary value
    return [by_def.get(name, 0.37) for name in expr.vars]


def check_vars(expr, case):
    sig = case["sig"]["sig"]
    if sig is not None:
        want = [definite(e) for e in sig]
        if list(expr.vars) != want:
            raise Violation(f"expr.vars={list(expr.vars)!r} but the signature {sig!r} defines {want!r}",
                            key="vars:signature")
    else:
        allowed = {v["name"] for v in case["vars"]}
        if not set(expr.vars) <= allowed or list(expr.vars) != sorted(expr.vars):
            raise Violation(f"expr.vars={list(expr.vars)!r} for variables {sorted(allowed)!r} without "
                            "signature", key="vars:none")


def oracle(case, ast, envd, consts, full, wrt=None):
    env_all = dict(envd)
    env_all.update(consts)
    try:
        return G.evaluate_ast(ast, env_all, wrt=wrt, shape=full)
    except G.DomainBug as e:
        raise HarnessError(f"generator produced an ill-defined formula: {e}") from None


def point_at(case, envd, consts, full, index):
    """text name -> float value of every variable and constant at the point ``index`` (None if the case
    uses indexed variables or the point cannot be reconstructed)"""
    if index is None:
        return None
    try:
        pt = {}
        for v in case["vars"]:
            if v.get("n"):
                return None
            txt = case["sig"]["names"].get(v["name"], v["name"])
            pt[txt] = float(np.broadcast_to(np.asarray(envd[v["name"]], dtype=float), full)[index])
        for name, val in consts.items():
            pt[name] = float(np.broadcast_to(np.asarray(val, dtype=float), full)[index])
        return pt
    except Exception:  # noqa: BLE001
        return None


def attribute_value(vio, text, point=None):
    """Re-key a value mismatch as the known finding when sympy.simplify ALONE changes the value of the
    parsed text at the failing point (30-digit evalf of both); otherwise return the violation unchanged."""
    if not isinstance(text, str):
        return vio
    try:
        syms, funcs = split_names(text)
        alone = SympyAlone(text, syms, funcs)
        auto = None
        if point is not None:
            changed = alone.value_changed(point, getattr(vio, "scale", 1.0))
            auto = alone.autoeval_changed(point, getattr(vio, "scale", 1.0))
        else:
            # the failing point is not available in terms of the names of the text (coordinates of a
            # grid, fields): three fixed generic points, judged only where the parsed text is real
            changed = None
            for vals in ([0.7, 1.3, 0.45, 1.9, 0.85], [1.1, 0.6, 1.7, 0.35, 1.45], [0.55, 1.6, 0.9, 1.25, 0.4]):
                point = {n: vals[i % len(vals)] for i, n in enumerate(syms)}
                changed = alone.value_changed(point, 1.0, real_only=True)
                auto = alone.autoeval_changed(point, 1.0, real_only=True)
                if changed is not None or auto is not None:
                    break
    except Exception:  # noqa: BLE001
        return vio
    if auto is not None:
        a0, a = auto
        return Violation(
            f"{vio.detail}; sympy alone: the text as written (evaluate=False) has the value {a0.real!r} at {point}, "
            f"parse_expr(text) = {alone.parsed} has the value {a.real!r}", key=KEY_AUTOEVAL)
    if changed is None:
        return vio
    a, b = changed
    return Violation(
        f"{vio.detail}; sympy alone: parse_expr(text) = {alone.parsed} has the value {a.real!r} at {point}, "
        f"sympy.simplify of it = {alone.simplified} has the value {b.real!r}", key=KEY_SIMPLIFY)


def base_record(case, ast, alts, judged, worst, extra=()):
    labs = ast_labels(ast, alts)
    labs += [f"layout:{case['args']['layout']}", f"sig:{case['sig']['mode']}", dev_label(worst)]
    if any(v.get("n") for v in case["vars"]) and G.names_in(ast, ("idx",)):
        labs.append("uses:indexed")
    if G.names_in(ast, ("uconst",)):
        labs.append("uses:uconst")
    if case["sig"]["names"] and set(case["sig"]["names"]) & G.names_in(ast):
        labs.append("uses:alias-or-clash-name")
    labs += list(extra)
    if not judged:
        labs.append("nothing-judged")
    return {"nt": bool(judged) and G.nontrivial(ast), "labels": labs}


# =========================================================================================
# value sub-checks (numpy / numba / single_arg)
# =========================================================================================
def check_value(case, backend="numpy", tolk=TOLK):
    ast = case["ast"]
    text, alts = G.render_info(ast, case["shape_seed"], case["sig"]["names"])
    route = case["route"]
    try:
        expr, envd, consts, full, dt, _ = make_expression(case, text)
    except _Timeout:
        return {"nt": False, "labels": ["simplify-timeout"]}
    check_vars(expr, case)
    res = oracle(case, ast, envd, consts, full)
    args = call_args(expr, case, envd)
    is_cmp = ast[0] == "cmp"
    key = f"{backend}:{route}:{root_kind(ast)}"
    extra = [f"route:{route}"]
    if dt > 3:
        extra.append("parse>3s")

    diag = None
    if backend == "numpy" and not any(v.get("n") for v in case["vars"]):
        diag = (list(expr.vars) + list(consts), list(args) + [consts[c] for c in consts])
    if route == "call":
        got = run_generated(lambda: expr(*args), text, f"{backend}/{route}", diag)
    elif route == "copy":
        cp = ScalarExpression(expr)
        got = run_generated(lambda: cp(*args), text, f"{backend}/{route}", diag)
    elif route == "kwargs":
        if consts:
            got = run_generated(lambda: expr(*args), text, f"{backend}/{route}", diag)
            extra.append("kwargs-with-consts->positional")
        else:
            kwargs = dict(zip(expr.vars, args))
            got = run_generated(lambda: expr(**kwargs), text, f"{backend}/{route}", diag)
    elif route == "get_function":
        f = expr.get_function(backend)
        got = run_generated(lambda: f(*args), text, f"{backend}/{route}", diag)
    elif route == "single_arg":
        f = expr.get_function(backend, single_arg=True)
        if any(v.get("n") for v in case["vars"]):
            raise HarnessError("single_arg with indexed variables")
        if len({np.shape(a) for a in args}) > 1:
            # heterogeneous shapes cannot be stacked: broadcast first
            stacked = np.array(np.broadcast_arrays(*args), dtype=float)
        else:
            stacked = np.array(args, dtype=float) if args else np.zeros((0,))
        got = run_generated(lambda: f(stacked), text, f"{backend}/{route}")
    else:
        raise HarnessError(route)
    if is_cmp:
        got = np.asarray(got)
        if got.dtype != bool:
            raise Violation(f"comparison `{text}` returned dtype {got.dtype}", key=key + ":cmp-dtype")
        got = got.astype(float)
    try:
        judged, worst = compare(got, res, f"{backend}/{route}", key, tolk, text=text)
    except Violation as vio:
        raise attribute_value(vio, text, point_at(case, envd, consts, full, getattr(vio, "index", None))) from None
    if res.exact_jumps:
        extra.append("exact-jump-hit")
    if res.bad.any():
        extra.append("masked-near-jump")
    return base_record(case, ast, alts, judged, worst, extra)


def check_value_numba(case):
    return check_value(case, backend="numba", tolk=TOLK_JIT)


# =========================================================================================
# tensor expressions
# =========================================================================================
@st.composite
def tensor_cases(draw, profile=None, jit=False):
    vs = draw(G.variables(max_vars=3))
    cs = [] if jit else draw(G.uconsts())
    rank = draw(st.sampled_from([1, 1, 2]))
    if rank == 1:
        shape = [draw(st.sampled_from([2, 3, 1]))]
    else:
        shape = [draw(st.sampled_from([2, 1])), draw(st.sampled_from([2, 3, 1]))]
    n = int(np.prod(shape))
    routes = ["array_separate", "array_single", "get_function"] if jit else ["call", "getitem", "get_function", "copy"]
    route = draw(st.sampled_from(routes))
    prof = G.PROFILE_ARRAY if route.startswith("array") else (profile or G.PROFILE_FULL)
    asts = [draw(G.asts(vs, cs, profile=prof, max_depth=3, budget=10)) for _ in range(n)]
    out = None
    if route.startswith("array"):
        # (after missed seed C11-6) entries that vanish identically - typical for Jacobians - and an output
        # array supplied by the caller that holds other numbers
        for i in range(n):
            z = draw(st.sampled_from(["keep", "keep", "zero", "x-x"]))
            if z == "zero":
                asts[i] = ["num", 0.0]
            elif z == "x-x" and vs:
                asts[i] = ["sub", ["var", vs[0]["name"]], ["var", vs[0]["name"]]]
        out = draw(st.sampled_from([None, "given", "given"]))
    sig = draw(signatures(vs, allow_none=False, allow_alias=not jit))
    return {
        "out": out,
        "asts": asts, "tshape": shape, "vars": vs, "consts": cs, "sig": sig,
        "shape_seed": draw(st.integers(0, 2**31)),
        "args": {"seed": draw(st.integers(0, 2**31)), "n": draw(st.sampled_from([3, 2, 4, 1, 5])),
                 "layout": draw(st.sampled_from(["flat", "flat", "scalar"] if jit else
                                                ["flat", "outer", "scalar", "mixed"]))},
        "route": route,
    }


def tensor_text(case):
    texts, alts = [], set()
    for i, a in enumerate(case["asts"]):
        t, al = G.render_info(a, case["shape_seed"] + i, case["sig"]["names"])
        texts.append(t)
        alts.update(al)
    shape = case["tshape"]
    if len(shape) == 1:
        text = "[" + ", ".join(texts) + "]"
    else:
        rows = [texts[r * shape[1]:(r + 1) * shape[1]] for r in range(shape[0])]
        text = "[" + ", ".join("[" + ", ".join(r) + "]" for r in rows) + "]"
    return text, texts, sorted(alts)


def check_tensor(case, backend="numpy", tolk=TOLK):
    text, texts, alts = tensor_text(case)
    shape = tuple(case["tshape"])
    try:
        expr, envd, consts, full, dt, _ = make_expression(case, text, cls=TensorExpression)
    except _Timeout:
        return {"nt": False, "labels": ["simplify-timeout"]}
    check_vars(expr, case)
    if tuple(expr.shape) != shape or expr.rank != len(shape):
        raise Violation(f"TensorExpression(`{text}`).shape={expr.shape}, expected {shape}", key="tensor:shape")
    args = call_args(expr, case, envd)
    route = case["route"]
    results = [oracle(case, a, envd, consts, full) for a in case["asts"]]
    key = f"tensor:{backend}:{route}"
    judged = 0
    worst = 0.0

    def cmp_component(got, idx, flat_i):
        nonlocal judged, worst
        try:
            j, w = compare(got, results[flat_i], f"{backend}/{route} component {idx}", key, tolk,
                           text=texts[flat_i])
        except Violation as vio:
            raise attribute_value(vio, texts[flat_i]) from None
        judged += j
        worst = max(worst, w)

    if route == "getitem":
        for flat_i, idx in enumerate(np.ndindex(*shape)):
            sub = expr[idx if len(idx) > 1 else idx[0]]
            if not isinstance(sub, ScalarExpression):
                raise Violation(f"expr[{idx}] is {type(sub).__name__}", key=key + ":type")
            cmp_component(run_generated(lambda: sub(*args), texts[flat_i], f"{backend}/{route}"), idx, flat_i)
        if len(shape) == 2:  # a row is a tensor expression of rank 1
            row = expr[0]
            if not isinstance(row, TensorExpression) or tuple(row.shape) != shape[1:]:
                raise Violation(f"expr[0] of a rank-2 expression is {row!r}", key=key + ":row")
            got = np.asarray(run_generated(lambda: row(*args), text, f"{backend}/{route}"))
            for c in range(shape[1]):
                cmp_component(got[c], (0, c), c)
    else:
        if route == "call":
            got = run_generated(lambda: expr(*args), text, f"{backend}/{route}")
        elif route == "copy":
            # copy constructor (reported by a seeding agent: the copy of a tensor expression fell back to
            # alphabetical argument order)
            cp = TensorExpression(expr)
            if list(cp.vars) != list(expr.vars):
                raise Violation(f"TensorExpression(expr).vars = {list(cp.vars)!r}, the source has {list(expr.vars)!r} "
                                f"(signature {case['sig']['sig']!r})", key=key + ":vars")
            got = run_generated(lambda: cp(*args), text, f"{backend}/{route}")
        elif route == "get_function":
            if backend == "numba" and full != () and len({bool(expr[i if len(i) > 1 else i[0]].constant)
                                                           for i in np.ndindex(*shape)}) > 1:
                # numba cannot type a list mixing arrays and numbers (loud TypeError): components
                # must all be constant or all depend on the array arguments
                return {"nt": False, "labels": ["numba-list-with-constant-component(not judged)"]}
            f = expr.get_function(backend)
            got = run_generated(lambda: f(*args), text, f"{backend}/{route}")
        elif route in ("array_separate", "array_single"):
            from pde.backends.numba import numba_backend

            single = route == "array_single"
            f = numba_backend._make_expression_array(expr, single_arg=single)
            # documented: the output shape is the tensor shape plus the shape of the input arrays
            bargs = [np.array(a, dtype=float) for a in np.broadcast_arrays(*args)]
            out = None
            if case.get("out") == "given":
                out = np.full(shape + tuple(full), 7.25)  # a buffer that was used before
            if single:
                stacked = np.array(bargs, dtype=float)
                got = run_generated(lambda: f(stacked, out), text, f"{backend}/{route}")
            else:
                got = run_generated(lambda: f(*bargs, out), text, f"{backend}/{route}")
            if out is not None:
                if got is not out and not np.shares_memory(got, out):
                    raise Violation(f"{route}: `{text}` did not return the supplied output array", key=key + ":out")
                got = out
        else:
            raise HarnessError(route)
        if backend == "numba" and route == "get_function":
            got = np.array(got)  # numba returns (nested) lists
        got = np.asarray(got)
        if got.shape[:len(shape)] != shape:
            raise Violation(f"{route}: `{text}` returned shape {got.shape}, expected leading {shape}",
                            key=key + ":shape")
        if route in ("array_separate", "array_single") and got.shape != shape + tuple(full):
            raise Violation(f"{route}: `{text}` returned shape {got.shape}, expected {shape + tuple(full)}",
                            key=key + ":shape")
        for flat_i, idx in enumerate(np.ndindex(*shape)):
            cmp_component(got[idx], idx, flat_i)
    labs = [f"route:{route}", f"tshape:{list(shape)}", f"layout:{case['args']['layout']}",
            f"sig:{case['sig']['mode']}", dev_label(worst)]
    if route.startswith("array"):
        labs.append("out:" + str(case.get("out")))
        if any(a == ["num", 0.0] or (a[0] == "sub" and a[1] == a[2]) for a in case["asts"]):
            labs.append("identically-zero-entry")
    for a in case["asts"][:2]:
        labs += [l for l in ast_labels(a, alts) if l.startswith(("fn:", "shape:"))]
    nt = judged > 0 and any(G.depth_of(a) >= 2 and any(k in G.NONCOMM for k in G.kinds_of(a))
                            for a in case["asts"]) and len(case["asts"]) >= 2
    return {"nt": nt, "labels": sorted(set(labs))}


def check_tensor_jit(case):
    return check_tensor(case, backend="numba", tolk=TOLK_JIT)


# =========================================================================================
# fields from expressions
# =========================================================================================
AXES = {"unit": "xyz", "cart": "xyz", "polar": "r", "sph": "r", "cyl": "rz"}


def grid_coordinates(spec):
    """cell-centre coordinates per axis (broadcastable) and Cartesian coordinates per component,
    computed from the spec only"""
    bounds = GG.axes_bounds(spec)
    shape = [int(n) for n in spec["shape"]]
    nax = len(shape)
    coords = []
    for i, ((lo, hi), n) in enumerate(zip(bounds, shape)):
        c = lo + (np.arange(n) + 0.5) * ((hi - lo) / n)
        shp = [1] * nax
        shp[i] = n
        coords.append(c.reshape(shp))
    cls = spec["cls"]
    zero = np.zeros([1] * nax)
    if cls in ("unit", "cart"):
        cart = list(coords)
    elif cls == "polar":
        cart = [coords[0], zero]
    elif cls == "sph":
        cart = [zero, zero, coords[0]]
    else:
        cart = [coords[0], zero, coords[1]]
    return coords, cart


@st.composite
def field_cases(draw):
    spec = draw(GG.grids(max_cells=6, max_total=64, len_lo=1e-2, len_hi=50.0, offset_mag=50.0))
    cls = spec["cls"]
    rank = draw(st.sampled_from([0, 1, 0, 2, 0, 1]))
    dim = GG.dim_of(spec)
    bounds = GG.axes_bounds(spec)
    axes = AXES[cls][:len(spec["shape"])]
    vs = [{"name": ax, "lo": b[0], "hi": b[1], "n": 0} for ax, b in zip(axes, bounds)]
    use_cart = draw(st.sampled_from([False, False, True]))
    extra_leaves = []
    if use_cart:
        # Cartesian coordinates as indexed constant `cartesian[i]`
        if cls in ("unit", "cart"):
            cr = [tuple(b) for b in bounds]
        elif cls == "polar":
            cr = [tuple(bounds[0]), (0.0, 0.0)]
        elif cls == "sph":
            cr = [(0.0, 0.0), (0.0, 0.0), tuple(bounds[0])]
        else:
            cr = [tuple(bounds[0]), (0.0, 0.0), tuple(bounds[1])]
        for i, r in enumerate(cr):
            extra_leaves.append((f"cartesian#{i}", r))
    cs = draw(G.uconsts())
    n_expr = dim ** rank
    md = 5 if rank == 0 else 3
    asts = []
    for _ in range(n_expr):
        asts.append(draw(_field_ast(vs, cs, extra_leaves, md, 22 if rank == 0 else 8)))
    names = {}
    if cls in ("polar", "sph") and draw(st.booleans()):
        names["r"] = "radius"
    return {"grid": spec, "rank": rank, "asts": asts, "vars": vs, "consts": cs, "names": names,
            "use_cart": use_cart, "shape_seed": draw(st.integers(0, 2**31))}


@st.composite
def _field_ast(draw, vs, cs, extra_leaves, max_depth, budget):
    leaves, ranges = G.leaves_and_ranges(vs, cs)
    for name, r in extra_leaves:
        i = int(name.split("#")[1])
        ranges[name] = r
        leaves.append(["idx", name, i])
    depth = draw(st.sampled_from([d for d in (3, 4, 2, 5, 3, 1) if d <= max_depth]))
    b = G.Builder(draw, leaves, ranges, G.PROFILE_NUMPY, budget)
    if draw(st.sampled_from([False] * 7 + [True])):
        ast = ["cmp", draw(st.sampled_from(G.CMP_OPS)), b.node(depth - 1), b.node(depth - 1)]
    else:
        ast = b.node(depth, root=True)
    return _rename_cart(ast)


def _rename_cart(ast):
    if ast[0] == "idx" and str(ast[1]).startswith("cartesian#"):
        return ["idx", "cartesian", ast[2]]
    return [ast[0]] + [_rename_cart(c) if isinstance(c, list) else c for c in ast[1:]]


def check_field(case):
    spec = case["grid"]
    grid = GG.build_grid(spec)
    rank = case["rank"]
    dim = GG.dim_of(spec)
    coords, cart = grid_coordinates(spec)
    full = tuple(int(n) for n in spec["shape"])
    envd = {v["name"]: c for v, c in zip(case["vars"], coords)}
    # indexed constant `cartesian`: stack of the Cartesian components (first axis = component)
    envd["cartesian"] = np.array([np.broadcast_to(c, full) for c in cart])
    consts = {}
    for c in case["consts"]:
        consts[c["name"]] = float(c["value"]) if "value" in c else \
            G.values_in_range(c["seed"], full, c["lo"], c["hi"])
    texts, alts = [], set()
    for i, a in enumerate(case["asts"]):
        t, al = G.render_info(a, case["shape_seed"] + i, case["names"])
        texts.append(t)
        alts.update(al)
    ufs = {}
    for a in case["asts"]:
        ufs.update(G.user_funcs_of(a))
    kw = dict(consts=dict(consts) or None, user_funcs=ufs or None)
    key = f"field:{spec['cls']}:rank{rank}"
    try:
        with time_limit(SIMPLIFY_LIMIT + 0.5 * len(texts)):
            if rank == 0:
                build = lambda: pde.ScalarField.from_expression(grid, texts[0], **kw)  # noqa: E731
            elif rank == 1:
                build = lambda: pde.VectorField.from_expression(grid, texts, **kw)  # noqa: E731
            else:
                rows = [texts[r * dim:(r + 1) * dim] for r in range(dim)]
                build = lambda: pde.Tensor2Field.from_expression(grid, rows, **kw)  # noqa: E731
            f = run_generated(lambda: accept(build, str(texts), "from_expression"), " ; ".join(texts),
                              "from_expression")
    except _Timeout:
        return {"nt": False, "labels": ["simplify-timeout"]}
    want_shape = (dim,) * rank + full
    if f.data.shape != want_shape:
        raise Violation(f"field data shape {f.data.shape}, expected {want_shape}", key=key + ":shape")
    env_all = dict(envd)
    env_all.update(consts)
    judged, worst = 0, 0.0
    for flat_i, idx in enumerate(np.ndindex(*((dim,) * rank))):
        try:
            res = G.evaluate_ast(case["asts"][flat_i], env_all, shape=full)
        except G.DomainBug as e:
            raise HarnessError(f"generator produced an ill-defined formula: {e}") from None
        try:
            j, w = compare(f.data[idx], res, f"from_expression component {idx}", key, TOLK, text=texts[flat_i])
        except Violation as vio:
            raise attribute_value(vio, texts[flat_i]) from None
        judged += j
        worst = max(worst, w)
    labs = [GG.grid_label(spec), f"rank:{rank}", f"grid:{spec['cls']}:rank{rank}", dev_label(worst)]
    a0 = case["asts"][0]
    if rank == 0:
        labs += ast_labels(a0, alts)
    if any(G.names_in(a, ("idx",)) for a in case["asts"]):
        labs.append("uses:cartesian[i]")
    if case["names"] and any("r" in G.names_in(a) for a in case["asts"]):
        labs.append("uses:alias-radius")
    if any(G.names_in(a, ("uconst",)) for a in case["asts"]):
        labs.append("uses:uconst")
    if not any(G.names_in(a, ("var", "idx")) for a in case["asts"]):
        labs.append("constant-in-space")
    nt = judged > 0 and any(G.depth_of(a) >= 2 and G.names_in(a, ("var", "idx")) for a in case["asts"])
    return {"nt": nt, "labels": labs}


# =========================================================================================
# derivatives
# =========================================================================================
@st.composite
def derivative_cases(draw):
    vs = draw(G.variables(max_vars=3))
    cs = draw(G.uconsts(max_consts=1))
    ast = draw(G.asts(vs, cs, profile=G.PROFILE_SMOOTH, max_depth=3, min_depth=1, budget=9))
    sig = draw(signatures(vs, allow_none=True, allow_alias=False))
    return {
        "ast": ast, "vars": vs, "consts": cs, "sig": sig,
        "shape_seed": draw(st.integers(0, 2**31)),
        "args": {"seed": draw(st.integers(0, 2**31)), "n": draw(st.sampled_from([3, 2, 4, 5])), "layout": "flat"},
        "route": draw(st.sampled_from(["derivatives", "differentiate"])),
        "wrt": draw(st.sampled_from([0, 1, 2])),
    }


def fd_derivative(ast, env_all, name, full):
    """central finite differences of the oracle evaluator with one Richardson step"""
    x = np.asarray(env_all[name], dtype=float)
    h = 2e-5 * (1 + np.abs(x))

    def f(xx):
        e = dict(env_all)
        e[name] = xx
        return G.evaluate_ast(ast, e, shape=full).v

    def cd(hh):
        return (f(x + hh) - f(x - hh)) / (2 * hh)

    def richardson(hh):
        d1, d2 = cd(hh), cd(hh / 2)
        return (4 * d2 - d1) / 3

    # two step sizes: the estimate is only used where both agree (converged); a rapidly oscillating
    # formula (sin(x**8) at x = 3) leaves the finite differences inconclusive
    return richardson(h), richardson(h / 8)


def sympy_derivative_overflows(text, what, args, expr):
    """is the derivative that sympy ALONE produces (diff, simplify, lambdify with numpy) non-finite at the
    arguments?  ``what`` names the variable: ...(d/d<name>) or differentiate('<name>')"""
    import sympy

    m = re.search(r"d/d(\w+)\)", what) or re.search(r"differentiate\('(\w+)'\)", what)
    if not m:
        return False
    try:
        alone = SympyAlone(text, *split_names(text))
        if alone.parsed is None:
            return False
        var = sympy.Symbol(m.group(1))
        syms = [sympy.Symbol(n) for n in expr.vars]
        with time_limit(4 * SIMPLIFY_LIMIT):
            # the ways sympy can be asked for it: one derivative, or the gradient simplified as an array
            cands = [sympy.simplify(sympy.diff(alone.simplified, var))]
            grad = sympy.simplify(sympy.Array([sympy.diff(alone.simplified, v) for v in syms]))
            cands.append(grad[syms.index(var)])
            # (an expression object built from the simplified gradient simplifies it once more)
            cands.append(sympy.simplify(grad)[syms.index(var)])
        for d in cands:
            fn = sympy.lambdify(syms, d, modules="numpy")
            with np.errstate(all="ignore"):
                val = np.asarray(fn(*args), dtype=complex)
            if not np.all(np.isfinite(val)):
                return True
        return False
    except (_Timeout, Exception):  # noqa: BLE001
        return False


def check_derivative(case):
    ast = case["ast"]
    text, alts = G.render_info(ast, case["shape_seed"], case["sig"]["names"])
    try:
        expr, envd, consts, full, dt, _ = make_expression(case, text)
    except _Timeout:
        return {"nt": False, "labels": ["simplify-timeout"]}
    args = call_args(expr, case, envd)
    env_all = dict(envd)
    env_all.update(consts)
    route = case["route"]
    extra = [f"route:{route}"]
    judged, worst = 0, 0.0
    vs = case["vars"]

    def oracle_d(name):
        try:
            res = G.evaluate_ast(ast, env_all, wrt=name, shape=full)
            fd = fd_derivative(ast, env_all, name, full)
        except G.DomainBug as e:
            raise HarnessError(f"generator produced an ill-defined formula: {e}") from None
        # harness self-check: forward mode against finite differences of the same evaluator
        fd, fd_fine = fd
        lim = 1e-4 * (res.DE + np.abs(res.d)) + 1e-6
        converged = np.abs(fd - fd_fine) <= 0.1 * lim
        if np.any(converged & (np.abs(fd_fine - res.d) > lim)):
            raise HarnessError(f"oracle derivative inconsistent with finite differences for {ast!r}")
        if not converged.all():
            extra.append("fd-self-check-inconclusive")
        return res

    def cmp_d(got, res, what):
        nonlocal judged, worst
        g = np.asarray(got)
        try:
            g = np.broadcast_to(g, full).astype(float)
        except (ValueError, TypeError):
            raise Violation(f"{what}: result {got!r} does not fit shape {full} for `{text}`",
                            key=f"derivative:{route}:shape") from None
        tol = 1e-9 * (res.DE + np.abs(res.d)) + 1e-12
        dev = np.abs(g - res.d)
        if not np.all(np.isfinite(g)) and np.all(np.isfinite(res.d)) and sympy_derivative_overflows(text, what, args, expr):
            raise Rejected("the derivative as sympy alone writes it (diff + simplify, lambdified) overflows at this "
                           "point as well (inf/inf): representation chosen by the third-party library")
        if not np.all(dev <= tol):
            i = int(np.argmax(dev / tol))
            raise Violation(
                f"{what} of `{text}`: got {g.flat[i]!r}, derivative of the formula {res.d.flat[i]!r} "
                f"(tolerance {tol.flat[i]:.3g})", key=f"derivative:{route}:{root_kind(ast)}")
        judged += g.size
        worst = max(worst, float(np.max(dev / tol)))

    try:
        with time_limit(3 * SIMPLIFY_LIMIT):
            if route == "differentiate":
                if not expr.vars:
                    return {"nt": False, "labels": ["constant-expression"]}
                name = expr.vars[case["wrt"] % len(expr.vars)]
                dexpr = expr.differentiate(name)
                if not isinstance(dexpr, ScalarExpression) or list(dexpr.vars) != list(expr.vars):
                    raise Violation(f"differentiate({name!r}) returned {dexpr!r} (vars of the original: "
                                    f"{expr.vars})", key="derivative:differentiate:type")
                if name in envd:
                    res = oracle_d(name)
                    cmp_d(dexpr(*args), res, f"differentiate({name!r})")
                    extra.append("wrt:used-variable" if name in G.names_in(ast) else "wrt:absent-variable")
                else:  # extra variable of the signature: derivative is zero
                    got = np.asarray(dexpr(*args), dtype=float)
                    if np.any(got != 0):
                        raise Violation(f"derivative w.r.t. unused variable {name!r} of `{text}` is {got!r}",
                                        key="derivative:differentiate:unused")
                    extra.append("wrt:unused-signature-variable")
                    judged += 1
            else:
                grad = expr.derivatives
                if not isinstance(grad, TensorExpression) or tuple(grad.shape) != (len(expr.vars),):
                    raise Violation(f"derivatives of `{text}` has shape {getattr(grad, 'shape', None)} for "
                                    f"vars {expr.vars}", key="derivative:derivatives:shape")
                got = np.asarray(grad(*args)) if expr.vars else np.zeros((0,))
                for i, name in enumerate(expr.vars):
                    if name in envd:
                        cmp_d(got[i], oracle_d(name), f"derivatives[{i}] (d/d{name})")
                    elif np.any(np.asarray(got[i], dtype=float) != 0):
                        raise Violation(f"derivatives[{i}] w.r.t. unused variable {name!r} of `{text}` is "
                                        f"{got[i]!r}", key="derivative:derivatives:unused")
    except _Timeout:
        return {"nt": False, "labels": ["simplify-timeout", f"route:{route}"]}
    labs = ast_labels(ast, alts) + extra + [f"sig:{case['sig']['mode']}", f"nvars:{len(vs)}"]
    nt = judged > 0 and G.depth_of(ast) >= 2 and bool(G.names_in(ast))
    return {"nt": nt, "labels": labs}


# =========================================================================================
# parse_number
# =========================================================================================
@st.composite
def number_cases(draw):
    vs = draw(G.variables(min_vars=0, max_vars=3, names=["x", "y", "z", "t", "a", "b", "c", "dt", "L"]))
    ast = draw(G.asts(vs, [], profile=G.PROFILE_SYMPY, max_depth=4, budget=14))
    return {"ast": ast, "vars": vs, "seed": draw(st.integers(0, 2**31)),
            "shape_seed": draw(st.integers(0, 2**31)),
            "as_number": draw(st.sampled_from([False] * 15 + [True]))}


def check_number(case):
    ast = case["ast"]
    envd = {}
    for i, v in enumerate(case["vars"]):
        envd[v["name"]] = float(G.values_in_range(case["seed"] + i, (), v["lo"], v["hi"]))
    try:
        res = G.evaluate_ast(ast, envd, shape=())
    except G.DomainBug as e:
        raise HarnessError(f"generator produced an ill-defined formula: {e}") from None
    if case["as_number"]:
        v = float(res.v)
        got = parse_number(v)
        # the number goes through str() and sympy's 15-digit Float: equal to round-off, not bitwise
        if isinstance(got, complex) or abs(got - v) > 4 * G.EPS * abs(v):
            raise Violation(f"parse_number({v!r}) returned {got!r}", key="number:passthrough")
        return {"nt": False, "labels": ["number-passthrough"]}
    text, alts = G.render_info(ast, case["shape_seed"])
    try:
        with time_limit(SIMPLIFY_LIMIT):
            got = accept(lambda: parse_number(text, envd if envd or case["seed"] % 2 else None), text,
                         "parse_number")
    except _Timeout:
        return {"nt": False, "labels": ["simplify-timeout"]}
    except (Violation, Rejected, HarnessError):
        if res.bad.any():
            return {"nt": False, "labels": ["masked-near-jump", "loud-at-jump"]}
        raise
    except Exception:  # noqa: BLE001
        # the point lies within round-off of a jump (floor(-2/tanh(729)): -2 in floating point, -3 for
        # sympy, which gives up with PrecisionExhausted): the formula is ill-conditioned there, not judged
        if res.bad.any():
            return {"nt": False, "labels": ["masked-near-jump", "loud-at-jump"]}
        raise
    if isinstance(got, complex):
        if abs(got.imag) <= 64 * G.EPS * abs(got.real):
            # an imaginary part at round-off level: does sympy's own evalf produce it for this text?
            try:
                alone = SympyAlone(text, *split_names(text))
                import sympy

                val = complex(alone.parsed.evalf(subs={sympy.Symbol(k): v for k, v in envd.items()}))
                own = val.imag != 0
            except Exception:  # noqa: BLE001
                own = False
            if own:
                raise Rejected("sympy's evalf alone returns an imaginary part at round-off level for this real text "
                               "[artefact of the third-party library, the value is right]")
        raise Violation(f"parse_number(`{text}`, {envd}) returned the complex number {got!r}",
                        key="number:complex")
    judged, worst = compare(got, res, "parse_number", f"number:{root_kind(ast)}", TOLK,
                            text=f"{text} with {envd}")
    labs = ast_labels(ast, alts) + [f"nvars:{len(envd)}", dev_label(worst)]
    if res.exact_jumps:
        labs.append("exact-jump-hit")
    return {"nt": bool(judged) and G.depth_of(ast) >= 2 and any(k in G.NONCOMM for k in G.kinds_of(ast)),
            "labels": labs}


# =========================================================================================
# evaluate(expression, fields)
# =========================================================================================
FIELD_NAMES = ["c", "u", "v", "phi", "a", "b", "s", "rho", "c1", "n_A"]


@st.composite
def evaluate_cases(draw, jit=False):
    spec = draw(GG.grids(max_cells=5, max_total=48, len_lo=1e-2, len_hi=50.0, offset_mag=50.0))
    cls = spec["cls"]
    axes = AXES[cls][:len(spec["shape"])]
    bounds = GG.axes_bounds(spec)
    nf = draw(st.sampled_from([2, 1, 3]))
    names = [n for n in draw(st.permutations(FIELD_NAMES)) if n not in axes][:nf]
    fields = []
    for n in names:
        lo, hi = draw(st.sampled_from([(-2.0, 2.0), (0.0, 1.0), (0.5, 3.0), (-1.0, 1.0), (-5.0, 5.0)]))
        fields.append({"name": n, "lo": lo, "hi": hi, "n": 0, "seed": draw(st.integers(0, 2**31))})
    use_coords = draw(st.booleans())
    vs = list(fields)
    if use_coords:
        vs += [{"name": ax, "lo": b[0], "hi": b[1], "n": 0} for ax, b in zip(axes, bounds)]
    cs = draw(G.uconsts())
    # erf (scipy ufunc) cannot be compiled by numba: numpy route only
    prof = dict(G.PROFILE_FIELDS, erf=False) if jit else G.PROFILE_FIELDS
    ast = draw(G.asts(vs, cs, profile=prof, max_depth=4, budget=16, cmp_top=False))
    return {"grid": spec, "fields": fields, "vars": vs, "consts": cs, "ast": ast,
            "use_coords": use_coords, "as_collection": draw(st.booleans()),
            "shape_seed": draw(st.integers(0, 2**31)), "label": draw(st.sampled_from([None, "res", "ρ"]))}


def check_evaluate(case, backend="numpy", tolk=TOLK):
    spec = case["grid"]
    grid = GG.build_grid(spec)
    full = tuple(int(n) for n in spec["shape"])
    coords, _ = grid_coordinates(spec)
    ast = case["ast"]
    envd = {}
    fobjs = {}
    for f in case["fields"]:
        data = G.values_in_range(f["seed"], full, f["lo"], f["hi"])
        envd[f["name"]] = data
        fobjs[f["name"]] = pde.ScalarField(grid, data.copy(), label=f["name"])
    if case["use_coords"]:
        for ax, c in zip(AXES[spec["cls"]], coords):
            envd[ax] = c
    consts = {}
    for c in case["consts"]:
        consts[c["name"]] = float(c["value"]) if "value" in c else \
            G.values_in_range(c["seed"], full, c["lo"], c["hi"])
    text, alts = G.render_info(ast, case["shape_seed"])
    ufs = G.user_funcs_of(ast)
    fields = pde.FieldCollection(list(fobjs.values())) if case["as_collection"] else fobjs
    def call():
        return run_generated(lambda: accept(
            lambda: evaluate(text, fields, consts=dict(consts) or None, user_funcs=ufs or None,
                             backend=backend, label=case["label"]), text, "evaluate"), text, "evaluate")

    try:
        if backend == "numpy":
            with time_limit(SIMPLIFY_LIMIT):
                out = call()
        else:
            # never interrupt a JIT compilation with the alarm (it leaves LLVM in a broken state):
            # only the sympy part is time-limited, by parsing the text once beforehand
            with time_limit(SIMPLIFY_LIMIT):
                ScalarExpression(text, user_funcs=ufs or None, consts=dict(consts) or None)
            out = call()
    except _Timeout:
        return {"nt": False, "labels": ["simplify-timeout"]}
    key = f"evaluate:{backend}:{root_kind(ast)}"
    if not isinstance(out, pde.ScalarField) or out.grid != grid:
        raise Violation(f"evaluate(`{text}`) returned {out!r}", key=key + ":type")
    if out.label != case["label"]:
        raise Violation(f"evaluate(..., label={case['label']!r}) returned label {out.label!r}", key=key + ":label")
    for name, fo in fobjs.items():
        if not np.array_equal(fo.data, envd[name]):
            raise Violation(f"evaluate(`{text}`) modified the input field {name}", key=key + ":input-modified")
    env_all = dict(envd)
    env_all.update(consts)
    try:
        res = G.evaluate_ast(ast, env_all, shape=full)
    except G.DomainBug as e:
        raise HarnessError(f"generator produced an ill-defined formula: {e}") from None
    try:
        judged, worst = compare(out.data, res, f"evaluate/{backend}", key, tolk, shape_exact=full, text=text)
    except Violation as vio:
        raise attribute_value(vio, text) from None
    labs = ast_labels(ast, alts) + [GG.grid_label(spec), f"nfields:{len(fobjs)}", dev_label(worst),
                                    "collection" if case["as_collection"] else "dict"]
    used = G.names_in(ast)
    if case["use_coords"] and used & set(AXES[spec["cls"]]):
        labs.append("uses:coordinates")
    if G.names_in(ast, ("uconst",)):
        labs.append("uses:uconst")
    nt = bool(judged) and G.depth_of(ast) >= 2 and bool(used & set(fobjs))
    return {"nt": nt, "labels": labs}


def check_evaluate_jit(case):
    return check_evaluate(case, backend="numba", tolk=TOLK_JIT)


# =========================================================================================
# repaired defects: Mod as factor of a product with negative coefficient ("-3*(x % 2)" was compiled to
# "-3*x % 2") and Mod with a reciprocal divisor ("w % (1/u)" was compiled to "w % 1/u"); kept as an
# aimed sub-check because these shapes are rare in the random ASTs
# =========================================================================================
KNOWN_MOD_KEY = "C11:lambdify-printer:negative-product-with-Mod"


@st.composite
def known_mod_cases(draw):
    return {"pattern": draw(st.sampled_from(["-k*(x % m)", "(x % m)*(-y)", "(x % m) - k*(x % m)",
                                             "-y*Abs(x % m)", "y - k*y*Mod(x, m)", "x % (1/y)",
                                             "Mod(x, 1/(y + m))"])),
            "k": draw(st.sampled_from([3, 2.5, 2, 7])), "m": draw(st.sampled_from([2, 3, 1.5, 0.5])),
            "x": draw(st.integers(-400, 400)) / 100.0 + 0.003, "y": draw(st.integers(50, 300)) / 100.0,
            "backend": draw(st.sampled_from(["numpy", "numpy", "numpy", "numba"]))}


def check_known_mod(case):
    k, m, x, y = case["k"], case["m"], float(case["x"]), float(case["y"])
    pat = case["pattern"]
    text = pat.replace("k*", f"{k!r}*").replace(" m)", f" {m!r})")
    if "1/" in pat and abs(x * (y + m if "+" in pat else y) - round(x * (y + m if "+" in pat else y))) < 1e-6:
        return {"nt": False, "labels": ["quotient-at-jump"]}
    mod = x - m * math.floor(x / m)
    want = {"-k*(x % m)": -k * mod, "(x % m)*(-y)": -y * mod, "(x % m) - k*(x % m)": mod - k * mod,
            "-y*Abs(x % m)": -y * abs(mod), "y - k*y*Mod(x, m)": y - k * y * mod,
            "x % (1/y)": x - (1 / y) * math.floor(x / (1 / y)),
            "Mod(x, 1/(y + m))": x - (1 / (y + m)) * math.floor(x / (1 / (y + m)))}[pat]
    expr = ScalarExpression(text, signature=["x", "y"])
    f = expr if case["backend"] == "numpy" else expr.get_function("numba")
    got = float(f(x, y))
    if abs(got - want) > 1e-12 * (1 + abs(want) + k * m * y):
        raise Violation(f"`{text}` at x={x}, y={y} evaluates to {got!r}; the written formula gives {want!r} "
                        f"({case['backend']} route)", key=KNOWN_MOD_KEY)
    return {"nt": True, "labels": [f"pattern:{pat}", case["backend"]]}


# =========================================================================================
# point-wise fall-back of ScalarField.from_expression (after missed seed C11-3): expressions that
# cannot be evaluated with array arguments (python `if` inside a user function, Piecewise, sign) are
# evaluated cell by cell; the value of every cell must be the value of the written formula, whatever
# python type the formula returns at the first cell (an integer literal/branch must not decide the
# type of the other cells)
# =========================================================================================
# name, text template, value, error scale (F: value of the branching term, E: its error scale, X:
# coordinate of the last axis)
PW_WRAPS = {
    "F": ("{F}", lambda F, X: F, lambda E, F, X: E),
    "2*F": ("2*{F}", lambda F, X: 2 * F, lambda E, F, X: 2 * E),
    "F + 1": ("{F} + 1", lambda F, X: F + 1, lambda E, F, X: E + 1),
    "3*F - 2": ("3*{F} - 2", lambda F, X: 3 * F - 2, lambda E, F, X: 3 * E + 2),
    "-F": ("-{F}", lambda F, X: -F, lambda E, F, X: E),
    "F**2": ("{F}**2", lambda F, X: F ** 2, lambda E, F, X: (np.abs(F) + E) ** 2),
    "F + X": ("{F} + {X}", lambda F, X: F + X, lambda E, F, X: E + np.abs(X)),
    "X*F": ("{X}*{F}", lambda F, X: X * F, lambda E, F, X: np.abs(X) * E),
    "0.5*F": ("0.5*{F}", lambda F, X: 0.5 * F, lambda E, F, X: E),
    "F/4": ("{F}/4", lambda F, X: F / 4, lambda E, F, X: E),
}
PW_WEIGHTS = [1, -1, 2, 0.5]


@st.composite
def pointwise_cases(draw):
    spec = draw(GG.grids(min_cells=2, max_cells=5, max_total=40, len_lo=1e-2, len_hi=50.0, offset_mag=50.0))
    nax = len(spec["shape"])
    return {
        "grid": spec,
        "kind": draw(st.sampled_from(["userfunc", "piecewise", "userfunc", "piecewise", "userfunc", "sign"])),
        "nargs": draw(st.sampled_from([1, 2])) if nax >= 2 else 1,
        "first_axis": draw(st.integers(0, nax - 1)),
        "weights": [draw(st.sampled_from(PW_WEIGHTS)), draw(st.sampled_from(PW_WEIGHTS))],
        "combined": draw(st.booleans()),  # user function of the combined argument / of the coordinates
        "thr_pick": draw(st.integers(0, 40)),
        "first_int": draw(st.sampled_from([True, True, False])),
        "ival": draw(st.sampled_from([0, 1, -2, 3, 0])),
        "num": draw(st.sampled_from([1, 3, -2, 7])), "den": draw(st.sampled_from([4, 3, 8, 7])),
        "b": draw(st.sampled_from([0.0, 0.125, -0.3, 1.7])),
        "pw_order": draw(st.booleans()),
        "wrap": draw(st.sampled_from(list(PW_WRAPS))),
    }


def check_pointwise(case):
    spec = case["grid"]
    grid = GG.build_grid(spec)
    full = tuple(int(n) for n in spec["shape"])
    axes = AXES[spec["cls"]][:len(full)]
    coords, _ = grid_coordinates(spec)
    coords = [np.array(np.broadcast_to(c, full), dtype=float) for c in coords]
    kind, wrap = case["kind"], case["wrap"]
    # argument s = w0*c_i (+ w1*c_j): the weights are powers of two, so s is computed exactly alike
    # by every route
    i0 = int(case["first_axis"]) % len(full)
    used = [i0] + ([(i0 + 1) % len(full)] if int(case["nargs"]) == 2 else [])
    ws = [case["weights"][k] for k in range(len(used))]
    s = sum(w * coords[i] for w, i in zip(ws, used))
    s_text = " + ".join(f"({w!r})*{axes[i]}" for w, i in zip(ws, used))
    # threshold: middle of a gap between the sorted values of s (far from every cell compared with
    # round-off), or below all of them
    u = np.unique(s)
    scale = float(np.max(np.abs(u))) + 1.0
    cands = [float(0.5 * (lo + hi)) for lo, hi in zip(u[:-1], u[1:]) if hi - lo > 1e-7 * scale]
    cands.append(float(u[0]) - 1.0)
    thr = cands[int(case["thr_pick"]) % len(cands)]
    first = tuple([0] * len(full))
    below0 = bool(s[first] < thr)
    below = below0 if case["first_int"] else not below0  # integer branch: s < thr (or s >= thr)
    ival, num, den, b = int(case["ival"]), int(case["num"]), int(case["den"]), float(case["b"])

    def core(sv):
        if below:
            if sv < thr:
                return ival
        elif sv >= thr:
            return ival
        return num * sv / den + b

    user_funcs = None
    if kind == "userfunc":
        if case["combined"]:
            user_funcs = {"f": core}
            f_text = f"f({s_text})"
        else:
            def f_coords(*cs):
                return core(sum(w * c for w, c in zip(ws, cs)))

            user_funcs = {"f": f_coords}
            f_text = "f(" + ", ".join(axes[i] for i in used) + ")"
    elif kind == "piecewise":
        fl_text = f"{num}*({s_text})/{den} + {b!r}"
        if below:
            f_text = f"Piecewise(({ival}, {s_text} < {thr!r}), ({fl_text}, True))"
        elif case["pw_order"]:
            f_text = f"Piecewise(({ival}, {s_text} >= {thr!r}), ({fl_text}, True))"
        else:
            f_text = f"Piecewise(({fl_text}, {s_text} < {thr!r}), ({ival}, True))"
    elif kind == "sign":
        f_text = f"sign({s_text} - {thr!r})"
    else:
        raise HarnessError(kind)
    template, wfun, wscale = PW_WRAPS[wrap]
    x_last = coords[-1]
    text = template.format(F=f_text, X=axes[len(full) - 1])

    # independent evaluation, one cell after the other, in float64
    F = np.empty(full, dtype=np.float64)
    is_int = np.zeros(full, dtype=bool)
    for idx in np.ndindex(*full):
        sv = float(s[idx])
        if kind == "sign":
            F[idx] = -1.0 if sv < thr else 1.0
        else:
            is_int[idx] = (sv < thr) if below else (sv >= thr)
            F[idx] = float(ival) if is_int[idx] else num * sv / den + b
    e_s = sum(abs(w) * np.abs(coords[i]) for w, i in zip(ws, used))
    if kind == "sign":
        # sympy.simplify rewrites sign(u) + X as (X*|u| + u)/|u| with u = s - thr expanded: the round-off
        # of u (eps*(|s| + |thr|)) is then divided by |u|
        E = 1.0 + (e_s + abs(thr)) / np.abs(s - thr)
    else:
        E = abs(num / den) * e_s + abs(b) + abs(ival)
    want = wfun(F, x_last)
    tol = TOLK * G.EPS * (wscale(E, F, x_last) + np.abs(want)) + 1e-300

    first_cls = "sign" if kind == "sign" else ("int" if is_int[first] else "float")
    key = f"pointwise:{kind}:first-cell-{first_cls}"
    try:
        with time_limit(SIMPLIFY_LIMIT):
            fld = run_generated(lambda: accept(
                lambda: pde.ScalarField.from_expression(grid, text, user_funcs=user_funcs), text,
                "from_expression"), text, "from_expression(point-wise)")
    except _Timeout:
        return {"nt": False, "labels": ["simplify-timeout"]}
    data = fld.data
    if data.shape != full:
        raise Violation(f"field data shape {data.shape}, expected {full} for `{text}`", key=key + ":shape")
    if data.dtype != np.float64:
        raise Violation(f"from_expression(`{text}`) gave a field of dtype {data.dtype} for a real-valued "
                        "formula with non-integer values", key=key + ":dtype")
    dev = np.abs(data - want)
    if not np.all(dev <= tol):
        i = np.unravel_index(int(np.argmax(np.where(dev <= tol, 0, dev / tol))), full)
        what = f"f = {{{'s < ' if below else 's >= '}{thr!r}: {ival}, else: {num}*s/{den} + {b!r}}}, s = {s_text}; " \
            if kind == "userfunc" else ""
        raise Violation(
            f"from_expression(`{text}`) on {GG.grid_label(spec)} {spec}: {what}cell {tuple(int(j) for j in i)} "
            f"(coordinates {[float(c[i]) for c in coords]}) has value {data[i]!r}, the formula gives {want[i]!r}; "
            f"value of the first cell {data[first]!r} ({first_cls} branch); {int((dev > tol).sum())} of "
            f"{data.size} cells differ", key=key)
    labs = [f"kind:{kind}", f"wrap:{wrap}", f"first-cell:{first_cls}", GG.grid_label(spec),
            f"nargs:{len(used)}"]
    mixed = kind != "sign" and is_int.any() and not is_int.all()
    labs.append("both-branches" if mixed or (kind == "sign" and len(np.unique(F)) > 1) else "single-branch")
    fractional = bool(np.any(want != np.round(want)))
    if kind == "userfunc":
        labs.append("f(combined)" if case["combined"] else "f(coordinates)")
    if mixed and is_int[first] and fractional and wrap in ("F", "2*F", "F + 1", "3*F - 2", "-F", "F**2"):
        labs.append("first-cell-python-int+fractional-cells")
    return {"nt": bool(mixed and fractional), "labels": labs}


# =========================================================================================
# repeated get_function requests on ONE expression object with different per-request user
# functions (after missed seed C11-4): every returned function evaluates the formula with the
# user functions of ITS request, also after later requests
# =========================================================================================
def _uf_lin(x):
    return 0.5 * x - 1.0


def _uf_g(x):
    return 1.0 / (1.0 + x * x)


REQ_FUNCS = {"sin": np.sin, "cos": np.cos, "tanh": np.tanh, "sq": lambda x: x ** 2, "lin": _uf_lin}
# text, variables, needs g at construction, value(F, g, x, y) -> list of components (flat)
GF_SCALAR = {
    "2*f(x) + x": (["x"], False, lambda F, g, x, y: 2 * F(x) + x),
    "f(x)*y - f(y)": (["x", "y"], False, lambda F, g, x, y: F(x) * y - F(y)),
    "f(f(x)) + y": (["x", "y"], False, lambda F, g, x, y: F(F(x)) + y),
    "f(x + y)/(2 + f(x)**2)": (["x", "y"], False, lambda F, g, x, y: F(x + y) / (2 + F(x) ** 2)),
    "f(2*x - y)": (["x", "y"], False, lambda F, g, x, y: F(2 * x - y)),
    "g(x)*f(y) - x": (["x", "y"], True, lambda F, g, x, y: g(x) * F(y) - x),
    "f(x)**2 - f(y)*g(x)": (["x", "y"], True, lambda F, g, x, y: F(x) ** 2 - F(y) * g(x)),
    "g(f(x)) + f(g(y))": (["x", "y"], True, lambda F, g, x, y: g(F(x)) + F(g(y))),
}
GF_TENSOR = {
    "[f(x), x*f(y)]": (["x", "y"], False, [2], lambda F, g, x, y: [F(x), x * F(y)]),
    "[[f(x), y], [f(y) - x, f(x)*f(y)]]": (["x", "y"], False, [2, 2],
                                            lambda F, g, x, y: [F(x), y, F(y) - x, F(x) * F(y)]),
    "[f(x) + g(y), y*f(x), f(f(y))]": (["x", "y"], True, [3],
                                       lambda F, g, x, y: [F(x) + g(y), y * F(x), F(F(y))]),
}


@st.composite
def get_function_cases(draw, backend="numpy"):
    cls = draw(st.sampled_from(["scalar", "scalar", "tensor"]))
    form = draw(st.sampled_from(list(GF_SCALAR if cls == "scalar" else GF_TENSOR)))
    names = draw(st.permutations(sorted(REQ_FUNCS)))
    a, b, c = names[:3]
    sa = draw(st.sampled_from([False, False, True]))
    # first function, a different one, the first one again; then possibly more requests
    reqs = [[a, sa], [b, sa], [a, sa]]
    for _ in range(draw(st.sampled_from([0, 0, 1, 2])) if backend == "numpy" else 0):
        reqs.append([draw(st.sampled_from([a, b, c])), draw(st.sampled_from([sa, sa, not sa]))])
    return {"cls": cls, "form": form, "requests": reqs, "backend": backend,
            "style": draw(st.sampled_from(["positional", "keyword"])),
            "none_first": draw(st.sampled_from([False, False, False, True])),
            "seed": draw(st.integers(0, 2**31)), "n": draw(st.sampled_from([3, 1, 4, 2])),
            "layout": draw(st.sampled_from(["array", "array", "scalar"]))}


def check_get_function_twice(case):
    backend = case["backend"]
    scalar = case["cls"] == "scalar"
    form = case["form"]
    if scalar:
        vs, needs_g, vfun = GF_SCALAR[form]
        tshape = ()
    else:
        vs, needs_g, tshape, vfun = GF_TENSOR[form]
        tshape = tuple(tshape)
    shape = () if case["layout"] == "scalar" else (int(case["n"]),)
    x = G.values_in_range(int(case["seed"]), shape, 0.2, 1.5)
    y = G.values_in_range(int(case["seed"]) + 7, shape, 0.2, 1.5)
    x, y = (float(x), float(y)) if shape == () else (x, y)
    kw = {"user_funcs": {"g": _uf_g}} if needs_g else {}
    cls = ScalarExpression if scalar else TensorExpression
    with time_limit(SIMPLIFY_LIMIT):
        expr = accept(lambda: cls(form, signature=vs, **kw), form, cls.__name__)
    tolk = TOLK if backend == "numpy" else TOLK_JIT
    key = f"get_function-repeated:{backend}:{case['cls']}"

    def call(fn, args, what, fname, history):
        try:
            return fn(*args)
        except Exception as e:  # noqa: BLE001
            if re.search(r"name 'f'", str(e)):
                raise Violation(
                    f"{what}: the function for `{form}` requested with user_funcs={{'f': {fname}}} fails with "
                    f"{type(e).__name__}: {str(e).strip().splitlines()[0][:200]} (f is not bound); requests on this "
                    f"expression object so far: {history}", key=key + ":user-function-not-bound") from None

            if isinstance(e, AssertionError) and backend == "numba" and not scalar and shape != ():
                # numba cannot lower a list literal whose items are arrays of different memory layouts (a
                # row unpacked from the single argument array next to a computed array): the assertion
                # `fromty.dtype == toty.dtype` in numba/cpython/listobj.py fails while compiling - a loud
                # limitation of the third-party compiler for TensorExpression.get_function('numba',
                # single_arg=True) with array arguments, counted and not judged
                tb = e.__traceback__
                while tb.tb_next is not None:
                    tb = tb.tb_next
                if tb.tb_frame.f_code.co_filename.replace("\\", "/").endswith("numba/cpython/listobj.py"):
                    raise Rejected("numba cannot lower a list of arrays with different layouts "
                                   "(TensorExpression, single_arg, array arguments)") from None

            def reraise(exc=e):
                raise exc

            return run_generated(reraise, form, what)  # classification of the other exceptions

    def evaluate_fn(fn, sa, what, fname, history):
        args = [x, y][:len(vs)]
        if sa:
            got = call(fn, [np.array(args, dtype=float)], what, fname, history)
        else:
            got = call(fn, args, what, fname, history)
        if backend == "numba" and not scalar:
            got = np.array(got)  # (nested) lists
        got = np.asarray(got)
        if got.shape != tshape + shape:
            raise Violation(f"{what}: `{form}` returned shape {got.shape}, expected {tshape + shape}",
                            key=key + ":shape")
        return got.reshape((-1,) + shape) if tshape else got[None]

    def judge(got, fname, what, history):
        F = REQ_FUNCS[fname]
        want = vfun(F, _uf_g, x, y)
        want = np.array([np.broadcast_to(np.asarray(w, dtype=float), shape) for w in (want if tshape else [want])])
        # all sub-terms are bounded by 10 on the argument domain [0.2, 1.5]
        tol = tolk * G.EPS * 10.0
        dev = np.abs(got - want)
        if not np.all(dev <= tol):
            # which user function was used instead?
            used = [n for n in sorted(REQ_FUNCS) if np.all(np.abs(got - np.array(
                [np.broadcast_to(np.asarray(w, dtype=float), shape)
                 for w in (vfun(REQ_FUNCS[n], _uf_g, x, y) if tshape else [vfun(REQ_FUNCS[n], _uf_g, x, y)])]))
                <= tol)]
            raise Violation(
                f"{what}: the function for `{form}` requested with user_funcs={{'f': {fname}}} returns "
                f"{got.tolist()!r} at x={np.asarray(x).tolist()}, y={np.asarray(y).tolist()}; the formula with "
                f"f={fname} gives {want.tolist()!r}" + (f" (this is the formula with f={used[0]})" if used else "")
                + f"; requests on this expression object so far: {history}", key=key)

    def request(fname, sa):
        ufs = None if fname is None else {"f": REQ_FUNCS[fname]}
        if case["style"] == "positional":
            return expr.get_function(backend, single_arg=sa, user_funcs=ufs)
        return expr.get_function(backend=backend, user_funcs=ufs, single_arg=sa)

    history = []
    if case["none_first"]:
        # a request without user functions (the function cannot be evaluated since f is undefined)
        request(None, case["requests"][0][1])
        history.append(["<no user_funcs>", case["requests"][0][1]])
    fns = []
    for k, (fname, sa) in enumerate(case["requests"]):
        fn = request(fname, bool(sa))
        history.append([fname, bool(sa)])
        fns.append(fn)
        judge(evaluate_fn(fn, sa, f"{backend}/request {k}", fname, history), fname, f"request {k}", history)
    # the functions handed out earlier keep their meaning
    for k, ((fname, sa), fn) in enumerate(zip(case["requests"], fns)):
        judge(evaluate_fn(fn, sa, f"{backend}/request {k} (again)", fname, history), fname,
              f"request {k}, evaluated after all requests", history)
    labs = [f"cls:{case['cls']}", f"form:{form}", f"requests:{len(case['requests'])}", f"layout:{case['layout']}",
            f"style:{case['style']}", "single_arg" if case["requests"][0][1] else "separate-args",
            "g-at-construction" if needs_g else "f-only"]
    if case["none_first"]:
        labs.append("first-request-without-user_funcs")
    if len({bool(r[1]) for r in case["requests"]}) > 1:
        labs.append("mixed-single_arg")
    return {"nt": True, "key": [form, case["requests"], case["layout"], case["style"]], "labels": labs}


# =========================================================================================
NT_VALUE = ("non-trivial = AST depth >= 3 with a non-commutative operator nested in another and >= 1 "
            "judged point")

# =========================================================================================
# sinc (after missed seed C11-7: the printers wrote sympy's sinc(x) = sin(x)/x as numpy's normalised
# sinc(x) = sin(pi x)/(pi x)).  The unchanged tree evaluates sinc for scalar arguments only (arrays are a loud
# ValueError from sympy's conditional printing), so this family is judged with scalars.
# =========================================================================================
SINC_FORMS = {
    "sinc(x)": lambda x, y: np.sinc(x / np.pi),
    "sinc(2*x) + y": lambda x, y: np.sinc(2 * x / np.pi) + y,
    "x*sinc(x - y)": lambda x, y: x * np.sinc((x - y) / np.pi),
    "sinc(x)**2 - sinc(y)": lambda x, y: np.sinc(x / np.pi) ** 2 - np.sinc(y / np.pi),
    "sinc(x*y)/(1 + y**2)": lambda x, y: np.sinc(x * y / np.pi) / (1 + y ** 2),
    "exp(-sinc(x + 0.5))": lambda x, y: np.exp(-np.sinc((x + 0.5) / np.pi)),
}


def sinc_cases():
    return st.fixed_dictionaries({"form": st.sampled_from(sorted(SINC_FORMS)),
                                  "x": st.sampled_from([0.7, -1.3, 2.0, 3.5, 0.25, -4.0, 1.0]),
                                  "y": st.sampled_from([0.4, -0.6, 1.5, 2.25, -2.0]),
                                  "route": st.sampled_from(["call", "get_function:numpy", "get_function:numba", "field"])})


def check_sinc(case):
    form, x, y = case["form"], float(case["x"]), float(case["y"])
    want = float(SINC_FORMS[form](x, y))
    route = case["route"]
    with time_limit(SIMPLIFY_LIMIT):
        expr = accept(lambda: ScalarExpression(form, signature=["x", "y"]), form, "ScalarExpression")
    if route == "call":
        got = run_generated(lambda: expr(x, y), form, "sinc/call")
    elif route.startswith("get_function"):
        f = expr.get_function(route.split(":")[1])
        got = run_generated(lambda: f(x, y), form, "sinc/" + route)
    else:
        # ScalarField.from_expression: the point-wise fall-back evaluates cell by cell
        grid = pde.UnitGrid([3])
        text = form.replace("y", f"({y!r})")  # (in parentheses: `-0.6**2` is -(0.6**2); false alarm at VERIF_SEED=2)
        fld = run_generated(lambda: accept(lambda: pde.ScalarField.from_expression(grid, text), text, "from_expression"),
                            text, "sinc/field")
        xs = grid.cell_coords[..., 0]
        wants = np.array([SINC_FORMS[form](float(v), y) for v in xs])
        if not np.allclose(fld.data, wants, rtol=0, atol=64 * G.EPS * 8):
            raise Violation(f"from_expression(`{text}`) gave {fld.data.tolist()!r}, the formula (sinc(u) = sin(u)/u) gives "
                            f"{wants.tolist()!r}", key="sinc:field")
        return {"nt": True, "labels": ["route:field", f"form:{form}"]}
    got = complex(got)
    if abs(got - want) > 64 * G.EPS * 8:
        raise Violation(f"{route}: `{form}` at x={x}, y={y} gave {got!r}, the formula (sinc(u) = sin(u)/u) gives {want!r}",
                        key="sinc:" + route.split(":")[0])
    return {"nt": True, "labels": [f"route:{route}", f"form:{form}"]}


SUBCHECKS = [
    SubCheck("sinc_scalar_arguments", strategy=sinc_cases, check=check_sinc, mode="pure",
             budget={"quick": 60, "thorough": 400}, shards={"quick": 1, "thorough": 1},
             rule="expressions with sinc at scalar arguments through __call__, get_function (numpy, numba compiled) and "
                  "the point-wise fall-back of from_expression; every case is non-trivial"),
    SubCheck("value_numpy",
             strategy=lambda: scalar_cases(G.PROFILE_NUMPY, routes=("call", "call", "get_function", "copy", "kwargs")),
             check=check_value, mode="pure", budget={"quick": 1200, "thorough": 40000},
             shards={"quick": 5, "thorough": 12}, rule=NT_VALUE),
    SubCheck("value_numba",
             strategy=lambda: scalar_cases(G.PROFILE_FULL, routes=("get_function", "get_function", "single_arg"),
                                           indexed=True, layouts=("flat", "flat", "scalar", "mixed", "outer")).filter(
                 lambda c: not (c["route"] == "single_arg" and any(v["n"] for v in c["vars"]))),
             check=check_value_numba, mode="jit", budget={"quick": 180, "thorough": 6000},
             shards={"quick": 3, "thorough": 12}, rule=NT_VALUE),
    SubCheck("value_numba_nojit",
             strategy=lambda: scalar_cases(G.PROFILE_FULL, routes=("get_function", "get_function", "single_arg"),
                                           indexed=True, layouts=("flat", "flat", "scalar", "mixed", "outer")).filter(
                 lambda c: not (c["route"] == "single_arg" and any(v["n"] for v in c["vars"]))),
             check=check_value_numba, mode="nojit", budget={"quick": 240, "thorough": 10000},
             shards={"quick": 1, "thorough": 4},
             rule=NT_VALUE + " (numba backend's code generation executed with NUMBA_DISABLE_JIT=1: breadth)"),
    SubCheck("single_arg",
             strategy=lambda: scalar_cases(G.PROFILE_NUMPY, indexed=False, routes=("single_arg",),
                                           layouts=("flat", "scalar", "mixed", "outer")),
             check=check_value, mode="pure", budget={"quick": 160, "thorough": 6000},
             shards={"quick": 1, "thorough": 2}, rule=NT_VALUE),
    SubCheck("tensor_expression", strategy=lambda: tensor_cases(G.PROFILE_NUMPY), check=check_tensor,
             mode="pure", budget={"quick": 160, "thorough": 5000}, shards={"quick": 1, "thorough": 2},
             rule="non-trivial = >= 2 components, one of depth >= 2 with a non-commutative operator"),
    SubCheck("tensor_compiled_array_nojit",
             strategy=lambda: tensor_cases(G.PROFILE_FULL, jit=True).filter(lambda c: c["route"].startswith("array")),
             check=check_tensor_jit, mode="nojit", budget={"quick": 200, "thorough": 5000},
             shards={"quick": 1, "thorough": 2},
             rule="array function of a tensor expression (generated code executed with NUMBA_DISABLE_JIT=1), with and "
                  "without a supplied output array; non-trivial = >= 2 components, one of depth >= 2 with a "
                  "non-commutative operator"),
    SubCheck("tensor_expression_jit", strategy=lambda: tensor_cases(G.PROFILE_FULL, jit=True),
             check=check_tensor_jit, mode="jit", budget={"quick": 30, "thorough": 800},
             shards={"quick": 1, "thorough": 4},
             rule="non-trivial = >= 2 components, one of depth >= 2 with a non-commutative operator"),
    SubCheck("field_from_expression", strategy=field_cases, check=check_field, mode="pure",
             budget={"quick": 320, "thorough": 10000}, shards={"quick": 2, "thorough": 4},
             rule="non-trivial = some component of depth >= 2 depending on a coordinate"),
    SubCheck("derivatives", strategy=derivative_cases, check=check_derivative, mode="pure",
             budget={"quick": 130, "thorough": 3000}, shards={"quick": 2, "thorough": 8},
             rule="non-trivial = differentiable AST of depth >= 2 depending on a variable"),
    SubCheck("parse_number", strategy=number_cases, check=check_number, mode="pure",
             budget={"quick": 1500, "thorough": 30000}, shards={"quick": 1, "thorough": 2},
             rule="non-trivial = depth >= 2 with a non-commutative operator"),
    SubCheck("evaluate_fields_jit", strategy=lambda: evaluate_cases(jit=True), check=check_evaluate_jit, mode="jit",
             budget={"quick": 24, "thorough": 500}, shards={"quick": 1, "thorough": 2},
             rule="non-trivial = depth >= 2 depending on a field"),
    SubCheck("mod_in_negative_product", strategy=known_mod_cases, check=check_known_mod, mode="jit",
             budget={"quick": 40, "thorough": 400}, shards={"quick": 1, "thorough": 1},
             rule="aimed family sign*coefficient*(a % m)*b and a % (1/b) (repaired defects " + KNOWN_MOD_KEY + ")"),
    SubCheck("evaluate_fields", strategy=evaluate_cases, check=check_evaluate, mode="pure",
             budget={"quick": 200, "thorough": 5000}, shards={"quick": 1, "thorough": 2},
             rule="non-trivial = depth >= 2 depending on a field"),
    SubCheck("from_expression_pointwise_fallback", strategy=pointwise_cases, check=check_pointwise, mode="pure",
             budget={"quick": 240, "thorough": 6000}, shards={"quick": 1, "thorough": 2},
             rule="expressions that only evaluate cell by cell (user function with a python `if` returning an "
                  "int in one branch, Piecewise, sign) against a cell-by-cell float64 evaluation; non-trivial = "
                  "both branches occur on the grid and some cell has a non-integer value"),
    SubCheck("get_function_twice_user_funcs", strategy=get_function_cases, check=check_get_function_twice,
             mode="pure", budget={"quick": 200, "thorough": 4000}, shards={"quick": 1, "thorough": 2},
             rule="one expression object, requests get_function(user_funcs={f: A}), ({f: B}), ({f: A}) [+ more]: "
                  "every returned function evaluates the formula with the user function of its request, also "
                  "after the later requests; every case non-trivial"),
    SubCheck("get_function_twice_user_funcs_numba", strategy=lambda: get_function_cases(backend="numba"),
             check=check_get_function_twice, mode="jit", budget={"quick": 10, "thorough": 150},
             shards={"quick": 1, "thorough": 2},
             rule="as get_function_twice_user_funcs with the numba backend (compiled)"),
]

for _s in SUBCHECKS:
    _s.time_limit = {"quick": 110, "thorough": 1500}
# the runner starts the jobs in this order on 16 slots: the long ones first
SUBCHECKS.sort(key=lambda s: -s.shards["quick"])
