"""C12 - grid geometry and coordinate transformations are self-consistent.

All oracles are written from the documented definitions and use *exact rational
arithmetic* (``fractions.Fraction`` of the floats that were handed to py-pde) wherever a
closed form exists:

* cell centres ``x_min + (i + 1/2) dx`` with ``dx = (x_max - x_min) / N``;
* exact cell volumes ``prod dx``, ``pi (r+^2 - r-^2)``, ``4 pi / 3 (r+^3 - r-^3)``,
  ``pi (r+^2 - r-^2) dz`` and the closed-form measures of the whole domain;
* cell <-> grid <-> Cartesian conversions (``x = x_min + c dx``; ``r = |x|``; symmetric
  grids: all images of grid coordinates lie on one ray);
* the sawtooth / triangle-wave definition of periodic wrapping and reflection;
* the minimum-image convention for difference vectors.

Points are described by *recipes* (cell centre / face / interior / just inside a face, plus
a shift by whole periods) that are turned into floats here; the float that reaches py-pde is
the exact input of the oracle, so no rounding of the inputs has to be tolerated.  The only
tolerances are for the rounding inside the code under test; they are stated in ulps of the
magnitudes involved (``Axis.u`` = ulp of the larger bound, ``Axis.tol_dx`` = admissible
error of the spacing) and are condition-aware (shell volumes obtained as differences of ball
volumes: ``32 eps V(r+)``).
"""

from __future__ import annotations

import itertools
import math
from fractions import Fraction

import numpy as np
from hypothesis import strategies as st

from vlib import env

env.setup()

import pde  # noqa: E402
from pde.grids.coordinates import (  # noqa: E402
    CartesianCoordinates,
    CylindricalCoordinates,
    PolarCoordinates,
    SphericalCoordinates,
)

from vlib import gen_grids as gg  # noqa: E402
from vlib.core import SubCheck, Violation  # noqa: E402

PROPERTY = "C12"
RULE = ("one case = one grid (class, shape, bounds, inner radius, periodicity) plus point recipes / "
        "data seed; distinct = whole case")
ASSUMPTIONS = [
    "bounds: |lower bound| <= 1e6, axis lengths in [1e-6, 1e6], 1..8 cells per axis, inner radius 0 "
    "or in [1e-3, 1e2]; every cell is at least ~1000 ulp of the bounds wide",
    "radial grid coordinates handed to the library are >= 0",
    "points are passed in the documented layouts (..., num_axes) / (..., dim); batches of shape "
    "(n,) and (n, m)",
    "points closer than 4 ulp (of the larger bound) to a face are not used for membership "
    "assertions unless membership is exactly decidable (cell coordinates, unit grids)",
    "shell volumes may carry the cancellation error of a difference of two ball volumes "
    "(32 eps V(r_outer_face)); nothing tighter is demanded",
    "boundary_distance handed to get_random_point is >= 0",
    "norms/radii are compared with an absolute floor of 1e-150 (squares of smaller numbers underflow)",
]

EPS = float(np.finfo(float).eps)
#: absolute floor for everything that involves a Euclidean norm: squares of numbers below
#: ~1.5e-154 underflow, so hypot/norm cannot be relatively accurate there
FLOOR = 1e-150
PI = math.pi


# =======================================================================================
# exact model of a grid, built from the spec only
# =======================================================================================
def F(x) -> Fraction:
    return Fraction(float(x))


def sp(x) -> float:
    """ulp of |x| (float)"""
    return float(np.spacing(abs(float(x))))


class Axis:
    """One grid axis, described by the numbers that were handed to the constructor."""

    def __init__(self, lo, hi, n, per, role):
        self.lo, self.hi, self.n, self.per, self.role = float(lo), float(hi), int(n), bool(per), role
        self.LO, self.HI = F(lo), F(hi)
        self.LEN = self.HI - self.LO  # exact length
        self.DX = self.LEN / self.n  # exact spacing
        self.len = float(self.LEN)
        self.dx = float(self.DX)
        self.scale = max(abs(self.lo), abs(self.hi))
        #: ulp of the bounds
        self.u = sp(self.scale)
        #: admissible error of the library's spacing: a few roundings of dx itself plus the
        #: rounding of the upper bound when it is stored as position + size
        self.tol_dx = 4 * sp(self.dx) + 2 * self.u / self.n
        #: admissible error of a stored bound
        self.tol_b = 2 * self.u

    # exact conversions ------------------------------------------------------------------
    def cell_to_grid(self, c) -> Fraction:
        return self.LO + F(c) * self.DX

    def grid_to_cell(self, x) -> Fraction:
        return (F(x) - self.LO) / self.DX

    def face(self, i) -> Fraction:
        return self.LO + i * self.DX

    # tolerances of the library's conversions ----------------------------------------------
    def tol_grid(self, c, x) -> float:
        """error bound of a computed grid coordinate x = lo + c*dx"""
        return 4 * sp(max(self.scale, abs(float(x)))) + abs(float(c)) * self.tol_dx

    def tol_cell(self, c, x) -> float:
        """error bound of a computed cell coordinate c = (x - lo)/dx"""
        c = abs(float(c))
        return 4 * EPS * c + c * self.tol_dx / self.dx + 2 * sp(max(self.scale, abs(float(x)))) / self.dx


class Geo:
    """Exact geometry of a grid spec."""

    def __init__(self, spec):
        self.spec = spec
        self.cls = spec["cls"]
        b = gg.axes_bounds(spec)
        shape = [int(n) for n in spec["shape"]]
        per = [bool(p) for p in spec["periodic"]]
        if self.cls in ("unit", "cart"):
            roles = ["x"] * len(shape)
        elif self.cls == "cyl":
            roles = ["r", "z"]
        else:
            roles = ["r"]
        self.axes = [Axis(b[i][0], b[i][1], shape[i], per[i], roles[i]) for i in range(len(shape))]
        self.shape = tuple(shape)
        self.num_axes = len(shape)
        self.dim = gg.dim_of(spec)
        self.sym = self.cls in ("polar", "sph", "cyl")
        self.hole = self.sym and self.axes[0].lo > 0
        #: power of r in the ball volume and its prefactor
        self.rdim = {"polar": 2, "sph": 3, "cyl": 2}.get(self.cls, 0)
        self.rfac = {"polar": PI, "sph": 4 * PI / 3, "cyl": PI}.get(self.cls, 1.0)
        #: periodic flag and axis per *Cartesian* component
        if self.cls in ("unit", "cart"):
            self.cart_axis = list(range(self.dim))
        elif self.cls == "cyl":
            self.cart_axis = [None, None, 1]
        else:
            self.cart_axis = [None] * self.dim

    # ------------------------------------------------------------------------------
    def weights_1d(self, k):
        """Exact 1-d volume factor of every cell of axis k and its admissible error."""
        ax = self.axes[k]
        if ax.role == "r":
            w, t = [], []
            for i in range(ax.n):
                rm, rp = ax.face(i), ax.face(i + 1)
                coef = rp**self.rdim - rm**self.rdim
                w.append(self.rfac * float(coef))
                t.append(32 * EPS * self.rfac * float(rp) ** self.rdim + 16 * EPS * w[-1]
                         + w[-1] * ax.tol_dx / ax.dx)
            return np.array(w), np.array(t)
        w = np.full(ax.n, ax.dx)
        return w, np.full(ax.n, ax.tol_dx)

    def weights(self, axes):
        """(W, Wup): exact weight array (broadcastable to the grid shape) for integrating
        over ``axes`` and an upper envelope W + admissible error."""
        W = np.ones([1] * self.num_axes)
        Wup = np.ones([1] * self.num_axes)
        for k in axes:
            w, t = self.weights_1d(k)
            shp = [1] * self.num_axes
            shp[k] = self.axes[k].n
            W = W * w.reshape(shp)
            Wup = Wup * (w + t).reshape(shp)
        return W, Wup

    def measure(self, axes):
        """Closed-form measure of the product of the given axes and admissible error."""
        m, rel = 1.0, 8 * EPS
        for k in axes:
            ax = self.axes[k]
            if ax.role == "r":
                coef = ax.HI**self.rdim - ax.LO**self.rdim
                v = self.rfac * float(coef)
                m *= v
                rel += 32 * EPS * self.rfac * ax.hi**self.rdim / v
            else:
                m *= ax.len
                rel += 2 * ax.tol_b / ax.len
        return m, m * rel


def grid_coords_of(geo, g):
    return [np.asarray(c, dtype=float) for c in g.axes_coords]


# =======================================================================================
# strategies
# =======================================================================================
WIDE = dict(len_lo=1e-6, len_hi=1e6, offset_mag=1e6, min_cells=1)


def wide_grids(**kw):
    args = dict(WIDE)
    args.update(kw)
    return gg.grids(**args)


KINDS = ["centre", "face", "inside", "edge_lo", "edge_hi"]

SHIFTS = st.one_of(
    st.just(0), st.just(0), st.sampled_from([-1, 1, -2, 2, 3, -3]),
    st.integers(-1000, 1000), st.integers(-(10**6), 10**6))


def axis_recipe(shifts=True):
    return st.fixed_dictionaries({
        "kind": st.sampled_from(KINDS),
        "i": st.integers(0, 16),
        "x": st.floats(0, 1, exclude_max=True),
        "k": SHIFTS if shifts else st.just(0),
    })


def point_recipe(num_axes, shifts=True):
    return st.fixed_dictionaries({
        "ax": st.lists(axis_recipe(shifts), min_size=num_axes, max_size=num_axes),
        # angles (fractions of the full range) used when the point is given in Cartesian
        # coordinates on a symmetric grid
        "ang": st.lists(st.floats(0, 1, exclude_max=True), min_size=2, max_size=2),
    })


BATCH = st.sampled_from(["single", "list", "list", "nested"])


def cell_coordinate(ax: Axis, rec) -> float:
    """Cell coordinate (a float, taken as exact) described by an axis recipe."""
    kind = rec["kind"]
    if kind == "abs":  # explicit grid coordinate (regression cases)
        return float(ax.grid_to_cell(rec["v"]))
    n = ax.n
    if kind == "centre":
        c = (rec["i"] % n) + 0.5
    elif kind == "face":
        c = float(rec["i"] % (n + 1))
    elif kind == "inside":
        c = rec["x"] * n
    elif kind == "edge_lo":  # just inside the lower face
        c = rec["x"] * 2.0 ** -(rec["i"] + 1) * 1e-3
    else:  # just inside the upper face
        c = n - rec["x"] * 2.0 ** -(rec["i"] + 1) * 1e-3
    k = int(rec.get("k", 0))
    if ax.role == "r":
        k = abs(k)  # radial coordinates stay non-negative
    return float(c + k * n)


def grid_coordinate(ax: Axis, rec) -> float:
    if rec["kind"] == "abs":
        return float(rec["v"])
    c = cell_coordinate(ax, rec)
    if rec["kind"] == "face" and int(rec.get("k", 0)) == 0:
        if c == 0:
            return ax.lo
        if c == ax.n:
            return ax.hi
    x = float(ax.lo + c * ax.dx)
    if ax.role == "r" and x < 0:
        x = 0.0
    return x


def make_points(geo: Geo, recipes, coords):
    """Turn recipes into the float array handed to py-pde (shape (n, k)) and the exact
    grid coordinates (list of lists of Fraction, shape (n, num_axes))."""
    pts, exact = [], []
    for rec in recipes:
        if coords == "cell":
            p = [cell_coordinate(ax, r) for ax, r in zip(geo.axes, rec["ax"])]
            e = [ax.cell_to_grid(c) for ax, c in zip(geo.axes, p)]
        else:
            p = [grid_coordinate(ax, r) for ax, r in zip(geo.axes, rec["ax"])]
            e = [F(x) for x in p]
            if coords == "cartesian" and geo.sym:
                p = to_cartesian_own(geo, p, rec["ang"])
                e = None  # the radius is the norm of the float vector; see exact_from_cart
        pts.append(p)
        exact.append(e)
    return np.array(pts, dtype=float), exact


def to_cartesian_own(geo, p, ang):
    """Textbook conversion of grid coordinates + angles to Cartesian coordinates."""
    phi = 2 * PI * ang[0]
    if geo.cls == "polar":
        return [p[0] * math.cos(phi), p[0] * math.sin(phi)]
    if geo.cls == "cyl":
        return [p[0] * math.cos(phi), p[0] * math.sin(phi), p[1]]
    theta = PI * (0.02 + 0.96 * ang[1])
    return [p[0] * math.sin(theta) * math.cos(phi), p[0] * math.sin(theta) * math.sin(phi),
            p[0] * math.cos(theta)]


def sqrt_frac(q: Fraction) -> float:
    """Square root of a non-negative rational, rounded to ~1 ulp without over-/underflow."""
    if q <= 0:
        return 0.0
    e = (q.numerator.bit_length() - q.denominator.bit_length()) // 2 * 2
    scaled = q / Fraction(2) ** e
    return math.ldexp(math.sqrt(float(scaled)), e // 2)


def radius_of(vec) -> float:
    """Euclidean norm of a float vector, rounded to ~1 ulp (exact sum of squares)."""
    return sqrt_frac(sum(F(v) ** 2 for v in vec))


def reshape_batch(arr, batch):
    """Arrange n points (n, k) in the requested batch layout."""
    n = arr.shape[0]
    if batch == "single":
        return arr[0]
    if batch == "nested" and n >= 2:
        m = n // 2
        return arr[: 2 * m].reshape(2, m, arr.shape[1])
    return arr


def flat_points(arr, k):
    return np.asarray(arr, dtype=float).reshape(-1, k)


def used_count(n, batch):
    if batch == "single":
        return 1
    if batch == "nested" and n >= 2:
        return 2 * (n // 2)
    return n


def labels_for(spec, geo):
    labs = [gg.grid_label(spec)]
    if any(ax.n == 1 for ax in geo.axes):
        labs.append("has-1-cell-axis")
    if any(ax.scale > 1e3 * ax.len for ax in geo.axes):
        labs.append("offset>>length")
    if any(ax.len < 1e-3 for ax in geo.axes):
        labs.append("tiny-axis")
    if any(ax.len > 1e3 for ax in geo.axes):
        labs.append("huge-axis")
    if any(ax.lo < 0 for ax in geo.axes):
        labs.append("negative-bound")
    return labs


def vio(sub, spec, what, detail):
    return Violation(f"{what}: {detail}; grid={spec!r}", key=f"{sub}:{spec['cls']}:{what}")


# =======================================================================================
# 1. discretisation
# =======================================================================================
def discretisation_strategy():
    return st.fixed_dictionaries({"grid": wide_grids()})


def check_discretisation(case):
    spec = case["grid"]
    geo = Geo(spec)
    g = gg.build_grid(spec)
    S = "discretisation"
    if tuple(g.shape) != geo.shape or g.num_axes != geo.num_axes or g.dim != geo.dim:
        raise vio(S, spec, "shape", f"shape={g.shape} num_axes={g.num_axes} dim={g.dim}")
    if g.num_cells != int(np.prod(geo.shape)):
        raise vio(S, spec, "num_cells", f"{g.num_cells}")
    if [bool(p) for p in g.periodic] != [ax.per for ax in geo.axes]:
        raise vio(S, spec, "periodic", f"{g.periodic}")
    if len(g.axes) != geo.num_axes or len(g.axes) + len(g.axes_symmetric) != geo.dim:
        raise vio(S, spec, "axes", f"{g.axes} {g.axes_symmetric}")
    dxs = np.asarray(g.discretization, dtype=float)
    if dxs.shape != (geo.num_axes,):
        raise vio(S, spec, "dx-shape", f"{dxs.shape}")
    for k, ax in enumerate(geo.axes):
        lo, hi = (float(v) for v in g.axes_bounds[k])
        if abs(lo - ax.lo) > ax.tol_b or abs(hi - ax.hi) > ax.tol_b:
            raise vio(S, spec, "bounds", f"axis {k}: axes_bounds=({lo!r}, {hi!r}) given ({ax.lo!r}, {ax.hi!r})")
        if abs(dxs[k] - ax.dx) > ax.tol_dx:
            raise vio(S, spec, "dx", f"axis {k}: dx={dxs[k]!r}, (x_max-x_min)/N={ax.dx!r}, tol {ax.tol_dx:.3g}")
        xs = np.asarray(g.axes_coords[k], dtype=float)
        if xs.shape != (ax.n,):
            raise vio(S, spec, "centres-shape", f"axis {k}: {xs.shape}")
        for i in range(ax.n):
            want = float(ax.cell_to_grid(i + 0.5))
            tol = 4 * ax.u + (i + 0.5) * ax.tol_dx
            if abs(xs[i] - want) > tol:
                raise vio(S, spec, "centres", f"axis {k} cell {i}: centre {xs[i]!r}, "
                          f"x_min+(i+1/2)dx={want!r}, tol {tol:.3g}")
        if ax.n > 1 and not np.all(np.diff(xs) > 0):
            raise vio(S, spec, "centres-order", f"axis {k}: {xs!r}")
        if not (xs[0] > ax.lo - ax.tol_b and xs[-1] < ax.hi + ax.tol_b):
            raise vio(S, spec, "centres-inside", f"axis {k}: {xs!r}")
        if spec["cls"] == "unit":
            if dxs[k] != 1.0 or not np.array_equal(xs, np.arange(ax.n) + 0.5):
                raise vio(S, spec, "unit-exact", f"axis {k}: dx={dxs[k]!r} centres={xs!r}")
    # coordinate arrays / cell_coords are the tensor product of the axes
    cc = np.asarray(g.cell_coords)
    if cc.shape != geo.shape + (geo.num_axes,):
        raise vio(S, spec, "cell_coords-shape", f"{cc.shape}")
    for idx in itertools.islice(np.ndindex(*geo.shape), 64):
        for k in range(geo.num_axes):
            if cc[idx + (k,)] != g.axes_coords[k][idx[k]]:
                raise vio(S, spec, "cell_coords", f"cell {idx} axis {k}: {cc[idx + (k,)]!r}")
    ca = g.coordinate_arrays
    if len(ca) != geo.num_axes or any(np.shape(a) != geo.shape for a in ca):
        raise vio(S, spec, "coordinate_arrays-shape", "")
    td = float(g.typical_discretization)
    want = float(np.mean([ax.dx for ax in geo.axes]))
    if abs(td - want) > 8 * EPS * want + sum(ax.tol_dx for ax in geo.axes):
        raise vio(S, spec, "typical_discretization", f"{td!r} vs {want!r}")
    # the centres are mapped to index + 1/2
    cells = np.asarray(g.transform(cc, "grid", "cell"))
    for idx in itertools.islice(np.ndindex(*geo.shape), 64):
        for k, ax in enumerate(geo.axes):
            tol = ax.tol_cell(idx[k] + 0.5, cc[idx + (k,)]) + 4 * ax.u / ax.dx
            if abs(cells[idx + (k,)] - (idx[k] + 0.5)) > tol:
                raise vio(S, spec, "centre-to-cell", f"cell {idx} axis {k}: cell coordinate "
                          f"{cells[idx + (k,)]!r}, expected {idx[k] + 0.5}, tol {tol:.3g}")
    return {"nt": True, "labels": labels_for(spec, geo)}


# =======================================================================================
# 2. cell volumes
# =======================================================================================
def check_cell_volumes(case):
    spec = case["grid"]
    geo = Geo(spec)
    g = gg.build_grid(spec)
    S = "cell_volumes"
    all_axes = list(range(geo.num_axes))
    W, Wup = geo.weights(all_axes)
    W = np.broadcast_to(W, geo.shape)
    T = np.broadcast_to(Wup, geo.shape) - W
    cv = np.asarray(g.cell_volumes, dtype=float)
    if cv.shape != geo.shape:
        raise vio(S, spec, "shape", f"{cv.shape}")
    if not np.all(cv > 0):
        raise vio(S, spec, "positive", f"{cv.min()!r}")
    bad = np.abs(cv - W) > T
    if bad.any():
        idx = tuple(int(i) for i in np.argwhere(bad)[0])
        raise vio(S, spec, "exact-volume", f"cell {idx}: cell_volumes={cv[idx]!r}, exact {W[idx]!r}, "
                  f"tol {T[idx]:.3g}")
    # factorised data
    cvd = g.cell_volume_data
    if cvd is None or len(cvd) != geo.num_axes:
        raise vio(S, spec, "cell_volume_data", f"{cvd!r}")
    for k in all_axes:
        w, t = geo.weights_1d(k)
        d = np.broadcast_to(np.asarray(cvd[k], dtype=float), (geo.axes[k].n,))
        if np.any(np.abs(d - w) > t):
            raise vio(S, spec, "cell_volume_data", f"axis {k}: {d!r} vs exact {w!r}")
    uniform = spec["cls"] in ("unit", "cart")
    if bool(g.uniform_cell_volumes) != uniform:
        raise vio(S, spec, "uniform_cell_volumes", f"{g.uniform_cell_volumes}")
    # totals
    vol, tvol = geo.measure(all_axes)
    tsum = float(T.sum()) + 8 * EPS * cv.size * vol
    if abs(float(cv.sum()) - vol) > tsum + tvol:
        raise vio(S, spec, "sum-vs-closed-form", f"sum={float(cv.sum())!r} closed form {vol!r} tol {tsum + tvol:.3g}")
    gv = float(g.volume)
    if abs(gv - vol) > tvol:
        raise vio(S, spec, "volume-vs-closed-form", f"volume={gv!r} closed form {vol!r} tol {tvol:.3g}")
    if abs(gv - float(cv.sum())) > tsum + tvol:
        raise vio(S, spec, "volume-vs-sum", f"volume={gv!r} sum={float(cv.sum())!r}")
    # the generic route through the coordinate system (cell corners -> c.cell_volume)
    d2 = np.asarray(g.discretization) / 2
    x_low = g._coords_full(g.cell_coords - d2, value="min")
    x_high = g._coords_full(g.cell_coords + d2, value="max")
    gen = np.asarray(g.c.cell_volume(x_low, x_high), dtype=float)
    if gen.shape != geo.shape:
        raise vio(S, spec, "generic-shape", f"{gen.shape}")
    # corners are centre +- dx/2: each width carries an error of ~2 ulp(bounds)
    rel = sum(4 * ax.u / ax.dx for ax in geo.axes) + 16 * EPS
    Tg = T + W * rel
    bad = np.abs(gen - W) > Tg
    if bad.any():
        idx = tuple(int(i) for i in np.argwhere(bad)[0])
        raise vio(S, spec, "coordinate-system-cell_volume", f"cell {idx}: {gen[idx]!r}, exact {W[idx]!r}, "
                  f"tol {Tg[idx]:.3g}")
    labs = labels_for(spec, geo)
    if geo.sym:
        ax = geo.axes[0]
        canc = float(np.max(T / W))
        labs.append("shell-cancellation>1e-9" if canc > 1e-9 else "shell-cancellation<=1e-9")
    return {"nt": True, "labels": labs}


# =======================================================================================
# 3. integrate / project
# =======================================================================================
@st.composite
def integrate_strategy(draw):
    spec = draw(st.one_of(wide_grids(), wide_grids(classes=("unit", "cart", "cyl"), min_axes=2)))
    return {
        "grid": spec,
        "seed": draw(st.integers(0, 2**32 - 1)),
        "dist": draw(st.sampled_from(["normal", "uniform", "int", "ones", "onehot"])),
        "scale": draw(st.sampled_from([1.0, 1.0, 1e-3, 1e3])),
        # "i8": integer data and a field of integer dtype (after missed seed C12-6: projections forced the
        # dtype of the field onto the partial integrals)
        "dtype": draw(st.sampled_from(["f8", "f8", "c16", "i8"])),
        "lead": draw(st.sampled_from([[], [], [2], [3], [2, 2]])),
        "axes_form": draw(st.sampled_from(["tuple", "list", "int"])),
    }


def make_data(case, shape):
    if case["dtype"] == "i8":
        if case["dist"] == "onehot":
            a = np.zeros(shape, dtype=np.int64)
            a.flat[case["seed"] % a.size] = 1
            return a
        if case["dist"] == "ones":
            return np.ones(shape, dtype=np.int64)
        return np.rint(gg.rng_array(case["seed"], shape, dtype="f8", dist="int", scale=1.0)).astype(np.int64)
    if case["dist"] == "ones":
        return np.ones(shape, dtype=complex if case["dtype"] == "c16" else float)
    if case["dist"] == "onehot":
        a = np.zeros(shape, dtype=complex if case["dtype"] == "c16" else float)
        a.flat[case["seed"] % a.size] = 1.0
        return a
    return gg.rng_array(case["seed"], shape, dtype=case["dtype"], dist=case["dist"], scale=case["scale"])


def check_integrate_project(case):
    spec = case["grid"]
    geo = Geo(spec)
    g = gg.build_grid(spec)
    S = "integrate_project"
    na = geo.num_axes
    all_axes = tuple(range(na))
    labs = [gg.grid_label(spec)]

    def oracle(data, axes):
        """partial integral of data (leading dims + grid shape) and its admissible error"""
        off = data.ndim - na
        W, Wup = geo.weights(axes)
        sax = tuple(off + k for k in axes)
        ref = (data * W).sum(axis=sax)
        nterms = int(np.prod([geo.shape[k] for k in axes]))
        tol = (np.abs(data) * (Wup - W)).sum(axis=sax) + (64 + nterms) * EPS * (np.abs(data) * W).sum(axis=sax)
        return ref, tol

    def compare(what, got, ref, tol, exp_shape):
        got = np.asarray(got)
        if got.shape != tuple(exp_shape):
            raise vio(S, spec, what + ":shape", f"shape {got.shape}, expected {tuple(exp_shape)}")
        bad = np.abs(got - ref) > tol
        if np.any(bad):
            i = tuple(int(j) for j in np.argwhere(np.atleast_1d(bad))[0])
            raise vio(S, spec, what, f"got {np.atleast_1d(got)[i]!r}, exact {np.atleast_1d(ref)[i]!r}, "
                      f"tol {np.atleast_1d(tol)[i]:.3g} (case axes/lead: {case['lead']})")

    # ---- the constant 1 ---------------------------------------------------------------
    vol, tvol = geo.measure(all_axes)
    ones = np.ones(geo.shape)
    ref1, tol1 = oracle(ones, all_axes)
    for one in (1, 1.0, ones):
        compare("integrate(1)", g.integrate(one), vol, tvol + tol1, ())
    subsets = [A for r in range(1, na + 1) for A in itertools.combinations(range(na), r)]
    for A in subsets:
        m, tm = geo.measure(A)
        refA, tolA = oracle(ones, A)
        rest = [geo.shape[k] for k in range(na) if k not in A]
        forms = [A, list(A)] + ([A[0]] if len(A) == 1 else [])
        for form in forms:
            compare(f"integrate(1,axes={len(A)}of{na})", g.integrate(1, axes=form), m, tm + tolA, rest)

    # ---- data -----------------------------------------------------------------------
    lead = tuple(case["lead"])
    data = make_data(case, lead + geo.shape)
    ref, tol = oracle(data, all_axes)
    compare("integrate(data)", g.integrate(data), ref, tol, lead)
    for A in subsets:
        refA, tolA = oracle(data, A)
        rest = [geo.shape[k] for k in range(na) if k not in A]
        form = A if case["axes_form"] == "tuple" else list(A)
        if case["axes_form"] == "int" and len(A) == 1:
            form = A[0]
        compare(f"integrate(data,axes={len(A)}of{na})", g.integrate(data, axes=form), refA, tolA, list(lead) + rest)
    labs.append("lead=" + str(len(lead)))
    labs.append("dtype=" + case["dtype"])

    # ---- scalar field: integral, average, projections ------------------------------------
    fdata = data.reshape((-1,) + geo.shape)[0]
    f = pde.ScalarField(g, fdata.copy(), dtype=fdata.dtype)
    tot, ttot = oracle(fdata, all_axes)
    compare("field.integral", f.integral, tot, ttot, ())
    compare("field.average", f.average, tot / vol, ttot / vol + abs(tot) * tvol / vol**2 + 8 * EPS * abs(tot / vol), ())
    absdata = np.abs(fdata)
    tfull = oracle(absdata, all_axes)
    tfull = float(tfull[1] + 64 * EPS * tfull[0])  # generous bound for re-integration on a sub-grid

    if spec["cls"] in ("unit", "cart"):
        removable = [A for A in subsets if len(A) < na]
    elif spec["cls"] == "cyl":
        removable = [(0,), (1,)]
    else:
        removable = []
    nproj = 0
    for A in removable:
        names = [g.axes[k] for k in A]
        arg = names[0] if (len(names) == 1 and case["axes_form"] != "list") else names
        keep = [k for k in range(na) if k not in A]
        rest = [geo.shape[k] for k in keep]
        refA, tolA = oracle(fdata, A)
        m, tm = geo.measure(A)
        p = f.project(arg, method="integral")
        compare("project:integral:data", p.data, refA, tolA, rest)
        # the grid of the projection describes the retained axes
        pg = p.grid
        if tuple(pg.shape) != tuple(rest) or pg.num_axes != len(keep):
            raise vio(S, spec, "project:grid-shape", f"removing {names}: {pg}")
        for j, k in enumerate(keep):
            lo, hi = (float(v) for v in pg.axes_bounds[j])
            ax = geo.axes[k]
            if abs(lo - ax.lo) > ax.tol_b or abs(hi - ax.hi) > ax.tol_b or bool(pg.periodic[j]) != ax.per:
                raise vio(S, spec, "project:grid-bounds", f"removing {names}: {pg}")
        if spec["cls"] == "cyl":
            wantcls = "CartesianGrid" if A == (0,) else "PolarSymGrid"
            if type(pg).__name__ != wantcls:
                raise vio(S, spec, "project:grid-class", f"removing {names}: {pg}")
        elif not isinstance(pg, pde.CartesianGrid):
            raise vio(S, spec, "project:grid-class", f"removing {names}: {pg}")
        # projecting preserves the integral
        compare("project:integral:preserved", p.integral, tot, ttot + 3 * tfull, ())
        compare("project:integral:vs-field", p.integral, f.integral, 2 * ttot + 3 * tfull, ())
        for meth in ("average", "mean"):
            pa = f.project(arg, method=meth)
            tav = tolA / m + np.abs(refA) * tm / m**2 + 16 * EPS * np.abs(refA / m)
            compare("project:average:data", pa.data, refA / m, tav, rest)
            compare("project:average:preserved", pa.average, tot / vol,
                    (ttot + 3 * tfull) / vol + abs(tot) * 2 * tvol / vol**2 + 16 * EPS * abs(tot / vol), ())
        if fdata.dtype.kind == "f":
            pmax = f.project(arg, method="maximum")
            pmin = f.project(arg, method="min")
            compare("project:max", pmax.data, fdata.max(axis=A), 0.0, rest)
            compare("project:min", pmin.data, fdata.min(axis=A), 0.0, rest)
        nproj += 1
    labs.append(f"projections={nproj}")
    return {"nt": na >= 2 or geo.hole or case["dist"] != "ones", "labels": labs}


# =======================================================================================
# 4. transform round trips
# =======================================================================================
@st.composite
def transform_strategy(draw):
    spec = draw(wide_grids())
    na = len(spec["shape"])
    return {
        "grid": spec,
        "points": draw(st.lists(point_recipe(na), min_size=1, max_size=6)),
        "batch": draw(BATCH),
    }


def check_transform(case):
    spec = case["grid"]
    geo = Geo(spec)
    g = gg.build_grid(spec)
    S = "transform_roundtrip"
    na, dim = geo.num_axes, geo.dim
    batch = case["batch"]
    n = used_count(len(case["points"]), batch)
    recipes = case["points"][:n]
    labs = [gg.grid_label(spec), "batch=" + batch]

    def shape_of(arr, k):
        lead = np.shape(reshape_batch(np.zeros((len(recipes), 1)), batch))[:-1]
        return tuple(lead) + (k,)

    def call(arr, src, dst, k_in, k_out):
        inp = reshape_batch(arr, batch)
        keep = np.array(inp, copy=True)
        out = np.asarray(g.transform(inp, src, dst))
        if not np.array_equal(inp, keep):
            raise vio(S, spec, "input-modified", f"{src}->{dst}")
        if out.shape != shape_of(arr, k_out):
            raise vio(S, spec, "shape", f"{src}->{dst}: input {np.shape(inp)} output {out.shape}")
        return out.reshape(-1, k_out)

    def cmp(what, got, want, tol, j, k):
        if not abs(got - want) <= tol:
            raise vio(S, spec, what, f"point {j} axis {k}: got {got!r}, expected {want!r}, tol {tol:.3g}; "
                      f"recipe {recipes[j]!r}")

    # -- from cell coordinates -----------------------------------------------------------
    cpts, cex = make_points(geo, recipes, "cell")
    gout = call(cpts, "cell", "grid", na, na)
    for j in range(n):
        for k, ax in enumerate(geo.axes):
            cmp("cell->grid", gout[j, k], float(cex[j][k]), ax.tol_grid(cpts[j, k], gout[j, k]), j, k)
    back = call(gout, "grid", "cell", na, na)
    for j in range(n):
        for k, ax in enumerate(geo.axes):
            tol = ax.tol_cell(cpts[j, k], gout[j, k]) + ax.tol_grid(cpts[j, k], gout[j, k]) / ax.dx
            cmp("cell->grid->cell", back[j, k], cpts[j, k], tol, j, k)
    same = call(cpts, "cell", "cell", na, na)
    if not np.array_equal(same, cpts):
        raise vio(S, spec, "cell->cell", "not the identity")

    # -- from grid coordinates -------------------------------------------------------------
    gpts, gex = make_points(geo, recipes, "grid")
    cout = call(gpts, "grid", "cell", na, na)
    for j in range(n):
        for k, ax in enumerate(geo.axes):
            want = float(ax.grid_to_cell(gpts[j, k]))
            cmp("grid->cell", cout[j, k], want, ax.tol_cell(want, gpts[j, k]), j, k)
    back = call(cout, "cell", "grid", na, na)
    for j in range(n):
        for k, ax in enumerate(geo.axes):
            c = float(ax.grid_to_cell(gpts[j, k]))
            tol = ax.tol_grid(c, gpts[j, k]) + ax.tol_cell(c, gpts[j, k]) * ax.dx
            cmp("grid->cell->grid", back[j, k], gpts[j, k], tol, j, k)
    same = call(gpts, "grid", "grid", na, na)
    if not np.array_equal(same, gpts):
        raise vio(S, spec, "grid->grid", "not the identity")

    # -- grid <-> cartesian ------------------------------------------------------------------
    xout = call(gpts, "grid", "cartesian", na, dim)
    xcell = call(cpts, "cell", "cartesian", na, dim)
    if not geo.sym:
        if not np.array_equal(xout, gpts):
            raise vio(S, spec, "grid->cartesian", "Cartesian grid: not the identity")
        for j in range(n):
            for k, ax in enumerate(geo.axes):
                cmp("cell->cartesian", xcell[j, k], float(cex[j][k]), ax.tol_grid(cpts[j, k], xcell[j, k]), j, k)
        gback = call(xout, "cartesian", "grid", dim, na)
        if not np.array_equal(gback, gpts):
            raise vio(S, spec, "cartesian->grid", "Cartesian grid: not the identity")
        cb = call(xout, "cartesian", "cell", dim, na)
        for j in range(n):
            for k, ax in enumerate(geo.axes):
                want = float(ax.grid_to_cell(gpts[j, k]))
                cmp("cartesian->cell", cb[j, k], want, ax.tol_cell(want, gpts[j, k]), j, k)
    else:
        axr = geo.axes[0]
        # all images lie on one ray: the image of a point with radius 1 defines it
        unit = np.zeros(na)
        unit[0] = 1.0
        ray = np.asarray(g.transform(unit, "grid", "cartesian"), dtype=float)
        if geo.cls == "cyl":
            ray = ray.copy()
            ray[2] = 0.0
        if abs(radius_of(ray) - 1.0) > 8 * EPS:
            raise vio(S, spec, "grid->cartesian:ray", f"image of r=1 is {ray!r}")
        for j in range(n):
            r = gpts[j, 0]
            img = xout[j]
            radial = img[:2] if geo.cls == "cyl" else img
            rayr = ray[:2] if geo.cls == "cyl" else ray
            for k in range(len(radial)):
                cmp("grid->cartesian:on-ray", radial[k], r * rayr[k], 8 * EPS * abs(r) + FLOOR, j, k)
            cmp("grid->cartesian:norm", radius_of(radial), r, 8 * EPS * abs(r) + FLOOR, j, 0)
            if geo.cls == "cyl" and img[2] != gpts[j, 1]:
                raise vio(S, spec, "grid->cartesian:z", f"point {j}: z={img[2]!r} from {gpts[j, 1]!r}")
            # cell -> cartesian agrees with cell -> grid -> cartesian
            rc = float(cex[j][0])
            radial_c = xcell[j][:2] if geo.cls == "cyl" else xcell[j]
            cmp("cell->cartesian:norm", radius_of(radial_c), rc, axr.tol_grid(cpts[j, 0], rc) + 8 * EPS * abs(rc) + FLOOR, j, 0)
            if geo.cls == "cyl":
                az = geo.axes[1]
                cmp("cell->cartesian:z", xcell[j][2], float(cex[j][1]), az.tol_grid(cpts[j, 1], xcell[j][2]), j, 1)
        # grid -> cartesian -> grid is the identity
        gback = call(xout, "cartesian", "grid", dim, na)
        for j in range(n):
            cmp("grid->cartesian->grid", gback[j, 0], gpts[j, 0], 16 * EPS * abs(gpts[j, 0]) + FLOOR, j, 0)
            if geo.cls == "cyl" and gback[j, 1] != gpts[j, 1]:
                raise vio(S, spec, "grid->cartesian->grid:z", f"point {j}")
        # general Cartesian points: r = |x| (textbook), z = z; projection is idempotent
        xpts, _ = make_points(geo, recipes, "cartesian")
        gfrom = call(xpts, "cartesian", "grid", dim, na)
        cfrom = call(xpts, "cartesian", "cell", dim, na)
        for j in range(n):
            radial = xpts[j][:2] if geo.cls == "cyl" else xpts[j]
            r = radius_of(radial)
            cmp("cartesian->grid:r", gfrom[j, 0], r, 8 * EPS * r + FLOOR, j, 0)
            want = float(axr.grid_to_cell(r))
            cmp("cartesian->cell:r", cfrom[j, 0], want, axr.tol_cell(want, r) + (8 * EPS * r + FLOOR) / axr.dx, j, 0)
            if geo.cls == "cyl":
                az = geo.axes[1]
                if gfrom[j, 1] != xpts[j][2]:
                    raise vio(S, spec, "cartesian->grid:z", f"point {j}")
                want = float(az.grid_to_cell(xpts[j][2]))
                cmp("cartesian->cell:z", cfrom[j, 1], want, az.tol_cell(want, xpts[j][2]), j, 1)
        proj = call(gfrom, "grid", "cartesian", na, dim)
        again = call(proj, "cartesian", "grid", dim, na)
        for j in range(n):
            for k in range(na):
                cmp("projection-idempotent", again[j, k], gfrom[j, k], 16 * EPS * abs(gfrom[j, k]) + FLOOR, j, k)
        same = call(xpts, "cartesian", "cartesian", dim, dim)
        if not np.array_equal(same, xpts):
            raise vio(S, spec, "cartesian->cartesian", "not the identity")
        # point_to_cartesian / point_from_cartesian are the same maps
        pc = np.asarray(g.point_to_cartesian(gpts)).reshape(-1, dim)
        pf = np.asarray(g.point_from_cartesian(xpts)).reshape(-1, na)
        if not np.allclose(pc, xout, rtol=8 * EPS, atol=FLOOR) or not np.allclose(pf, gfrom, rtol=8 * EPS, atol=FLOOR):
            raise vio(S, spec, "point_to/from_cartesian", "differs from transform")

    kinds = {r["kind"] for rec in recipes for r in rec["ax"][:na]}
    shifted = any(r["k"] != 0 for rec in recipes for r in rec["ax"][:na])
    labs += ["kind=" + k for k in sorted(kinds)]
    if shifted:
        labs.append("outside-points")
    return {"nt": True, "labels": labs}


# =======================================================================================
# 5. containment of generated points
# =======================================================================================
@st.composite
def contains_strategy(draw):
    spec = draw(wide_grids())
    na = len(spec["shape"])
    mode = draw(st.sampled_from(["random", "random", "recipe"]))
    case = {"grid": spec, "mode": mode, "coords": draw(st.sampled_from(["cartesian", "grid", "cell"]))}
    if mode == "random":
        case.update({
            "seed": draw(st.integers(0, 2**32 - 1)),
            "bd": draw(st.one_of(st.just(0.0), st.just(0.0), st.floats(0, 0.999),
                                 st.sampled_from([0.5, 0.9, 0.99, 1.0, 1.5, 3.0]))),
            "avoid_center": draw(st.booleans()),
            "bd_int": draw(st.booleans()),
        })
    else:
        case.update({
            "points": draw(st.lists(point_recipe(na), min_size=1, max_size=6)),
            "batch": draw(BATCH),
        })
    return case


def check_contains(case):
    spec = case["grid"]
    geo = Geo(spec)
    g = gg.build_grid(spec)
    S = "contains_random_points"
    na, dim = geo.num_axes, geo.dim
    coords = case["coords"]
    labs = [gg.grid_label(spec), "coords=" + coords, "mode=" + case["mode"]]

    if case["mode"] == "random":
        # boundary distance as a fraction of the largest feasible one
        avoid = bool(case["avoid_center"]) and geo.sym
        lens = []
        for ax in geo.axes:
            if ax.role == "r" and not avoid:
                lens.append(ax.len)  # only the outer boundary counts
            else:
                lens.append(ax.len / 2)
        bd_max = min(lens)
        bd = case["bd"] * bd_max
        if case["bd_int"] and bd == 0:
            bd = 0
        feasible = case["bd"] < 1.0
        kw = {"boundary_distance": bd, "coords": coords}
        if geo.sym:
            kw["avoid_center"] = bool(case["avoid_center"])
        try:
            p = g.get_random_point(rng=np.random.default_rng(case["seed"]), **kw)
        except RuntimeError as e:
            if feasible and case["bd"] < 0.999:
                raise vio(S, spec, "feasible-distance-rejected", f"boundary_distance={bd!r} ({case['bd']} of the "
                          f"maximum {bd_max!r}): {e}")
            labs.append("infeasible-rejected")
            return {"nt": False, "labels": labs}
        if not feasible and case["bd"] > 1.0:
            raise vio(S, spec, "infeasible-distance-accepted", f"boundary_distance={bd!r} > maximum {bd_max!r} "
                      f"returned {p!r}")
        p = np.asarray(p, dtype=float)
        k = dim if coords == "cartesian" else na
        if p.shape != (k,):
            raise vio(S, spec, "point-shape", f"coords={coords}: {p.shape}")
        # reproducible from the generator
        p2 = np.asarray(g.get_random_point(rng=np.random.default_rng(case["seed"]), **kw), dtype=float)
        if not np.array_equal(p, p2):
            raise vio(S, spec, "rng-not-honoured", f"{p!r} vs {p2!r}")
        # exact grid coordinates of the point
        if coords == "cell":
            xs = [float(ax.cell_to_grid(c)) for ax, c in zip(geo.axes, p)]
        elif coords == "grid" or not geo.sym:
            xs = [float(v) for v in p]
        elif geo.cls == "cyl":
            xs = [radius_of(p[:2]), float(p[2])]
        else:
            xs = [radius_of(p)]
        near = False
        for kx, (ax, x) in enumerate(zip(geo.axes, xs)):
            guard = 4 * sp(max(ax.scale, abs(x))) + (8 * EPS * abs(x) + FLOOR if ax.role == "r" else 0.0)
            if coords == "cell":
                guard += ax.tol_grid(p[kx], x)
            lo_req = ax.lo + (bd if (ax.role != "r" or avoid) else 0.0)
            hi_req = ax.hi - bd
            if x < lo_req - guard - 4 * sp(bd) or x > hi_req + guard + 4 * sp(bd):
                raise vio(S, spec, "boundary-distance", f"axis {kx}: coordinate {x!r} not in "
                          f"[{lo_req!r}, {hi_req!r}] (boundary_distance={bd!r}, avoid_center={avoid}, coords={coords})")
            if x - ax.lo < guard or ax.hi - x < guard:
                near = True
        inside = g.contains_point(p, coords=coords)
        if np.shape(inside) != ():
            raise vio(S, spec, "contains-shape", f"{np.shape(inside)}")
        if near:
            labs.append("near-face-not-judged")
        elif not bool(inside):
            raise vio(S, spec, "generated-point-not-contained", f"{p!r} (coords={coords}, boundary_distance={bd!r}, "
                      f"avoid_center={avoid})")
        # the same draw expressed in the other coordinate systems is the same point
        pg = np.asarray(g.get_random_point(rng=np.random.default_rng(case["seed"]),
                                           **dict(kw, coords="grid")), dtype=float)
        for kx, (ax, x) in enumerate(zip(geo.axes, xs)):
            tol = 4 * sp(max(ax.scale, abs(x))) + 16 * EPS * abs(x) + FLOOR
            if coords == "cell":
                tol += ax.tol_grid(p[kx], x) + ax.tol_cell(p[kx], x) * ax.dx
            if abs(pg[kx] - x) > tol:
                raise vio(S, spec, "coords-inconsistent", f"axis {kx}: coords={coords} gives {x!r}, "
                          f"coords='grid' gives {pg[kx]!r}")
        labs.append("bd=0" if bd == 0 else ("bd>0.9max" if case["bd"] > 0.9 else "bd>0"))
        if geo.sym:
            labs.append(f"avoid_center={bool(case['avoid_center'])}")
        return {"nt": True, "labels": labs}

    # ---- recipe points with decidable membership -----------------------------------------
    batch = case["batch"]
    n = used_count(len(case["points"]), batch)
    recipes = case["points"][:n]
    pts, _ = make_points(geo, recipes, coords)
    inp = reshape_batch(pts, batch)
    res = np.asarray(g.contains_point(inp, coords=coords))
    if res.shape != np.shape(inp)[:-1] or res.dtype != bool:
        raise vio(S, spec, "contains-shape", f"input {np.shape(inp)} result {res.shape} {res.dtype}")
    res = res.reshape(-1)
    judged = 0
    for j, rec in enumerate(recipes):
        verdict = True  # True inside, False outside, None undecidable
        for kx, ax in enumerate(geo.axes):
            r = rec["ax"][kx]
            c = cell_coordinate(ax, r)
            exact_input = coords == "cell" or (spec["cls"] == "unit")
            if coords == "cartesian" and geo.sym:
                exact_input = False
            if exact_input:
                # membership is exactly decidable: 0 <= c <= N (closed interval)
                if coords != "cell":
                    c = float(ax.grid_to_cell(pts[j, kx]))
                ok = 0 <= c <= ax.n
            else:
                if coords == "cartesian" and geo.sym:
                    radial = pts[j][:2] if geo.cls == "cyl" else pts[j]
                    x = radius_of(radial) if ax.role == "r" else pts[j][2]
                else:
                    x = pts[j, kx]
                guard = 4 * sp(max(ax.scale, abs(x))) + (16 * EPS * abs(x) + FLOOR if ax.role == "r" else 0.0)
                guard += 8 * EPS * ax.len  # rounding of (x - lo)/dx against N
                if x - ax.lo > guard and ax.hi - x > guard:
                    ok = True
                elif x < ax.lo - guard or x > ax.hi + guard:
                    ok = False
                else:
                    ok = None
            if ok is False:
                verdict = False
                break
            if ok is None:
                verdict = None
        if verdict is None:
            continue
        judged += 1
        if bool(res[j]) != verdict:
            raise vio(S, spec, "inside-reported-outside" if verdict else "outside-reported-inside",
                      f"point {pts[j]!r} (coords={coords}) reported {bool(res[j])}; recipe {rec!r}")
    labs.append("batch=" + batch)
    labs.append(f"judged={'all' if judged == n else ('some' if judged else 'none')}")
    kinds = {r["kind"] for rec in recipes for r in rec["ax"][:na]}
    labs += ["kind=" + k for k in sorted(kinds)]
    return {"nt": judged > 0, "labels": labs}


# =======================================================================================
# 6. normalize_point
# =======================================================================================
@st.composite
def normalize_strategy(draw):
    spec = draw(st.one_of(wide_grids(), wide_grids(classes=("unit", "cart", "cyl"))))
    na = len(spec["shape"])
    return {
        "grid": spec,
        "points": draw(st.lists(point_recipe(na), min_size=1, max_size=6)),
        "batch": draw(st.sampled_from(["single", "list", "list", "nested", "scalar", "empty"])),
        "reflect": draw(st.booleans()),
        # points given as an integer array (reported by seeding agents: wrapped coordinates / differences were
        # written back into the integer array and truncated)
        "int_points": draw(st.sampled_from([False, False, True])),
    }


def fmod_pos(a: Fraction, m: Fraction) -> Fraction:
    """a mod m in [0, m)"""
    return a - m * math.floor(a / m)


def quotient_dist(a: Fraction, m: Fraction) -> Fraction:
    """distance of a from the lattice m*Z"""
    r = fmod_pos(a, m)
    return min(r, m - r)


def check_normalize(case):
    spec = case["grid"]
    geo = Geo(spec)
    g = gg.build_grid(spec)
    S = "normalize_point"
    na = geo.num_axes
    reflect = bool(case["reflect"])
    batch = case["batch"]
    labs = [gg.grid_label(spec), f"reflect={reflect}"]
    if batch == "empty":
        out = np.asarray(g.normalize_point(np.zeros((0, na)), reflect=reflect))
        if out.shape != (0, na):
            raise vio(S, spec, "empty-shape", f"{out.shape}")
        return {"nt": False, "labels": labs + ["batch=empty"]}
    if batch == "scalar" and na != 1:
        batch = "single"
    n = used_count(len(case["points"]), "single" if batch == "scalar" else batch)
    recipes = case["points"][:n]
    pts, _ = make_points(geo, recipes, "grid")
    int_points = bool(case.get("int_points")) and batch != "scalar"
    if int_points:
        pts = np.rint(pts)
        labs.append("integer-typed points")
    if batch == "scalar":
        inp = float(pts[0, 0])
    else:
        inp = reshape_batch(pts, batch)
    arg = np.array(inp, copy=True)
    if int_points:
        arg = arg.astype(np.int64)
    before = np.array(arg, copy=True)
    out = np.asarray(g.normalize_point(arg, reflect=reflect), dtype=float)
    if arg.dtype != before.dtype or not np.array_equal(arg, before):
        raise vio(S, spec, "input-modified", f"the array handed to normalize_point changed from {before.tolist()!r} to "
                  f"{arg.tolist()!r}")
    if out.shape != np.shape(inp):
        raise vio(S, spec, "shape", f"input {np.shape(inp)} output {out.shape}")
    out2 = np.asarray(g.normalize_point(np.array(out, copy=True), reflect=reflect), dtype=float)
    out = out.reshape(-1, na)
    out2 = out2.reshape(-1, na)
    nt = geo.hole
    for j in range(n):
        for kx, ax in enumerate(geo.axes):
            x, y, y2 = float(pts[j, kx]), float(out[j, kx]), float(out2[j, kx])
            X, Y = F(x), F(y)
            m = abs(x - ax.lo) / ax.len  # number of periods moved
            # rounding of (x - lo), of the result, and |m| times the error of the library's period
            tol = 4 * sp(max(abs(x), ax.scale)) + (m + 2) * 2 * ax.tol_b
            outside = x < ax.lo or x > ax.hi
            where = f"point {j} axis {kx}: x={x!r} -> {y!r} (bounds {ax.lo!r}, {ax.hi!r}, periodic={ax.per}, reflect={reflect})"
            if ax.per:
                if not (ax.lo - ax.tol_b <= y <= ax.hi + ax.tol_b):
                    raise vio(S, spec, "periodic:not-inside", where)
                if tol < ax.len / 8:
                    if float(quotient_dist(Y - X, ax.LEN)) > tol:
                        raise vio(S, spec, "periodic:not-whole-periods", where + f"; (y-x)/L={(y - x) / ax.len!r}, tol {tol:.3g}")
                    ref = ax.LO + fmod_pos(X - ax.LO, ax.LEN)
                    if float(quotient_dist(Y - ref, ax.LEN)) > tol:
                        raise vio(S, spec, "periodic:reference", where + f"; exact {float(ref)!r}")
                    labs.append("periodic:judged")
                else:
                    labs.append("periodic:period-unresolvable")
                # idempotent modulo a period
                if float(quotient_dist(F(y2) - Y, ax.LEN)) > 4 * ax.tol_b + 4 * sp(y):
                    raise vio(S, spec, "periodic:not-idempotent", where + f"; second application {y2!r}")
                if outside:
                    nt = True
                    labs.append("periodic:outside")
            elif reflect:
                if not (ax.lo - ax.tol_b <= y <= ax.hi + ax.tol_b):
                    raise vio(S, spec, "reflect:not-inside", where)
                if tol < ax.len / 8:
                    t = fmod_pos(X - ax.LO, 2 * ax.LEN)
                    ref = ax.LO + (t if t <= ax.LEN else 2 * ax.LEN - t)
                    if abs(y - float(ref)) > tol:
                        raise vio(S, spec, "reflect:reference", where + f"; exact reflection {float(ref)!r}, tol {tol:.3g}")
                    d1 = quotient_dist(Y - X, 2 * ax.LEN)
                    d2 = quotient_dist(Y + X - 2 * ax.LO, 2 * ax.LEN)
                    if float(min(d1, d2)) > tol:
                        raise vio(S, spec, "reflect:not-a-reflection", where)
                    labs.append("reflect:judged")
                else:
                    labs.append("reflect:period-unresolvable")
                if abs(y2 - y) > 4 * ax.tol_b + 4 * sp(y):
                    raise vio(S, spec, "reflect:not-idempotent", where + f"; second application {y2!r}")
                if outside:
                    nt = True
                    labs.append("reflect:outside")
            else:
                if y != x or y2 != x:
                    raise vio(S, spec, "untouched-axis-changed", where)
    labs.append("batch=" + batch)
    return {"nt": nt, "labels": sorted(set(labs))}


# =======================================================================================
# 7. distance / difference_vector
# =======================================================================================
@st.composite
def distance_strategy(draw):
    spec = draw(st.one_of(wide_grids(), wide_grids(classes=("unit", "cart", "cyl"))))
    na = len(spec["shape"])
    npts = draw(st.integers(1, 4))
    return {
        "grid": spec,
        "p1": draw(st.lists(point_recipe(na), min_size=npts, max_size=npts)),
        "p2": draw(st.lists(point_recipe(na), min_size=npts, max_size=npts)),
        "coords": draw(st.sampled_from(["grid", "grid", "cell", "cartesian"])),
        "batch": draw(st.sampled_from(["single", "list", "nested"])),
        "shift": draw(st.lists(st.one_of(st.sampled_from([0, 1, -1, 2, -3]), st.integers(-1000, 1000)),
                               min_size=3, max_size=3)),
        "shift_first": draw(st.booleans()),
        "int_points": draw(st.sampled_from([False, False, True])),
    }


def cart_components(geo, coords, pts, exact, j):
    """Exact Cartesian description of point j.

    Returns (comp, radial): ``comp[i]`` = (Fraction value, float tolerance) for every
    Cartesian component that the oracle knows exactly (Cartesian grids: all; cylinders:
    only z), ``radial`` = (value, tol) of the radius for symmetric grids given in
    grid/cell coordinates, or the float radial vector for Cartesian input.
    """
    comp = {}
    radial = None
    if not geo.sym:
        for k, ax in enumerate(geo.axes):
            if coords == "cell":
                comp[k] = (exact[j][k], ax.tol_grid(pts[j, k], float(exact[j][k])))
            else:
                comp[k] = (F(pts[j, k]), 0.0)
        return comp, radial
    axr = geo.axes[0]
    if coords == "cartesian":
        radial = ("vec", pts[j][:2] if geo.cls == "cyl" else pts[j])
        if geo.cls == "cyl":
            comp[2] = (F(pts[j][2]), 0.0)
        return comp, radial
    if coords == "cell":
        radial = ("r", exact[j][0], axr.tol_grid(pts[j, 0], float(exact[j][0])))
        if geo.cls == "cyl":
            az = geo.axes[1]
            comp[2] = (exact[j][1], az.tol_grid(pts[j, 1], float(exact[j][1])))
    else:
        radial = ("r", F(pts[j, 0]), 0.0)
        if geo.cls == "cyl":
            comp[2] = (F(pts[j, 1]), 0.0)
    return comp, radial


def wrap_exact(d: Fraction, L: Fraction) -> Fraction:
    """minimum-image representative of d modulo L (|result| <= L/2)"""
    k = math.floor(d / L + Fraction(1, 2))
    return d - k * L


def check_distance(case):
    spec = case["grid"]
    geo = Geo(spec)
    g = gg.build_grid(spec)
    S = "distance"
    na, dim = geo.num_axes, geo.dim
    coords = case["coords"]
    batch = case["batch"]
    npts = used_count(len(case["p1"]), batch)
    r1, r2 = case["p1"][:npts], case["p2"][:npts]
    P1, E1 = make_points(geo, r1, coords)
    P2, E2 = make_points(geo, r2, coords)
    labs = [gg.grid_label(spec), "coords=" + coords, "batch=" + batch]
    any_per = any(ax.per for ax in geo.axes)
    int_points = bool(case.get("int_points")) and coords != "cell"
    if int_points:
        P1, P2 = np.rint(P1), np.rint(P2)
        labs.append("integer-typed points")

    def run(A, B, as_int=True):
        a, b = reshape_batch(A, batch), reshape_batch(B, batch)
        if int_points and as_int:
            a, b = np.asarray(a).astype(np.int64), np.asarray(b).astype(np.int64)
        ka, kb = np.array(a, copy=True), np.array(b, copy=True)
        dv = np.asarray(g.difference_vector(a, b, coords=coords), dtype=float)
        ds = np.asarray(g.distance(a, b, coords=coords), dtype=float)
        if not (np.array_equal(a, ka) and np.array_equal(b, kb)):
            raise vio(S, spec, "input-modified", "")
        lead = np.shape(a)[:-1]
        if dv.shape != tuple(lead) + (dim,) and not (batch == "single" and dv.shape == (dim,)):
            raise vio(S, spec, "difference_vector-shape", f"input {np.shape(a)} output {dv.shape}")
        if ds.shape != tuple(lead):
            raise vio(S, spec, "distance-shape", f"input {np.shape(a)} output {ds.shape}")
        return dv.reshape(-1, dim), ds.reshape(-1)

    dv, ds = run(P1, P2)
    dvr, dsr = run(P2, P1)
    d11, s11 = run(P1, P1)
    if np.any(d11 != 0) or np.any(s11 != 0):
        raise vio(S, spec, "diagonal-not-zero", f"d(p,p)={s11!r} for p={P1!r}")

    nt = geo.hole
    for j in range(npts):
        c1, rad1 = cart_components(geo, coords, P1, E1, j)
        c2, rad2 = cart_components(geo, coords, P2, E2, j)
        where = f"pair {j}: p1={P1[j]!r} p2={P2[j]!r} coords={coords}; difference_vector={dv[j]!r} distance={ds[j]!r}"
        mag = float(max(np.max(np.abs(dv[j])), 0.0))
        exp_sq = Fraction(0)  # exact squared length of the expected vector
        tol_vec = 0.0
        # ---- components known exactly -------------------------------------------------
        for i in sorted(c1):
            (a, ta), (b, tb) = c1[i], c2[i]
            raw = b - a
            axk = geo.cart_axis[i]
            ax = geo.axes[axk] if axk is not None else None
            scale = max(abs(float(a)), abs(float(b)))
            tol = ta + tb + 4 * sp(scale) + 4 * sp(float(raw))
            got = float(dv[j, i])
            if ax is not None and ax.per:
                m = abs(float(raw)) / ax.len
                tol += (m + 2) * 2 * ax.tol_b
                if abs(got) > ax.len / 2 * (1 + 4 * EPS) + 2 * ax.tol_b:
                    raise vio(S, spec, "more-than-half-a-period", where + f"; component {i}: |{got!r}| > L/2={ax.len / 2!r}")
                want = wrap_exact(raw, ax.LEN)
                if tol < ax.len / 8:
                    if float(quotient_dist(F(got) - raw, ax.LEN)) > tol:
                        raise vio(S, spec, "not-a-period-image", where + f"; component {i}: {got!r} vs raw {float(raw)!r} "
                                  f"(L={ax.len!r}, tol {tol:.3g})")
                    if abs(abs(got) - abs(float(want))) > tol:
                        raise vio(S, spec, "not-minimum-image", where + f"; component {i}: {got!r}, minimum image {float(want)!r}")
                    labs.append("periodic-component:judged")
                else:
                    labs.append("periodic-component:unresolvable")
                    want = F(got)
                if abs(raw) > ax.LEN / 2:
                    nt = True
                    labs.append("straddles-seam-or-outside")
                exp_sq += want**2
            else:
                if abs(got - float(raw)) > tol:
                    raise vio(S, spec, "component", where + f"; component {i}: {got!r}, expected {float(raw)!r}, tol {tol:.3g}")
                exp_sq += raw**2
            tol_vec += tol
        # ---- radial part of symmetric grids ---------------------------------------------
        if geo.sym:
            rad_idx = [0, 1] if geo.cls == "cyl" else list(range(dim))
            got_rad = radius_of(dv[j, rad_idx])
            if rad1[0] == "r":
                dr = rad2[1] - rad1[1]
                tol = rad1[2] + rad2[2] + 16 * EPS * max(abs(float(rad1[1])), abs(float(rad2[1]))) + FLOOR
                if abs(got_rad - abs(float(dr))) > tol:
                    raise vio(S, spec, "radial-part", where + f"; |radial part|={got_rad!r}, |r2-r1|={abs(float(dr))!r}")
                exp_sq += dr**2
                tol_vec += tol
            else:
                d = [F(b) - F(a) for a, b in zip(rad1[1], rad2[1])]
                scale = max(float(np.max(np.abs(rad1[1]))), float(np.max(np.abs(rad2[1]))))
                tol = 8 * EPS * scale
                for ii, i in enumerate(rad_idx):
                    if abs(dv[j, i] - float(d[ii])) > tol:
                        raise vio(S, spec, "component", where + f"; component {i}: expected {float(d[ii])!r}")
                exp_sq += sum(x**2 for x in d)
                tol_vec += tol * len(d)
        # ---- distance ------------------------------------------------------------------
        exp = sqrt_frac(exp_sq)
        tol_d = tol_vec + 8 * EPS * exp + FLOOR
        if abs(ds[j] - exp) > tol_d:
            raise vio(S, spec, "distance-value", where + f"; expected {exp!r}, tol {tol_d:.3g}")
        if abs(ds[j] - radius_of(dv[j])) > 8 * EPS * (mag + exp) + FLOOR:
            raise vio(S, spec, "distance-vs-vector-norm", where)
        # ---- symmetry --------------------------------------------------------------------
        if abs(ds[j] - dsr[j]) > 2 * tol_d:
            raise vio(S, spec, "not-symmetric", where + f"; d(p2,p1)={dsr[j]!r}")
        for i in range(dim):
            s = dv[j, i] + dvr[j, i]
            axk = geo.cart_axis[i]
            ax = geo.axes[axk] if axk is not None else None
            if ax is not None and ax.per:
                if min(abs(s), abs(abs(s) - ax.len)) > 2 * tol_d:
                    raise vio(S, spec, "vector-not-antisymmetric", where + f"; reverse vector {dvr[j]!r}")
            elif abs(s) > 2 * tol_d:
                raise vio(S, spec, "vector-not-antisymmetric", where + f"; reverse vector {dvr[j]!r}")
        # ---- brute force over the mirror images (Cartesian description known completely) ----
        if not geo.sym or (geo.cls == "cyl" and coords != "cartesian"):
            if geo.sym:
                base = [rad2[1] - rad1[1], c2[2][0] - c1[2][0]]
                lens = [None, geo.axes[1].LEN if geo.axes[1].per else None]
            else:
                base = [c2[i][0] - c1[i][0] for i in range(dim)]
                lens = [geo.axes[i].LEN if geo.axes[i].per else None for i in range(dim)]
            if all(L is None or abs(b) <= L * Fraction(3, 2) for b, L in zip(base, lens)):
                best = None
                for ks in itertools.product(*[([0] if L is None else [-1, 0, 1]) for L in lens]):
                    sq = sum((b + (k * L if L is not None else 0)) ** 2 for b, k, L in zip(base, ks, lens))
                    best = sq if best is None or sq < best else best
                bf = sqrt_frac(best)
                if abs(ds[j] - bf) > tol_d:
                    raise vio(S, spec, "not-brute-force-minimum", where + f"; minimum over mirror images {bf!r}")
                labs.append("brute-force:judged")
        # ---- nothing periodic: Euclidean distance of the Cartesian images --------------------
        if not any_per:
            x1 = np.asarray(g.transform(P1[j], coords, "cartesian"), dtype=float)
            x2 = np.asarray(g.transform(P2[j], coords, "cartesian"), dtype=float)
            eu = radius_of(x2 - x1)
            sc = max(float(np.max(np.abs(x1))), float(np.max(np.abs(x2))))
            if abs(ds[j] - eu) > 8 * EPS * (sc + eu) * dim + FLOOR:
                raise vio(S, spec, "not-euclidean", where + f"; |x2-x1|={eu!r}")

    # ---- invariance under shifts by whole periods (grid / cell coordinates) -----------------
    if any_per and coords != "cartesian":
        Q = P1.copy() if case["shift_first"] else P2.copy()
        moved = 0.0
        extra = 0.0
        for k, ax in enumerate(geo.axes):
            if ax.per and case["shift"][k]:
                step = ax.n if coords == "cell" else ax.len
                Q[:, k] = Q[:, k] + case["shift"][k] * step
                moved = max(moved, abs(case["shift"][k]))
                sc = float(np.max(np.abs(Q[:, k])))
                unit = (ax.tol_dx * (abs(sc)) + 4 * sp(sc) * ax.dx) if coords == "cell" else 4 * sp(max(sc, ax.scale))
                extra += unit + (abs(case["shift"][k]) + 2) * 2 * ax.tol_b + abs(case["shift"][k]) * 2 * sp(ax.len)
        if moved:
            # (points shifted by whole periods are not integers any more: handed over as floats)
            _, dq = run(Q, P2, as_int=False) if case["shift_first"] else run(P1, Q, as_int=False)
            lmin = min(ax.len for ax in geo.axes if ax.per)
            for j in range(npts):
                sc = max(float(np.max(np.abs(P1[j]))), float(np.max(np.abs(P2[j]))))
                base_tol = 16 * EPS * max(sc, max(ax.scale for ax in geo.axes)) * dim
                if coords == "cell":
                    base_tol = sum(ax.tol_grid(max(abs(P1[j, k]), abs(P2[j, k])), ax.scale) for k, ax in enumerate(geo.axes)) * 2
                if extra + base_tol >= lmin / 8:
                    labs.append("period-shift:unresolvable")
                    continue
                labs.append("period-shift:judged")
                if abs(dq[j] - ds[j]) > extra + base_tol + 16 * EPS * ds[j] + FLOOR:
                    raise vio(S, spec, "not-invariant-under-period-shift",
                              f"pair {j}: d={ds[j]!r}, after shifting by {case['shift']} periods d={dq[j]!r}; "
                              f"p1={P1[j]!r} p2={P2[j]!r} shifted={Q[j]!r} coords={coords}")
            nt = True
    return {"nt": nt, "labels": sorted(set(labs))}


# =======================================================================================
# 8. the coordinate systems themselves
# =======================================================================================
@st.composite
def coordsys_strategy(draw):
    system = draw(st.sampled_from(["polar", "spherical", "cylindrical", "cartesian1", "cartesian2", "cartesian3"]))
    npts = draw(st.integers(1, 4))
    pts = []
    for _ in range(npts):
        pts.append({
            "r": draw(gg.log_float(1e-6, 1e6)),
            "a": draw(st.floats(0, 1, exclude_max=True)),
            "b": draw(st.floats(0, 1, exclude_max=True)),
            "z": draw(st.floats(-1e6, 1e6)),
            "w": draw(st.floats(0.01, 0.9)),
        })
    return {"system": system, "points": pts, "batch": draw(st.sampled_from(["single", "list", "nested"]))}


def own_to_cart(system, q):
    if system == "polar":
        return [q[0] * math.cos(q[1]), q[0] * math.sin(q[1])]
    if system == "cylindrical":
        return [q[0] * math.cos(q[1]), q[0] * math.sin(q[1]), q[2]]
    if system == "spherical":
        return [q[0] * math.sin(q[1]) * math.cos(q[2]), q[0] * math.sin(q[1]) * math.sin(q[2]),
                q[0] * math.cos(q[1])]
    return list(q)


def own_jacobian(system, q):
    """textbook d(x_i)/d(q_j)"""
    if system == "polar":
        r, p = q
        return np.array([[math.cos(p), -r * math.sin(p)], [math.sin(p), r * math.cos(p)]])
    if system == "cylindrical":
        r, p, _ = q
        return np.array([[math.cos(p), -r * math.sin(p), 0], [math.sin(p), r * math.cos(p), 0], [0, 0, 1.0]])
    if system == "spherical":
        r, t, p = q
        st_, ct, sp_, cp = math.sin(t), math.cos(t), math.sin(p), math.cos(p)
        return np.array([[st_ * cp, r * ct * cp, -r * st_ * sp_],
                         [st_ * sp_, r * ct * sp_, r * st_ * cp],
                         [ct, -r * st_, 0.0]])
    return np.eye(len(q))


def check_coordsys(case):
    system = case["system"]
    S = "coordinate_systems"
    spec = {"cls": system}
    if system == "polar":
        c = PolarCoordinates()
    elif system == "spherical":
        c = SphericalCoordinates()
    elif system == "cylindrical":
        c = CylindricalCoordinates()
    else:
        c = CartesianCoordinates(int(system[-1]))
    dim = c.dim
    batch = case["batch"]
    n = used_count(len(case["points"]), batch)
    qs, widths = [], []
    for p in case["points"][:n]:
        if system == "polar":
            q = [p["r"], 2 * PI * p["a"]]
            w = [p["r"] * p["w"], 0.3 * p["w"]]
        elif system == "cylindrical":
            q = [p["r"], 2 * PI * p["a"], p["z"]]
            w = [p["r"] * p["w"], 0.3 * p["w"], p["r"] * p["w"]]
        elif system == "spherical":
            q = [p["r"], PI * (0.02 + 0.96 * p["b"]), 2 * PI * p["a"]]
            w = [p["r"] * p["w"], 0.01 * p["w"], 0.3 * p["w"]]
        else:
            q = [p["z"], p["r"], -p["r"] * p["a"]][:dim]
            w = [p["r"] * p["w"]] * dim
        qs.append(q)
        widths.append(w)
    Q = np.array(qs, dtype=float)
    inp = reshape_batch(Q, batch)
    lead = np.shape(inp)[:-1]
    X = np.asarray(c.pos_to_cart(inp), dtype=float)
    if X.shape != tuple(lead) + (dim,):
        raise vio(S, spec, "pos_to_cart:shape", f"{X.shape}")
    X = X.reshape(-1, dim)
    back = np.asarray(c.pos_from_cart(X.reshape(tuple(lead) + (dim,))), dtype=float).reshape(-1, dim)
    J = np.asarray(c.mapping_jacobian(inp), dtype=float)
    if J.shape != (dim, dim) + tuple(lead):
        raise vio(S, spec, "mapping_jacobian:shape", f"{J.shape}")
    J = J.reshape(dim, dim, -1)
    vf = np.asarray(c.volume_factor(inp), dtype=float).reshape(-1)
    sf = np.asarray(c.scale_factors(inp), dtype=float).reshape(dim, -1)
    for j in range(n):
        q = qs[j]
        own = own_to_cart(system, q)
        rr = max(abs(v) for v in own) if system.startswith("cart") else max(q[0], abs(q[2]) if system == "cylindrical" else 0)
        tol = 8 * EPS * rr
        for i in range(dim):
            if abs(X[j, i] - own[i]) > tol:
                raise vio(S, spec, "pos_to_cart", f"q={q!r}: {X[j]!r} vs textbook {own!r}")
        # inverse: radius / height exactly, angles through their Cartesian image
        img = own_to_cart(system, list(back[j]))
        for i in range(dim):
            if abs(img[i] - X[j, i]) > 4 * tol:
                raise vio(S, spec, "pos_from_cart:not-inverse", f"x={X[j]!r} -> {back[j]!r} -> {img!r}")
        if not system.startswith("cart"):
            radial = X[j][:2] if system != "spherical" else X[j]
            if abs(back[j, 0] - radius_of(radial)) > 8 * EPS * q[0]:
                raise vio(S, spec, "pos_from_cart:radius", f"x={X[j]!r} -> r={back[j, 0]!r}")
            ang = back[j, 1:] if system != "cylindrical" else back[j, 1:2]
            orig = q[1:] if system != "cylindrical" else q[1:2]
            for a, o in zip(ang, orig):
                d = (a - o + PI) % (2 * PI) - PI
                cond = 1.0 / math.sin(q[1]) if system == "spherical" else 1.0
                if abs(d) > 64 * EPS * cond * 8:
                    raise vio(S, spec, "pos_from_cart:angle", f"q={q!r} -> {back[j]!r}")
            if system == "cylindrical" and back[j, 2] != q[2]:
                raise vio(S, spec, "pos_from_cart:z", f"q={q!r} -> {back[j]!r}")
        # Jacobian, volume factor, scale factors
        Jo = own_jacobian(system, q)
        colnorm = np.sqrt((Jo**2).sum(axis=0))
        for a in range(dim):
            for b in range(dim):
                if abs(J[a, b, j] - Jo[a, b]) > 16 * EPS * max(colnorm[b], 1e-300):
                    raise vio(S, spec, "mapping_jacobian", f"q={q!r}: entry ({a},{b}) {J[a, b, j]!r} vs {Jo[a, b]!r}")
        det = abs(float(np.linalg.det(Jo / colnorm))) * float(np.prod(colnorm))
        if abs(vf[j] - det) > 1e-12 * det:
            raise vio(S, spec, "volume_factor", f"q={q!r}: {vf[j]!r} vs |det J|={det!r}")
        for b in range(dim):
            if abs(sf[b, j] - colnorm[b]) > 16 * EPS * colnorm[b]:
                raise vio(S, spec, "scale_factors", f"q={q!r}: {sf[:, j]!r} vs {colnorm!r}")
        # volume between coordinate surfaces
        lo = [F(v) for v in q]
        hi = [F(v) + F(w) for v, w in zip(q, widths[j])]
        hi_f = [float(h) for h in hi]
        hi = [F(h) for h in hi_f]
        if system == "polar":
            exact = float((hi[1] - lo[1]) * (hi[0] ** 2 - lo[0] ** 2) / 2)
            rel = 16 * EPS * (1 + hi_f[0] ** 2 / float(hi[0] ** 2 - lo[0] ** 2))
        elif system == "cylindrical":
            exact = float((hi[1] - lo[1]) * (hi[2] - lo[2]) * (hi[0] ** 2 - lo[0] ** 2) / 2)
            rel = 16 * EPS * (1 + hi_f[0] ** 2 / float(hi[0] ** 2 - lo[0] ** 2)
                              + max(abs(q[2]), abs(hi_f[2])) / float(hi[2] - lo[2]))
        elif system == "spherical":
            dcos = math.cos(q[1]) - math.cos(hi_f[1])
            exact = float(hi[2] - lo[2]) * dcos * float(hi[0] ** 3 - lo[0] ** 3) / 3
            rel = 16 * EPS * (1 + hi_f[0] ** 3 / float(hi[0] ** 3 - lo[0] ** 3) + 1.0 / abs(dcos))
        else:
            exact = float(np.prod([float(h - l) for h, l in zip(hi, lo)]))
            rel = 16 * EPS * sum(1 + max(abs(float(l)), abs(float(h))) / float(h - l) for h, l in zip(hi, lo))
        got = float(np.asarray(c.cell_volume(np.array(q), np.array(hi_f))))
        if abs(got - exact) > rel * abs(exact):
            raise vio(S, spec, "cell_volume", f"between {q!r} and {hi_f!r}: {got!r} vs closed form {exact!r}")
    return {"nt": True, "labels": [system, "batch=" + batch]}


# =======================================================================================
def _grid_only():
    return st.fixed_dictionaries({"grid": wide_grids()})


def _sub(name, strategy, check, q, t, rule, shards=2):
    return SubCheck(name=name, strategy=strategy, check=check, mode="pure",
                    budget={"quick": q, "thorough": t}, shards={"quick": shards, "thorough": 2},
                    time_limit={"quick": 150, "thorough": 1500}, rule=rule)


SUBCHECKS = [
    _sub("discretisation", discretisation_strategy, check_discretisation, 2000, 40000,
         "every grid counts"),
    _sub("cell_volumes", _grid_only, check_cell_volumes, 2500, 50000, "every grid counts"),
    _sub("integrate_project", integrate_strategy, check_integrate_project, 2500, 50000,
         "non-trivial = at least two axes, or a hole, or non-constant data"),
    _sub("transform_roundtrip", transform_strategy, check_transform, 3000, 60000, "every case counts"),
    _sub("contains_random_points", contains_strategy, check_contains, 3000, 60000,
         "non-trivial = a generated point was judged, or at least one recipe point had decidable membership"),
    _sub("normalize_point", normalize_strategy, check_normalize, 3000, 60000,
         "non-trivial = a point outside the primary cell on a periodic or reflected axis, or a grid with hole"),
    _sub("distance", distance_strategy, check_distance, 3000, 60000,
         "non-trivial = a pair farther apart than half a period on a periodic axis (straddling the seam "
         "or outside), a period shift, or a grid with hole"),
    _sub("coordinate_systems", coordsys_strategy, check_coordsys, 1500, 20000, "every case counts", shards=1),
]
