"""C15 - field objects share or isolate memory exactly as documented.

``AliasMachine``: a population of handles (scalar/vector/tensor fields and collections on
two small grids) next to a *shadow memory*: every handle owns a NumPy view into buffers
owned by the model.  The documented memory relations are built into how the model creates
its views (a collection's members are views of rows ``slices[i]`` of the collection's
buffer, fields in order and tensor components row-major; ``vector[i]``/``tensor[i, j]`` are
views of the parent; copies, slices, ``append`` results, arithmetic results and fields
returned by operators get fresh buffers).  Every write is applied to the real object
through the public API and to the model view with plain NumPy.  After every rule

* every live handle's padded array (ghost cells included) equals its model view,
* ``np.shares_memory`` of every pair of handles equals ``np.shares_memory`` of the model views,
* ``h.data`` is a view of ``h._data_full`` showing exactly the valid cells,
* a collection's ``fields`` are the registered member objects (identity).

Operands of binary operations being unchanged, in-place operations touching only valid
cells of their target, and writes not leaking into other fields all follow from the first
item because every handle is compared after every rule.

Lessons built in (DESIGN.md C15): the registry is keyed by object identity (``collection[i]``
returns the object that was passed in); a collection whose member was re-linked into another
collection with ``copy_fields=False`` is stale by the documented restriction and is retired
from the population; ghost cells of freshly produced fields are unspecified - a new result
is judged on its valid cells (NaN-safe) and its ghost cells are then adopted by the model.
Collections are created from both documented input formats, a sequence and a mapping
label -> field (dict / read-only mapping; the keys become the member labels, a ``labels``
argument is ignored); both are modelled identically: a field object that occurs twice forces
a copy of all fields (seed C15-4: the repetition was not detected for mappings).
"""

from __future__ import annotations

import logging
import operator
import copy
import pickle
import types
import warnings

import numpy as np
from hypothesis import strategies as st

from vlib import env

env.setup()

import pde  # noqa: E402
from pde import FieldCollection, MemoryStorage, ScalarField, Tensor2Field, VectorField  # noqa: E402

from vlib import gen_grids  # noqa: E402
from vlib.core import History, SubCheck, Violation  # noqa: E402
from vlib.hist_util import expect_rejection, guard_class  # noqa: E402

logging.getLogger("pde").setLevel(logging.ERROR)  # "Creating a copy of identical fields" is expected

PROPERTY = "C15"
RULE = ("histories over a population of field handles with a shadow-memory model; distinct = "
        "whole history (init, operation list)")
ASSUMPTIONS = [
    "a collection whose member field was re-linked into another collection with copy_fields=False "
    "is not used any more (documented: a field cannot be linked to several collections)",
    "values written into real-valued fields are real (complex values into real fields are "
    "rejected or truncated by NumPy)",
    "ghost cells of freshly produced fields are unspecified; what boundary conditions write into "
    "ghost cells is C02's subject - here the ghost region is adopted after set_ghost_cells / "
    "operators with bc and only 'valid cells unchanged, nothing else touched' is asserted",
    "values of interpolate_to_grid, smooth, differential operators and to_scalar are adopted "
    "(judged by C01/C16/C19); for them only the memory relations are asserted",
    "whether a field created with with_ghost_cells=True aliases the array it was given is not "
    "asserted (the array is not used again)",
    "arithmetic results are compared with rtol 1e-12 (NaN-safe) and then adopted, so that "
    "contiguity-dependent last-digit differences of np.power/np.sin do not accumulate",
]

RANK = {"scalar": 0, "vector": 1, "tensor": 2}
CLS = {"scalar": ScalarField, "vector": VectorField, "tensor": Tensor2Field, "coll": FieldCollection}
KIND_OF_CLS = {"ScalarField": "scalar", "VectorField": "vector", "Tensor2Field": "tensor",
               "FieldCollection": "coll"}
DATA_KINDS = ("scalar", "vector", "tensor")
#: documented component names: grid axes followed by the symmetric axes
AXES = {"polar": ["r", "φ"], "sph": ["r", "θ", "φ"], "cyl": ["r", "z", "φ"]}
NUMBERS = [2.0, -1.0, 0.5, 3.0, -3.0, 7.0, 0.0]
RTOL = 1e-12
MAXPOP = 10
#: labels for the members of a collection (mapping keys / ``labels`` argument); "a", "b", "zz" are
#: also the labels that ``getitem`` asks for
COLLECT_KEYS = ["a", "b", "zz", "c"]


def np_dtype(code):
    return np.dtype("complex128" if code == "c16" else "float64")


def code_of(dtype):
    return "c16" if np.dtype(dtype).kind == "c" else "f8"


def axis_names(gspec):
    if gspec["cls"] in ("unit", "cart"):
        return ["x", "y", "z"][: len(gspec["shape"])]
    return AXES[gspec["cls"]]


def close(a, b):
    a, b = np.asarray(a), np.asarray(b)
    if a.shape != b.shape:
        return False
    with np.errstate(all="ignore"):
        return bool(np.allclose(a, b, rtol=RTOL, atol=0.0, equal_nan=True))


def same(a, b):
    a, b = np.asarray(a), np.asarray(b)
    return a.shape == b.shape and a.dtype == b.dtype and bool(np.array_equal(a, b, equal_nan=True))


class Entry:
    """one handle: the py-pde object and its view into model-owned memory"""

    _count = 0

    def __init__(self, obj, full, kind, gidx, tag):
        self.obj = obj
        self.full = full  # model view of obj._data_full
        self.kind = kind
        self.gidx = gidx
        self.tag = tag
        self.members = None  # list[Entry] for collections
        self.owner = None  # collection entry this field is linked to
        self.copy_related = False  # source or result of a copy-like operation
        Entry._count += 1
        self.uid = Entry._count

    @property
    def layout(self):
        return tuple(m.kind for m in self.members) if self.members is not None else (self.kind,)

    def __repr__(self):
        return f"<{self.kind}#{self.uid} {self.tag}>"


# =====================================================================================
# strategies
# =====================================================================================
def small_grids():
    return gen_grids.grids(max_cells=3, max_axes=2, len_lo=0.5, len_hi=4.0, offset_mag=2.0)


def new_field_args():
    return st.fixed_dictionaries({
        "kind": st.sampled_from(["scalar", "scalar", "vector", "vector", "tensor"]),
        "gidx": st.sampled_from([0, 0, 0, 1]),
        "dtype": st.sampled_from(["f8", "f8", "f8", "c16"]),
        "route": st.sampled_from(["data", "data", "full", "full", "from_field", "value"]),
        "seed": st.integers(0, 10**6),
        "label": st.sampled_from([None, "a", "b", "a"]),
        "upcast": st.booleans(),
        "src": st.integers(0, 20),
    })


def value_specs():
    return st.one_of(
        st.fixed_dictionaries({"t": st.just("num"), "v": st.sampled_from(NUMBERS)}),
        st.fixed_dictionaries({"t": st.just("num"), "v": st.sampled_from(NUMBERS),
                               "im": st.sampled_from([0.0, 1.0, -2.0])}),
        st.fixed_dictionaries({"t": st.just("arr"), "seed": st.integers(0, 10**6)}),
        st.fixed_dictionaries({"t": st.just("field"), "i": st.integers(0, 20)}),
        st.fixed_dictionaries({"t": st.just("field"), "i": st.integers(0, 20)}),
    )


@st.composite
def init_cases(draw):
    g0 = draw(small_grids())
    g1 = draw(st.one_of(small_grids(), st.just(g0)))
    fields = draw(st.lists(new_field_args(), min_size=2, max_size=4))
    fields[0]["gidx"] = 0
    return {"grids": [g0, g1], "fields": fields}


# =====================================================================================
class AliasHistory(History):
    @classmethod
    def init_strategy(cls):
        return init_cases()

    def __init__(self, init):
        super().__init__(init)
        self.ctx = "init"
        self.gspecs = init["grids"]
        self.grids = [gen_grids.build_grid(s) for s in self.gspecs]
        self.pop = []  # population of entries
        self.flags = set()
        self.nops = 0
        self.retired = 0
        Entry._count = 0
        for args in init["fields"]:
            self.op_new(**args)

    # ---------------------------------------------------------------------------------
    # geometry helpers (from the specs)
    # ---------------------------------------------------------------------------------
    def dim(self, gidx):
        return gen_grids.dim_of(self.gspecs[gidx])

    def naxes(self, gidx):
        return len(self.gspecs[gidx]["shape"])

    def full_grid(self, gidx):
        return tuple(n + 2 for n in self.gspecs[gidx]["shape"])

    def full_shape(self, kind, gidx):
        return (self.dim(gidx),) * RANK[kind] + self.full_grid(gidx)

    def vidx(self, gidx):
        return (Ellipsis,) + (slice(1, -1),) * self.naxes(gidx)

    def valid(self, e):
        return e.full[self.vidx(e.gidx)]

    def same_grid(self, a, b):
        return a == b or self.gspecs[a] == self.gspecs[b]

    # ---------------------------------------------------------------------------------
    def fail(self, what, detail):
        raise Violation(f"[{self.ctx}] {what}: {detail}", key=f"{self.ctx.split(':')[0]}:{what}")

    def live(self):
        out, seen = [], set()
        for e in self.pop:
            for x in [e] + (e.members or []):
                if id(x) not in seen:
                    seen.add(id(x))
                    out.append(x)
        return out

    def add(self, e):
        if all(x is not e for x in self.pop):
            self.pop.append(e)
        return e

    def pick(self, idx, pred=lambda e: True):
        cands = [e for e in self.pop if pred(e)]
        return cands[idx % len(cands)] if cands else None

    def has(self, pred):
        return any(pred(e) for e in self.pop)

    # -- registering new objects -------------------------------------------------------
    def member_views(self, buf, kinds, gidx):
        """views of the rows of a collection buffer: fields in order, components row-major"""
        views, start = [], 0
        for kind in kinds:
            n = self.dim(gidx) ** RANK[kind]
            v = buf[start:start + n].reshape(self.full_shape(kind, gidx))
            if not np.shares_memory(v, buf):
                raise AssertionError("model view is a copy")
            views.append(v)
            start += n
        if start != buf.shape[0]:
            raise AssertionError("model layout")
        return views

    def check_class(self, obj, kind, what):
        if type(obj) is not CLS[kind]:
            self.fail("class", f"{what}: got {type(obj).__name__}, expected {CLS[kind].__name__}")

    def register_collection(self, obj, buf, kinds, gidx, tag, members=None):
        """entry for a collection object whose model buffer is ``buf``; ``members`` are the
        existing entries that were linked (copy_fields=False) or None for fresh copies"""
        self.check_class(obj, "coll", tag)
        fields = obj.fields
        if len(fields) != len(kinds):
            self.fail("members", f"{tag}: {len(fields)} members, expected {len(kinds)}")
        e = Entry(obj, buf, "coll", gidx, tag)
        views = self.member_views(buf, kinds, gidx)
        e.members = []
        for k, (kind, view) in enumerate(zip(kinds, views)):
            self.check_class(fields[k], kind, f"{tag} member {k}")
            if members is None:
                m = Entry(fields[k], view, kind, gidx, f"member {k} of #{e.uid}")
            else:
                m = members[k]
                if fields[k] is not m.obj:
                    self.fail("identity", f"{tag}: member {k} is not the field object that was passed in")
                if m.owner is not None and m.owner is not e:
                    self.retire(m.owner)
                m.full = view
            m.owner = e
            e.members.append(m)
        return e

    def retire(self, coll):
        """a collection became stale (one of its members was linked elsewhere)"""
        if any(x is coll for x in self.pop):
            self.pop = [x for x in self.pop if x is not coll]
            self.retired += 1
            self.flags.add("stale-collection-retired")

    def adopt_new(self, obj, kind, gidx, tag, expected_valid=None, layout=None, expected_dtype=None):
        """register a freshly produced object: judge the valid cells, adopt the rest"""
        self.check_class(obj, kind, tag)
        real = obj._data_full
        kinds = layout if kind == "coll" else (kind,)
        ncomp = sum(self.dim(gidx) ** RANK[k] for k in kinds)
        shape = ((ncomp,) + self.full_grid(gidx)) if kind == "coll" else self.full_shape(kind, gidx)
        if real.shape != shape:
            self.fail("shape", f"{tag}: padded array has shape {real.shape}, expected {shape}")
        if expected_dtype is not None and real.dtype != expected_dtype:
            self.fail("dtype", f"{tag}: dtype {real.dtype}, expected {expected_dtype}")
        if expected_valid is not None:
            got = real[self.vidx(gidx)]
            if not close(got, expected_valid):
                self.fail("value", f"{tag}: valid data {np.asarray(got).tolist()} expected "
                          f"{np.asarray(expected_valid).tolist()}")
        buf = np.array(real)  # fresh model buffer: aliases nothing
        if kind == "coll":
            return self.register_collection(obj, buf, kinds, gidx, tag)
        return Entry(obj, buf, kind, gidx, tag)

    def sync(self, e, what):
        """after an arithmetic in-place operation: real and model agree up to RTOL on the
        whole padded array, then the model takes the real values"""
        real = e.obj._data_full
        if real.shape != e.full.shape or real.dtype != e.full.dtype:
            self.fail("shape", f"{what}: padded array {real.shape}/{real.dtype}, model {e.full.shape}/{e.full.dtype}")
        if not close(real, e.full):
            v = self.vidx(e.gidx)
            where = "valid cells" if not close(real[v], e.full[v]) else "ghost cells"
            self.fail("inplace-" + where.split()[0], f"{what}: {where} differ: real {real.tolist()} model "
                      f"{e.full.tolist()}")
        e.full[...] = real

    def adopt_ghost(self, e, what):
        """ghost region was (legitimately) rewritten: valid cells must be unchanged"""
        real = e.obj._data_full
        v = self.vidx(e.gidx)
        if not same(real[v], e.full[v]):
            self.fail("valid-changed", f"{what}: valid cells changed: {real[v].tolist()} expected {e.full[v].tolist()}")
        mask = np.ones(e.full.shape, dtype=bool)
        mask[v] = False
        e.full[mask] = real[mask]

    # ---------------------------------------------------------------------------------
    # invariant
    # ---------------------------------------------------------------------------------
    def invariant(self):
        self.nops += 1
        live = self.live()
        for e in live:
            real = e.obj._data_full
            if real.shape != e.full.shape:
                self.fail("shape", f"{e}: padded array shape {real.shape}, model {e.full.shape}")
            if real.dtype != e.full.dtype:
                self.fail("dtype", f"{e}: dtype {real.dtype}, model {e.full.dtype}")
            if not same(real, e.full):
                v = self.vidx(e.gidx)
                where = "valid" if not same(real[v], e.full[v]) else "ghost"
                self.fail(f"content-{where}", f"{e}: {where} cells differ from the model after the operation (padded arrays): "
                          f"real {real.tolist()} model {e.full.tolist()}")
            data = e.obj.data
            if not np.shares_memory(data, real) or data.base is None:
                self.fail("data-not-view", f"{e}: .data is not a view of the padded array")
            if not same(data, real[self.vidx(e.gidx)]):
                self.fail("data-not-valid-cells", f"{e}: .data {data.tolist()} is not the valid part of the "
                          f"padded array {real.tolist()}")
            if e.members is not None:
                fields = e.obj.fields
                if len(fields) != len(e.members) or any(f is not m.obj for f, m in zip(fields, e.members)):
                    self.fail("identity", f"{e}: collection.fields are not the registered member objects")
        for i, a in enumerate(live):
            for b in live[:i]:
                real = bool(np.shares_memory(a.obj._data_full, b.obj._data_full))
                model = bool(np.shares_memory(a.full, b.full))
                if real != model:
                    self.fail("alias" if real else "no-alias",
                              f"{a} and {b} {'share' if real else 'do not share'} memory, documented: "
                              f"{'shared' if model else 'independent'}")

    # ---------------------------------------------------------------------------------
    # value helpers
    # ---------------------------------------------------------------------------------
    def number(self, spec, complex_ok):
        v = float(spec["v"])
        if complex_ok and spec.get("im"):
            return complex(v, spec["im"])
        return v

    def resolve_value(self, spec, target_shape, target_gidx, complex_ok, field_pred):
        """-> (real-side value, model-side value, label) or None when not applicable"""
        if spec["t"] == "num":
            x = self.number(spec, complex_ok)
            return x, x, "number"
        if spec["t"] == "arr":
            arr = np.array(gen_grids.rng_array(spec["seed"], target_shape, "c16" if complex_ok and spec["seed"] % 3 == 0
                                               else "f8", dist="int"))
            return arr, arr.copy(), "array"
        other = self.pick(spec["i"], lambda e: self.same_grid(e.gidx, target_gidx) and field_pred(e)
                          and (complex_ok or e.full.dtype.kind != "c"))
        if other is None:
            return None
        return other.obj, self.valid(other), "field:" + other.kind

    def note_write(self, e):
        """bookkeeping for the non-triviality rule"""
        if any(x is not e and np.shares_memory(x.full, e.full) for x in self.live()):
            self.flags.add("write-seen-through-alias")
        if e.copy_related or (e.owner is not None and e.owner.copy_related) or any(
                m.copy_related for m in (e.members or [])):
            self.flags.add("write-after-copy")

    # ---------------------------------------------------------------------------------
    # builders
    # ---------------------------------------------------------------------------------
    def room(self):
        return len(self.pop) < MAXPOP

    def b_new(self):
        return new_field_args() if self.room() else None

    def b_copy(self):
        if not self.room():
            return None
        return st.fixed_dictionaries({"h": st.integers(0, 20), "label": st.sampled_from([None, None, "cp"]),
                                      "upcast": st.sampled_from([False, False, True]),
                                      # duplicates made by the standard library (reported by a seeding agent:
                                      # they came back with `.data` detached from the padded array)
                                      "how": st.sampled_from(["copy", "copy", "deepcopy", "pickle"])})

    def b_collect(self):
        if not self.room() or not self.has(lambda e: e.kind in DATA_KINDS):
            return None
        hs = st.lists(st.integers(0, 20), min_size=1, max_size=3)
        # the same field OBJECT at two positions (documented: forces a copy of all fields)
        dup = st.lists(st.integers(0, 20), min_size=1, max_size=2).map(lambda x: [*x, x[0]])
        return st.fixed_dictionaries({"hs": st.one_of(hs, hs, dup),
                                      "copy_fields": st.sampled_from([False, False, True]),
                                      # input format: sequence or mapping label -> field
                                      "fmt": st.sampled_from(["list", "list", "dict", "dict", "proxy"]),
                                      "keys": st.permutations(COLLECT_KEYS).map(lambda x: list(x[:3])),
                                      "labels_arg": st.sampled_from([False, False, True]),
                                      # explicit `dtype` argument (after missed seed C15-5: with copy_fields=True
                                      # fields of another dtype were adopted instead of copied)
                                      "dtype_arg": st.sampled_from([None, None, "complex", "result"])})

    def _has_coll(self):
        return self.has(lambda e: e.kind == "coll")

    def b_getitem(self):
        if not self._has_coll():
            return None
        return st.fixed_dictionaries({"h": st.integers(0, 20),
                                      "key": st.one_of(st.integers(-3, 3), st.sampled_from(["a", "b", "zz"]))})

    def b_slice(self):
        if not self.room() or not self._has_coll():
            return None
        return st.fixed_dictionaries({"h": st.integers(0, 20), "i": st.sampled_from([None, 0, 1, -1, 2]),
                                      "j": st.sampled_from([None, 1, 2, -1, 3])})

    def b_append(self):
        if not self.room() or not self._has_coll():
            return None
        return st.fixed_dictionaries({"h": st.integers(0, 20), "others": st.lists(st.integers(0, 20), min_size=1,
                                                                                   max_size=2)})

    def b_component(self):
        if not self.room() or not self.has(lambda e: e.kind in ("vector", "tensor")):
            return None
        return st.fixed_dictionaries({"h": st.integers(0, 20), "i": st.integers(0, 2), "j": st.integers(0, 2),
                                      "by_name": st.booleans()})

    def b_set_data(self):
        return st.fixed_dictionaries({"h": st.integers(0, 20), "val": value_specs()})

    def b_set_item(self):
        return st.fixed_dictionaries({"h": st.integers(0, 20),
                                      "where": st.sampled_from(["first", "row", "last", "slab"]),
                                      "k": st.integers(0, 8), "v": st.sampled_from(NUMBERS)})

    def b_set_full(self):
        return st.fixed_dictionaries({"h": st.integers(0, 20),
                                      "where": st.sampled_from(["all", "ghost_lo", "ghost_hi", "corner", "row"]),
                                      "k": st.integers(0, 8), "v": st.sampled_from(NUMBERS)})

    def b_setitem_api(self):
        if not self.has(lambda e: e.kind != "scalar"):
            return None
        return st.fixed_dictionaries({"h": st.integers(0, 20), "i": st.integers(0, 2), "j": st.integers(0, 2),
                                      "by_name": st.booleans(), "val": value_specs()})

    def b_ghost(self):
        return st.fixed_dictionaries({"h": st.integers(0, 20),
                                      "bc": st.sampled_from(["auto_periodic_neumann", "auto_periodic_dirichlet", "value"])})

    def b_inplace(self):
        return st.fixed_dictionaries({"h": st.integers(0, 20),
                                      "op": st.sampled_from(["iadd", "isub", "imul", "itruediv", "ipow"]),
                                      "val": value_specs()})

    def b_binary(self):
        if not self.room():
            return None
        return st.fixed_dictionaries({"h": st.integers(0, 20),
                                      "op": st.sampled_from(["add", "sub", "mul", "truediv", "pow"]),
                                      "val": value_specs(), "reflected": st.booleans()})

    def b_unary(self):
        if not self.room():
            return None
        return st.fixed_dictionaries({"h": st.integers(0, 20),
                                      "which": st.sampled_from(["neg", "conjugate", "real", "imag", "sin", "abs"])})

    def b_producer(self):
        if not self.room():
            return None
        return st.fixed_dictionaries({"h": st.integers(0, 20), "other": st.integers(0, 20), "keep": st.booleans(),
                                      "which": st.sampled_from(["to_scalar", "dot", "outer", "interpolate", "smooth",
                                                                "apply", "project", "operator", "storage",
                                                                "transpose", "transpose_inplace", "symmetrize_inplace"])})

    def b_drop(self):
        if len(self.pop) <= 3:
            return None
        return st.fixed_dictionaries({"h": st.integers(0, 20)})

    OPS = {"new": b_new, "copy": b_copy, "collect": b_collect, "collect2": b_collect, "getitem": b_getitem,
           "slice": b_slice, "append": b_append, "component": b_component, "set_data": b_set_data,
           "set_item": b_set_item, "set_item2": b_set_item, "set_full": b_set_full, "setitem_api": b_setitem_api,
           "ghost": b_ghost, "inplace": b_inplace, "inplace2": b_inplace, "binary": b_binary, "unary": b_unary,
           "producer": b_producer, "producer2": b_producer, "producer3": b_producer, "drop": b_drop}

    # ---------------------------------------------------------------------------------
    # creating operations
    # ---------------------------------------------------------------------------------
    def op_new(self, kind, gidx, dtype, route, seed, label, upcast, src):
        self.ctx = "new:" + route
        if not self.room():
            return
        grid, cls = self.grids[gidx], CLS[kind]
        dt = np_dtype(dtype)
        vshape = (self.dim(gidx),) * RANK[kind] + tuple(self.gspecs[gidx]["shape"])
        if route == "from_field":
            other = self.pick(src, lambda e: e.kind == kind and self.same_grid(e.gidx, gidx))
            if other is None:
                route = "data"
            else:
                # documented: "copy the full data from the supplied field"
                obj = cls(self.grids[other.gidx], data=other.obj, label=label)
                e = self.adopt_new(obj, kind, other.gidx, "field from field", expected_dtype=other.full.dtype)
                if not same(obj._data_full, other.full):
                    self.fail("value", f"field created from a field differs from its source (padded array)")
                e.copy_related = other.copy_related = True
                self.flags.add("new:from_field")
                self.add(e)
                return
        if route == "data":
            arr = np.array(gen_grids.rng_array(seed, vshape, dtype, dist="int"), dtype=dt)
            keep = arr.copy()
            obj = cls(grid, data=arr, label=label)
            e = self.adopt_new(obj, kind, gidx, "field from array", expected_valid=keep, expected_dtype=dt)
        elif route == "value":
            x = NUMBERS[seed % len(NUMBERS)]
            obj = cls(grid, data=x, label=label, dtype=dt)
            e = self.adopt_new(obj, kind, gidx, "field from number", expected_valid=np.full(vshape, x, dtype=dt),
                               expected_dtype=dt)
        else:  # padded array with known ghost cells
            buf = np.array(gen_grids.rng_array(seed, self.full_shape(kind, gidx), dtype, dist="int"), dtype=dt)
            buf += 100  # ghost cells are recognisable
            keep = buf.copy()
            want = np.dtype("complex128") if upcast else dt
            obj = cls(grid, data=buf, label=label, with_ghost_cells=True, dtype=want if upcast else None)
            e = self.adopt_new(obj, kind, gidx, "field from padded array", expected_dtype=want)
            if not same(obj._data_full, keep.astype(want)):
                self.fail("value", "field created with_ghost_cells=True differs from the supplied padded array")
            del buf  # never used again
        self.flags.add("new:" + route)
        self.add(e)

    def op_copy(self, h, label, upcast, how="copy"):
        self.ctx = "copy" if how == "copy" else how
        src = self.pick(h)
        if src is None or not self.room():
            return
        if how != "copy":
            label, upcast = None, False
        dt = np.dtype("complex128") if upcast else src.full.dtype
        kw = {}
        if label is not None:
            kw["label"] = label
        if upcast:
            kw["dtype"] = dt
        if how == "deepcopy":
            obj = copy.deepcopy(src.obj)
        elif how == "pickle":
            obj = pickle.loads(pickle.dumps(src.obj))
        else:
            obj = src.obj.copy(**kw)
        # a duplicate is a complete field: its valid data is a view of ITS padded array, the members of a
        # duplicated collection are views of ITS array
        if not np.shares_memory(obj.data, obj._data_full):
            self.fail("detached", f"{how}: `.data` of the duplicate is not a view of its padded array (writes through "
                      ".data are not seen by operators)")
        if src.kind == "coll":
            for k, f in enumerate(obj.fields):
                if f.data.size and not np.shares_memory(f.data, obj._data_full):
                    self.fail("detached", f"{how}: member {k} of the duplicated collection does not share memory with it")
        if np.shares_memory(obj._data_full, src.obj._data_full):
            self.fail("alias", f"{how}: the duplicate shares memory with its source")
        e = self.adopt_new(obj, src.kind, src.gidx, "copy", layout=src.layout, expected_dtype=dt)
        # documented: copy() duplicates the padded array
        if not same(obj._data_full, src.full.astype(dt)):
            self.fail("value", f"copy differs from its source (padded array): {obj._data_full.tolist()} vs "
                      f"{src.full.tolist()}")
        if obj.label != (label if label is not None else src.obj.label):
            self.fail("label", f"copy has label {obj.label!r}")
        e.copy_related = src.copy_related = True
        self.flags.add("copy:" + ("coll" if src.kind == "coll" else "field"))
        self.add(e)

    def op_collect(self, hs, copy_fields, fmt="list", keys=None, labels_arg=False, dtype_arg=None):
        """``FieldCollection(fields)`` with ``fields`` a list or a mapping label -> field.

        Documented: a mapping is equivalent to the sequence of its values with the keys as the
        labels of the members (a ``labels`` argument is then ignored with a warning); identical
        field objects in the input force a copy of all fields, the originals are left untouched;
        otherwise ``copy_fields`` decides between copies and re-linking the supplied objects.
        """
        mapping = fmt != "list"
        self.ctx = "collect:" + ("copy" if copy_fields else "link") + (":mapping" if mapping else "")
        if not self.room():
            return
        first = self.pick(hs[0], lambda e: e.kind in DATA_KINDS)
        if first is None:
            return
        srcs = [first] + [self.pick(i, lambda e: e.kind in DATA_KINDS and self.same_grid(e.gidx, first.gidx))
                          for i in hs[1:]]
        n = len(srcs)
        keys = list(keys or COLLECT_KEYS)[:n]
        if len(keys) != n or len(set(keys)) != n:
            raise AssertionError("collect: need distinct keys")
        repeated = len({id(s) for s in srcs}) < len(srcs)
        copies = copy_fields or repeated  # documented: identical fields force a copy
        gidx = first.gidx
        kinds = [s.kind for s in srcs]
        dtype = np.result_type(*[s.full.dtype for s in srcs])
        rows = [s.full.reshape((-1,) + self.full_grid(gidx)) for s in srcs]
        buf = np.concatenate(rows, axis=0).astype(dtype)  # fields in order, components row-major
        was_member = [s for s in srcs if s.owner is not None]
        mixed = dtype.kind == "c" and any(s.full.dtype.kind != "c" for s in srcs)
        src_labels = [s.obj.label for s in srcs]
        kw = {}
        if copy_fields:
            kw["copy_fields"] = True  # otherwise left at its default (False)
        if dtype_arg is not None:
            # documented: "dtype: the data type of the field. All the numpy dtypes are supported"
            if dtype_arg == "complex":
                dtype = np.result_type(dtype, np.complex128)
                buf = buf.astype(dtype)
                mixed = any(s.full.dtype.kind != "c" for s in srcs)
            kw["dtype"] = dtype
            self.flags.add(f"collect:dtype-arg:{dtype_arg}:" + ("copy" if copies else "link"))
        if mapping:
            arg = dict(zip(keys, [s.obj for s in srcs]))  # insertion order = order of the fields
            if len(arg) != n:
                raise AssertionError("collect: mapping lost an entry")
            if fmt == "proxy":
                arg = types.MappingProxyType(arg)
            want_labels = keys  # documented: the keys set the names of the individual fields
            if labels_arg:
                kw["labels"] = [f"ignored{k}" for k in range(n)]  # documented: ignored (warning)
        else:
            arg = [s.obj for s in srcs]
            want_labels = src_labels  # documented: labels from the fields unless `labels` is given
            if labels_arg:
                kw["labels"] = want_labels = keys
        with warnings.catch_warnings():
            warnings.simplefilter("ignore")
            obj = FieldCollection(arg, **kw)
        if obj._data_full.dtype != dtype:
            self.fail("dtype", f"collection dtype {obj._data_full.dtype}, expected {dtype}")
        e = self.register_collection(obj, buf, kinds, gidx, self.ctx, members=None if copies else srcs)
        if copies:
            for k, s in enumerate(srcs):
                if any(f is s.obj for f in obj.fields):
                    self.fail("identity", "copy_fields=True (or repeated field) but the collection holds the "
                              "original field object")
                if s.obj.label != src_labels[k]:
                    self.fail("label", f"fields were copied but the label of source field {k} changed from "
                              f"{src_labels[k]!r} to {s.obj.label!r} (documented: originals are left untouched)")
                s.copy_related = True
            if len({id(f) for f in obj.fields}) != n:
                self.fail("identity", "one field object occupies two slots of the collection")
            e.copy_related = True
            self.flags.add("collect:copy" + (":repeated" if repeated and not copy_fields else ""))
        else:
            self.flags.add("collect:link")
            if was_member:
                self.flags.add("collect:relink-member")
        got_labels = [f.label for f in obj.fields]
        if got_labels != list(want_labels) or list(obj.labels) != list(want_labels):
            origin = "mapping keys" if mapping else "labels argument" if labels_arg else "labels of the fields"
            self.fail("label", f"member labels {got_labels} / collection.labels {list(obj.labels)}, expected "
                      f"{list(want_labels)} ({origin})")
        if mapping:
            self.flags.add("collect:mapping:" + ("repeated" if repeated and not copy_fields else
                                                 "copy" if copies else "link"))
            if labels_arg:
                self.flags.add("collect:mapping:labels-arg-ignored")
        elif labels_arg:
            self.flags.add("collect:labels-arg")
        if mixed and not copies:
            self.flags.add("collect:upcast-linked")  # a linked real field became complex
        self.add(e)

    op_collect2 = op_collect

    def _coll(self, h):
        return self.pick(h, lambda e: e.kind == "coll")

    def op_getitem(self, h, key):
        self.ctx = "getitem"
        c = self._coll(h)
        if c is None:
            return
        n = len(c.members)
        if isinstance(key, str):
            k = next((i for i, m in enumerate(c.members) if m.obj.label == key), None)
            if k is None:
                try:
                    c.obj[key]
                except KeyError:
                    self.flags.add("getitem:missing-label")
                    return
                self.fail("no-keyerror", f"collection[{key!r}] without such a label did not raise KeyError")
            self.flags.add("getitem:label")
        else:
            if not -n <= key < n:
                return
            k = key % n
            self.flags.add("getitem:index")
        got = c.obj[key]
        if got is not c.members[k].obj:
            self.fail("identity", f"collection[{key!r}] is not the member field object #{k}")
        if self.room():
            self.add(c.members[k])

    def op_slice(self, h, i, j):
        self.ctx = "slice"
        c = self._coll(h)
        if c is None or not self.room():
            return
        sel = c.members[slice(i, j)]
        if not sel:
            expect_rejection((ValueError,), lambda: c.obj[i:j], "empty slice of a collection", "slice:empty-accepted")
            return
        obj = c.obj[i:j]
        rows = [m.full.reshape((-1,) + self.full_grid(c.gidx)) for m in sel]
        want = np.concatenate(rows, axis=0)
        e = self.adopt_new(obj, "coll", c.gidx, "slice of collection", layout=tuple(m.kind for m in sel),
                           expected_dtype=c.full.dtype)
        if not same(obj._data_full, want):
            self.fail("value", f"slice differs from the selected members: {obj._data_full.tolist()} vs {want.tolist()}")
        e.copy_related = c.copy_related = True
        self.flags.add("slice")
        self.add(e)

    def op_append(self, h, others):
        self.ctx = "append"
        c = self._coll(h)
        if c is None or not self.room():
            return
        extra = [self.pick(i, lambda e: self.same_grid(e.gidx, c.gidx)) for i in others]
        parts = list(c.members)
        for x in extra:
            parts.extend(x.members if x.kind == "coll" else [x])
        dtype = np.result_type(*[p.full.dtype for p in parts])
        want = np.concatenate([p.full.reshape((-1,) + self.full_grid(c.gidx)) for p in parts], axis=0).astype(dtype)
        obj = c.obj.append(*[x.obj for x in extra])
        e = self.adopt_new(obj, "coll", c.gidx, "append", layout=tuple(p.kind for p in parts), expected_dtype=dtype)
        if not same(obj._data_full, want):
            self.fail("value", f"append result differs from the members: {obj._data_full.tolist()} vs {want.tolist()}")
        e.copy_related = c.copy_related = True
        for x in extra:
            x.copy_related = True
        self.flags.add("append")
        self.add(e)

    def op_component(self, h, i, j, by_name):
        self.ctx = "component"
        p = self.pick(h, lambda e: e.kind in ("vector", "tensor"))
        if p is None or not self.room():
            return
        dim = self.dim(p.gidx)
        names = axis_names(self.gspecs[p.gidx])
        i, j = i % dim, j % dim
        ki, kj = (names[i], names[j]) if by_name else (i, j)
        if p.kind == "vector":
            obj, view = p.obj[ki], p.full[i]
        else:
            obj, view = p.obj[ki, kj], p.full[i, j]
        self.check_class(obj, "scalar", "component view")
        e = Entry(obj, view, "scalar", p.gidx, f"component of #{p.uid}")
        self.flags.add("component:" + p.kind + (":name" if by_name else ""))
        self.add(e)

    # ---------------------------------------------------------------------------------
    # writes
    # ---------------------------------------------------------------------------------
    def _value_pred(self, target):
        """fields that may be assigned to / combined with ``target`` (documented: same class or scalar)"""
        return lambda e: e.kind == "scalar" or e.layout == target.layout and e.kind == target.kind

    def op_set_data(self, h, val):
        self.ctx = "set_data"
        e = self.pick(h)
        if e is None:
            return
        cx = e.full.dtype.kind == "c"
        r = self.resolve_value(val, self.valid(e).shape, e.gidx, cx, self._value_pred(e))
        if r is None:
            return
        real_v, model_v, lab = r
        model_v = np.array(model_v) if isinstance(model_v, np.ndarray) else model_v
        e.obj.data = real_v
        self.valid(e)[...] = model_v
        self.flags.add("set_data:" + lab.split(":")[0])
        self.note_write(e)

    def _index(self, where, k, shape, nax, full):
        nd = len(shape)
        if where in ("first", "corner"):
            return (0,) * nd
        if where == "last":
            return (-1,) * nd
        if where == "row":
            return (k % shape[0],)
        if where == "slab":
            return (Ellipsis, k % shape[-1])
        if where == "ghost_lo":
            return (Ellipsis, 0)
        if where == "ghost_hi":
            return (Ellipsis,) + ((-1,) if nax == 1 else (-1, slice(None)))
        return (Ellipsis,)

    def op_set_item(self, h, where, k, v):
        self.ctx = "set_item"
        e = self.pick(h)
        if e is None:
            return
        idx = self._index(where, k, self.valid(e).shape, self.naxes(e.gidx), False)
        e.obj.data[idx] = v
        self.valid(e)[idx] = v
        self.flags.add("set_item")
        self.note_write(e)

    op_set_item2 = op_set_item

    def op_set_full(self, h, where, k, v):
        self.ctx = "set_full"
        e = self.pick(h)
        if e is None:
            return
        if where == "all" and k % 2:
            e.obj._data_full = v  # documented: a scalar sets all points including ghost cells
            e.full[...] = v
        else:
            idx = self._index(where, k, e.full.shape, self.naxes(e.gidx), True)
            e.obj._data_full[idx] = v
            e.full[idx] = v
        self.flags.add("set_full" + (":ghost" if where.startswith("ghost") or where == "corner" else ""))
        self.note_write(e)

    def op_setitem_api(self, h, i, j, by_name, val):
        self.ctx = "setitem"
        e = self.pick(h, lambda x: x.kind != "scalar")
        if e is None:
            return
        cx = e.full.dtype.kind == "c"
        if e.kind == "coll":
            k = i % len(e.members)
            m = e.members[k]
            key = k
            if by_name and m.obj.label is not None:
                key = m.obj.label
                k = next(q for q, mm in enumerate(e.members) if mm.obj.label == key)  # documented: first match
                m = e.members[k]
            target = self.valid(m)
            pred = lambda x: x.kind == "scalar" or x.kind == m.kind  # noqa: E731
        else:
            dim = self.dim(e.gidx)
            names = axis_names(self.gspecs[e.gidx])
            i, j = i % dim, j % dim
            if e.kind == "vector":
                key = names[i] if by_name else i
                target = self.valid(e)[i]
            else:
                key = (names[i], names[j]) if by_name else (i, j)
                target = self.valid(e)[i, j]
            pred = lambda x: x.kind == "scalar"  # noqa: E731
        r = self.resolve_value(val, target.shape, e.gidx, cx, pred)
        if r is None:
            return
        real_v, model_v, lab = r
        model_v = np.array(model_v) if isinstance(model_v, np.ndarray) else model_v
        e.obj[key] = real_v
        target[...] = model_v
        self.flags.add("setitem:" + e.kind)
        self.note_write(e)

    def _bc(self, e, bc):
        if bc == "value":
            if any(self.gspecs[e.gidx]["periodic"]):
                return "auto_periodic_dirichlet"
            return {"value": 2.0}
        return bc

    def op_ghost(self, h, bc):
        self.ctx = "set_ghost_cells"
        e = self.pick(h, lambda x: x.kind in DATA_KINDS)
        if e is None:
            return
        e.obj.set_ghost_cells(self._bc(e, bc))
        self.adopt_ghost(e, "set_ghost_cells")
        self.flags.add("set_ghost_cells")
        self.note_write(e)

    IOPS = {"iadd": (operator.iadd, np.add), "isub": (operator.isub, np.subtract),
            "imul": (operator.imul, np.multiply), "itruediv": (operator.itruediv, np.true_divide),
            "ipow": (operator.ipow, np.power)}
    BOPS = {"add": (operator.add, np.add), "sub": (operator.sub, np.subtract), "mul": (operator.mul, np.multiply),
            "truediv": (operator.truediv, np.true_divide), "pow": (operator.pow, np.power)}

    def _operand(self, e, op, val, inplace):
        """operand of an arithmetic operation -> (real, model, label) or None"""
        cx = e.full.dtype.kind == "c" or not inplace
        if op in ("ipow", "pow"):
            x = [2, 3, 2.0][int(abs(val.get("v", val.get("seed", val.get("i", 0))))) % 3]
            return x, x, "number"
        if op in ("itruediv", "truediv"):
            pred = lambda x: x.kind == "scalar"  # noqa: E731 - documented: divisor must be a scalar field
        else:
            pred = self._value_pred(e)
        if val["t"] == "num" and op in ("itruediv", "truediv") and val["v"] == 0 and not val.get("im"):
            val = dict(val, v=4.0)
        if val["t"] == "field" and e.kind == "scalar" and not inplace and op in ("add", "sub", "mul"):
            # left operand scalar: the right one may be any field (result has its class)
            pred = lambda x: True  # noqa: E731
        r = self.resolve_value(val, self.valid(e).shape, e.gidx, cx, pred)
        return r

    def op_inplace(self, h, op, val):
        self.ctx = "inplace:" + op
        e = self.pick(h)
        if e is None:
            return
        r = self._operand(e, op, val, True)
        if r is None:
            return
        real_v, model_v, lab = r
        pyop, npop = self.IOPS[op]
        with warnings.catch_warnings(), np.errstate(all="ignore"):
            warnings.simplefilter("ignore")
            res = pyop(e.obj, real_v)
            target = self.valid(e)
            npop(target, model_v, out=target)
        if res is not e.obj:
            self.fail("identity", f"{op} did not return the field itself")
        self.sync(e, f"{op} with {lab}")
        self.flags.add("inplace:" + lab.split(":")[0])
        self.note_write(e)

    op_inplace2 = op_inplace

    # ---------------------------------------------------------------------------------
    # producers of new fields (must never alias their sources)
    # ---------------------------------------------------------------------------------
    def op_binary(self, h, op, val, reflected):
        self.ctx = "binary:" + op
        e = self.pick(h)
        if e is None or not self.room():
            return
        r = self._operand(e, op, val, False)
        if r is None:
            return
        real_v, model_v, lab = r
        pyop, npop = self.BOPS[op]
        reflected = reflected and lab == "number" and op != "pow"
        res_kind, res_layout = e.kind, e.layout
        if lab.startswith("field:") and e.kind == "scalar":
            other = next(x for x in self.pop if x.obj is real_v)
            res_kind, res_layout = other.kind, other.layout
        with warnings.catch_warnings(), np.errstate(all="ignore"):
            warnings.simplefilter("ignore")
            if reflected:
                obj = pyop(real_v, e.obj)
                want = npop(model_v, self.valid(e))
            else:
                obj = pyop(e.obj, real_v)
                want = npop(self.valid(e), model_v)
        n = self.adopt_new(obj, res_kind, e.gidx, f"{'reflected ' if reflected else ''}{op} with {lab}",
                           expected_valid=want, layout=res_layout, expected_dtype=want.dtype)
        n.copy_related = e.copy_related = True
        self.flags.add("binary:" + lab.split(":")[0] + (":reflected" if reflected else ""))
        self.add(n)

    def op_unary(self, h, which):
        self.ctx = "unary:" + which
        if not self.room():
            return
        if which in ("sin", "abs"):
            e = self.pick(h, lambda x: x.kind == "scalar")  # ufunc protocol: scalar fields
        else:
            e = self.pick(h)
        if e is None:
            return
        v = self.valid(e)
        with warnings.catch_warnings(), np.errstate(all="ignore"):
            warnings.simplefilter("ignore")
            if which == "neg":
                obj, want = -e.obj, np.negative(v)
            elif which == "conjugate":
                obj, want = e.obj.conjugate(), np.conjugate(v)
            elif which == "real":
                obj, want = e.obj.real, np.array(np.real(v))
            elif which == "imag":
                obj, want = e.obj.imag, np.array(np.imag(v))
            elif which == "sin":
                obj, want = np.sin(e.obj), np.sin(v)
            else:
                obj, want = np.abs(e.obj), np.abs(v)
        n = self.adopt_new(obj, e.kind, e.gidx, which, expected_valid=want, layout=e.layout, expected_dtype=want.dtype)
        n.copy_related = e.copy_related = True
        self.flags.add("unary:" + which)
        self.add(n)

    def op_producer(self, h, other, which, keep):
        self.ctx = "producer:" + which
        if not self.room():
            return
        res_kind = None
        want = None
        touched_ghost = []
        with warnings.catch_warnings(), np.errstate(all="ignore"):
            warnings.simplefilter("ignore")
            if which == "to_scalar":
                e = self.pick(h, lambda x: x.kind in DATA_KINDS)
                if e is None:
                    return
                obj, res_kind = e.obj.to_scalar(), "scalar"
            elif which == "dot":
                e = self.pick(h, lambda x: x.kind in ("vector", "tensor"))
                if e is None:
                    return
                o = self.pick(other, lambda x: x.kind in ("vector", "tensor") and self.same_grid(x.gidx, e.gidx))
                obj = e.obj.dot(o.obj)
                res_kind = {("vector", "vector"): "scalar", ("vector", "tensor"): "vector",
                            ("tensor", "vector"): "vector", ("tensor", "tensor"): "tensor"}[(e.kind, o.kind)]
                sub = {("vector", "vector"): "i...,i...->...", ("vector", "tensor"): "i...,ij...->j...",
                       ("tensor", "vector"): "ij...,j...->i...", ("tensor", "tensor"): "ij...,jk...->ik..."}
                want = np.einsum(sub[(e.kind, o.kind)], self.valid(e), np.conjugate(self.valid(o)))
                o.copy_related = True
            elif which == "outer":
                e = self.pick(h, lambda x: x.kind == "vector")
                if e is None:
                    return
                o = self.pick(other, lambda x: x.kind == "vector" and self.same_grid(x.gidx, e.gidx))
                if e.full.dtype.kind == "c" or o.full.dtype.kind == "c":
                    return  # outer_product allocates a real result: complex operands end in a TypeError
                obj, res_kind = e.obj.outer_product(o.obj), "tensor"
                want = np.einsum("i...,j...->ij...", self.valid(e), self.valid(o))
            elif which == "interpolate":
                e = self.pick(h, lambda x: x.kind in ("scalar", "vector"))
                if e is None:
                    return
                obj, res_kind = e.obj.interpolate_to_grid(self.grids[e.gidx], fill=0.0), e.kind
            elif which == "smooth":
                e = self.pick(h, lambda x: x.kind in DATA_KINDS and x.full.dtype.kind != "c")
                if e is None:
                    return
                obj, res_kind = e.obj.smooth(0.7), e.kind
            elif which == "apply":
                e = self.pick(h)
                obj, res_kind = e.obj.apply(np.square), e.kind
                want = np.square(self.valid(e))
            elif which == "project":
                e = self.pick(h, lambda x: x.kind == "scalar" and self.naxes(x.gidx) == 2)
                if e is None:
                    return
                names = axis_names(self.gspecs[e.gidx])
                if other % 2:
                    obj = e.obj.project(names[other % 4 // 2])
                else:
                    lo, hi = gen_grids.axes_bounds(self.gspecs[e.gidx])[1]
                    obj = e.obj.slice({names[1]: 0.5 * (lo + hi)})
                # the result lives on another grid: judge the memory relation and discard it
                for x in self.live():
                    if np.shares_memory(obj._data_full, x.obj._data_full):
                        self.fail("alias", f"projection/slice shares memory with {x}")
                self.flags.add("producer:project")
                return
            elif which == "operator":
                e = self.pick(h, lambda x: x.kind in DATA_KINDS)
                if e is None:
                    return
                bc = self._bc(e, ["auto_periodic_neumann", "value", "auto_periodic_dirichlet"][other % 3])
                if e.kind == "scalar":
                    name, res_kind = [("laplace", "scalar"), ("gradient", "vector")][other % 2]
                elif e.kind == "vector":
                    choices = [("divergence", "scalar"), ("gradient", "tensor"), ("laplace", "vector")]
                    if self.gspecs[e.gidx]["cls"] in ("polar", "sph"):
                        choices = choices[:2]  # no vector Laplacian on these grids
                    name, res_kind = choices[other % len(choices)]
                else:
                    name, res_kind = "divergence", "vector"
                if self.gspecs[e.gidx]["cls"] == "sph" and e.kind != "scalar":
                    return  # spherical vector/tensor operators assert symmetry conditions of the data
                obj = getattr(e.obj, name)(bc)
                touched_ghost.append(e)  # documented: boundary conditions are imposed on the input first
            elif which == "storage":
                e = self.pick(h)
                storage = MemoryStorage()
                storage.start_writing(e.obj)
                storage.append(e.obj, 0.0)
                storage.end_writing()
                obj, res_kind = storage[0], e.kind
                want = np.array(self.valid(e))
                if np.shares_memory(storage.data[0], e.obj._data_full):
                    self.fail("alias", "stored frame shares memory with the appended field")
            elif which == "transpose":
                e = self.pick(h, lambda x: x.kind == "tensor")
                if e is None:
                    return
                obj, res_kind = e.obj.transpose(), "tensor"
                want = np.swapaxes(self.valid(e), 0, 1)
            else:  # in-place conversions of tensors
                e = self.pick(h, lambda x: x.kind == "tensor")
                if e is None:
                    return
                v = self.valid(e)
                if which == "transpose_inplace":
                    res = e.obj.transpose(inplace=True)
                    v[...] = np.swapaxes(v, 0, 1).copy()
                else:
                    res = e.obj.symmetrize(inplace=True)
                    v[...] = 0.5 * (v + np.swapaxes(v, 0, 1))
                if res is not e.obj:
                    self.fail("identity", f"{which} did not return the field itself")
                self.sync(e, which)
                self.flags.add("producer:" + which)
                self.note_write(e)
                return
        for x in touched_ghost:
            self.adopt_ghost(x, f"{which} with bc")
        layout = e.layout if res_kind == "coll" else None
        n = self.adopt_new(obj, res_kind, e.gidx, which, expected_valid=want, layout=layout)
        n.copy_related = e.copy_related = True
        self.flags.add("producer:" + which)
        if keep:
            self.add(n)
        else:
            # judged once against everything that is alive, then forgotten
            for x in self.live():
                if np.shares_memory(obj._data_full, x.obj._data_full):
                    self.fail("alias", f"result of {which} shares memory with {x}")

    op_producer2 = op_producer3 = op_producer

    def op_drop(self, h):
        self.ctx = "drop"
        if len(self.pop) <= 3:
            return
        e = self.pick(h)
        self.pop = [x for x in self.pop if x is not e]

    # ---------------------------------------------------------------------------------
    GROUPS = {
        "producer:to_scalar": "producer:algebra", "producer:dot": "producer:algebra",
        "producer:outer": "producer:algebra", "producer:transpose": "producer:algebra",
        "producer:apply": "producer:algebra", "producer:interpolate": "producer:resample",
        "producer:smooth": "producer:resample", "producer:transpose_inplace": "tensor-inplace-conversion",
        "producer:symmetrize_inplace": "tensor-inplace-conversion",
        "unary:sin": "ufunc", "unary:abs": "ufunc", "unary:neg": "unary", "unary:conjugate": "unary",
        "unary:real": "unary", "unary:imag": "unary", "getitem:index": "getitem", "getitem:label": "getitem",
        "getitem:missing-label": None, "setitem:coll": "setitem", "setitem:vector": "setitem",
        "setitem:tensor": "setitem", "set_data:number": "set_data", "set_data:array": "set_data",
        "set_data:field": "set_data", "binary:number": "binary", "binary:array": "binary",
        "binary:field": "binary", "binary:number:reflected": "binary:reflected", "set_full": None,
        "component:vector:name": "component:vector", "component:tensor:name": "component:tensor",
        "collect:copy:repeated": "collect:repeated-field",
    }

    def record(self):
        f = self.flags
        labels = sorted({self.GROUPS.get(x, x) for x in f} - {None})
        if any(gen_grids.dim_of(g) != len(g["shape"]) for g in self.gspecs):
            labels.append("dim!=num_axes")
        if any(e.full.dtype.kind == "c" for e in self.pop):
            labels.append("complex")
        nt = "write-seen-through-alias" in f or "write-after-copy" in f
        return {"nt": bool(nt), "labels": labels}


guard_class(AliasHistory)

# ---------------------------------------------------------------------------------------
# complex values assigned to real fields (after missed seed C15-7: the assignment re-allocated the padded array
# and cut the links).  What such an assignment stores is not documented (numpy keeps the real part), so only
# the LINKS are judged: afterwards every handle still shares memory as before and a write through one handle
# is seen through the others.
# ---------------------------------------------------------------------------------------
@st.composite
def complex_assign_cases(draw):
    return {"n": draw(st.integers(2, 5)), "nfields": draw(st.integers(1, 3)),
            "kind": draw(st.sampled_from(["scalar", "scalar", "vector"])),
            "route": draw(st.sampled_from(["member.data", "collection.data", "collection[i]", "component.data",
                                           "field.data"])),
            "value": draw(st.sampled_from(["array", "number", "field"])),
            "target": draw(st.integers(0, 2)), "seed": draw(st.integers(0, 2**31))}


def check_complex_assign(case):
    grid = pde.UnitGrid([case["n"]])
    rng = np.random.default_rng(case["seed"])
    cls = pde.ScalarField if case["kind"] == "scalar" else pde.VectorField
    fields = [cls(grid, rng.normal(size=((1,) if cls is pde.VectorField else ()) + (case["n"],)))
              for _ in range(case["nfields"])]
    coll = FieldCollection(fields)  # copy_fields=False: the members are linked to the collection
    k = case["target"] % len(fields)
    member = coll[k]
    comp = member[0] if cls is pde.VectorField else None  # component view of a vector field
    route = case["route"]
    if route == "component.data" and comp is None:
        route = "member.data"

    def value(shape):
        z = rng.normal(size=shape) + 1j * rng.normal(size=shape)
        if case["value"] == "number":
            return 0.5 - 2.0j
        if case["value"] == "field" and route in ("member.data", "field.data", "collection[i]"):
            return cls(grid, z, dtype=complex)
        return z

    try:
        _assign = True
        with warnings.catch_warnings():
            warnings.simplefilter("ignore")
            if route == "member.data":
                member.data = value(member.data.shape)
            elif route == "collection.data":
                coll.data = value(coll.data.shape)
            elif route == "collection[i]":
                coll[k] = value(member.data.shape)
            elif route == "component.data":
                comp.data = value(comp.data.shape)
            else:  # a field of its own: only `.data` and the padded array are linked
                member = cls(grid, rng.normal(size=member.data.shape))
                coll, comp = None, None
                member.data = value(member.data.shape)
    except TypeError:
        # numpy refuses a python complex number for a real array: a loud rejection, links are judged all the same
        _assign = False
    what = f"after assigning complex values ({case['value']}) through {route}"
    if not np.shares_memory(member.data, member._data_full):
        raise Violation(f"{what}: `.data` of the field is no longer a view of its padded array", key="complex-assign:data-detached")
    if coll is not None:
        if coll[k] is not member or not np.shares_memory(member._data_full, coll._data_full):
            raise Violation(f"{what}: the member no longer shares memory with its collection",
                            key="complex-assign:member-detached")
        member.data[...] = 7.0
        sl = coll.data[coll._slices[k]]
        if not np.all(np.real(sl) == 7.0):
            raise Violation(f"{what}: a write through the member is not seen through the collection: {sl.tolist()!r}",
                            key="complex-assign:member-detached")
        coll.data[...] = -3.0
        if not np.all(np.real(member.data) == -3.0):
            raise Violation(f"{what}: a write through the collection is not seen through the member",
                            key="complex-assign:member-detached")
    if comp is not None:
        member.data[...] = 2.0
        if not np.all(np.real(comp.data) == 2.0):
            raise Violation(f"{what}: a write through the vector field is not seen through its component view",
                            key="complex-assign:component-detached")
    return {"nt": _assign, "labels": [f"route:{route}", f"value:{case['value']}", f"kind:{case['kind']}",
                                      "assigned" if _assign else "refused (TypeError)"],
            "key": [route, case["value"], case["kind"], case["n"], case["nfields"], k]}


SUBCHECKS = [
    SubCheck(
        name="AliasMachine", history=AliasHistory, mode="nojit",
        budget={"quick": 3000, "thorough": 60000}, shards={"quick": 14, "thorough": 16},
        steps={"quick": 30, "thorough": 50},
        rule="non-trivial = history with a write through a handle while another live handle aliases it "
             "(all handles are read after every rule), or a write to the source/result of a copy-like "
             "operation"),
    SubCheck(name="complex_assignment_keeps_links", strategy=complex_assign_cases, check=check_complex_assign,
             mode="pure", budget={"quick": 300, "thorough": 3000}, shards={"quick": 1, "thorough": 1},
             rule="complex values assigned to real fields through every assignment route; only the memory links are "
                  "judged; every case is non-trivial"),
]
