"""C16 - interpolation is exact where it must be; insertion conserves the amount.

Generated: grids of all classes (1-3 axes, periodic mixes, holes), fields of rank 0-2
(real/complex, random / affine), points aimed at the branches of the position-dependent
code (cell centres, faces, bulk, half-cell boundary strips, corners, periodic seams,
whole-period shifts, points next to every branch switch, clearly outside), ``fill`` values,
boundary-condition assignments (semantic, from ``vlib.gen_bcs``), target grids, amounts.

Oracle: ``vlib.ref_interp`` (independent multilinear interpolant / insertion written from
the documentation, sharing no code with ``pde.backends.numba.grids``) plus the consequences
the statement lists as separate predicates.
"""

from __future__ import annotations

import math
import warnings

import numpy as np
from hypothesis import strategies as st

from vlib import env

env.setup()

import pde  # noqa: E402
from pde.backends import get_backend  # noqa: E402
from pde.grids.base import DomainError  # noqa: E402

from vlib import gen_bcs as gb  # noqa: E402
from vlib import ref_interp as ri  # noqa: E402
from vlib.core import Rejected, SubCheck, Violation  # noqa: E402
from vlib.gen_grids import build_grid, dim_of, grid_label, grids, rng_array  # noqa: E402

PROPERTY = "C16"
RULE = ("cases = (grid, field rank/dtype/contents, fill, boundary conditions, point set aimed at "
        "centres/faces/bulk/strips/corners/seams/period shifts/branch switches/outside); distinct = "
        "the whole case (structure and drawn numbers)")
ASSUMPTIONS = [
    "points within 1e-9 cell widths of a non-periodic domain face or (without boundary conditions) of "
    "the strip/bulk switch are not judged (membership / branch is ill-conditioned there, as the "
    "statement says)",
    "boundary conditions passed to interpolate: constant and expression kinds without time dependence "
    "(the API passes no time), no normal_* variants, no anti-periodic axes (the statement only speaks "
    "about periodic axes); Robin conditions with |2 + gamma*dx| < 0.1 are excluded",
    "corner ghost cells (points in the boundary strip of two or more axes, with BC): the documented "
    "'corner cells are set using interpolation' is restated as the mean of the adjacent ghost cells",
    "make_inserter(with_ghost_cells=True): only points whose 2^d neighbours are all valid cells, i.e. "
    "0 <= cell coordinate < n-1 on non-periodic axes ('coordinates are used as is' - near a face part "
    "of the amount goes to ghost cells, which have no cell volume; on curvilinear grids points at or "
    "behind the centre of the last cell raise IndexError - weights into ghost cells are outside the "
    "statement)",
    "vector fields converted to Cartesian grids with a non-zero fill value: known finding "
    "C16:vector-to-cartesian:fill-value-rotated (dedicated sub-check to_cartesian_fill)",
    "inserted points lie inside the domain",
]
EPS = float(np.finfo(float).eps)
FIELD_CLASSES = [pde.ScalarField, pde.VectorField, pde.Tensor2Field]

MODES = ["centre", "face", "bulk", "bulk", "strip_lo", "strip_hi", "near", "uniform", "shift",
         "outside_lo", "outside_hi"]
INSIDE_MODES = ["centre", "face", "bulk", "strip_lo", "strip_hi", "near", "uniform", "shift"]
BULK_MODES = ["centre", "face", "bulk", "bulk", "near_bulk"]


# ---------------------------------------------------------------------------------------
# strategies
# ---------------------------------------------------------------------------------------
def coord_spec(modes):
    return st.fixed_dictionaries({
        "m": st.sampled_from(modes),
        "i": st.integers(0, 23),
        "x": st.floats(0.0, 1.0, exclude_max=True),
        "k": st.sampled_from([-3, -2, -1, 1, 2, 5]),
    })


def point_spec(modes, nax=3):
    return st.lists(coord_spec(modes), min_size=nax, max_size=nax)


def resolve_coord(c, geo):
    """coordinate along one axis from its spec (see MODES); geo = (lo, hi, n, dx, periodic)"""
    lo, hi, n, dx, per = geo
    m, i, x, k = c["m"], c["i"], c["x"], c["k"]
    x = max(x, 1e-6)
    if m == "centre":
        xc = float(i % n)
    elif m == "face":
        if per:
            xc = (i % n) + 0.5
        elif n == 1:
            xc = 0.0
        else:
            xc = (i % (n - 1)) + 0.5
    elif m == "bulk":
        xc = x * (n - 1)
    elif m == "strip_lo":
        xc = -0.5 + 0.5 * x
    elif m == "strip_hi":
        xc = n - 0.5 - 0.5 * x
    elif m == "near":  # next to a branch switch, from either side but inside the domain
        sw = [-0.5, 0.0, n - 1.0, n - 0.5][i % 4]
        off = 10.0 ** (-8 + 6 * x)
        sign = 1 if (i // 4) % 2 else -1
        if sw == -0.5:
            sign = 1
        elif sw == n - 0.5:
            sign = -1
        xc = sw + sign * off
    elif m == "near_bulk":  # next to the strip/bulk switch, on the bulk side
        off = 10.0 ** (-8 + 6 * x)
        xc = off if i % 2 or n == 1 else n - 1 - off
        if n == 1:
            xc = 0.0
    elif m == "uniform":
        xc = -0.5 + x * n
    elif m == "shift":
        xc = -0.5 + x * n + (k * n if per else 0)
    elif m == "outside_lo":
        xc = -0.5 - n * 10.0 ** (-6 + 6.3 * x)
    elif m == "outside_hi":
        xc = n - 0.5 + n * 10.0 ** (-6 + 6.3 * x)
    else:
        raise ValueError(m)
    return ri.coordinate_from_cell(xc, lo, dx)


def resolve_point(pspec, gspec):
    geo = ri.axis_geometry(gspec)
    return [resolve_coord(c, g) for c, g in zip(pspec, geo)]


FILLS = [None, None, None, 0.0, -7.5, 1e6, float("nan")]


def my_grids(max_cells=6, **kw):
    kw.setdefault("max_total", 216)
    return grids(max_cells=max_cells, **kw)


def data_spec():
    return st.fixed_dictionaries({
        "seed": st.integers(0, 2**31),
        "dist": st.sampled_from(["normal", "uniform", "int"]),
        "scale": st.sampled_from([1.0, 1.0, 1e-3, 1e3]),
    })


@st.composite
def bc_strategy(draw, gspec, rank, dtype):
    # expression conditions cost ~0.3 s each (sympy): one case in four
    allow_expr = draw(st.sampled_from([False, False, False, True]))
    return draw(gb.bc_assignments(gspec, rank=rank, dtype=dtype, allow_normal=False,
                                  allow_expr=allow_expr, allow_antiperiodic=False))


@st.composite
def reference_cases(draw, max_cells=6, jit=False):
    gspec = draw(my_grids(max_cells=max_cells))
    rank = draw(st.sampled_from([0, 0, 1, 2] if not jit else [0, 0, 1]))
    dtype = draw(st.sampled_from(["f8", "f8", "c16"]))
    with_bc = draw(st.booleans())
    nax = len(gspec["shape"])
    case = {"grid": gspec, "rank": rank, "dtype": dtype, "data": draw(data_spec()),
            "fill": draw(st.sampled_from(FILLS)),
            "bc": draw(bc_strategy(gspec, rank, dtype)) if with_bc else None,
            "points": draw(st.lists(point_spec(MODES, nax), min_size=1, max_size=8)),
            "batch": draw(st.sampled_from(["single", "flat", "flat", "2d"]))}
    return case


# ---------------------------------------------------------------------------------------
# builders
# ---------------------------------------------------------------------------------------
def make_field(grid, gspec, rank, dtype, data):
    d = dim_of(gspec)
    shape_full = (d,) * rank + tuple(n + 2 for n in gspec["shape"])
    data_full = rng_array(data["seed"], shape_full, dtype, data["dist"], data["scale"])
    f = FIELD_CLASSES[rank](grid, dtype=data_full.dtype)
    f._data_full[...] = data_full
    return f, data_full


def prepare_bc(bc, gspec, grid, dtype):
    """rendered BC object for py-pde (time dependence removed: this API passes no time)"""
    for ax in bc["axes"]:
        if isinstance(ax, dict):
            for k in ("low", "high"):
                for p in ("v", "c"):
                    if p in ax[k] and "t" in ax[k][p].get("coef", {}):
                        ax[k][p]["coef"]["t"] = 0.0
    if gb.robin_denominators(bc, gspec, dtype, 0.0) < 0.1:
        raise Rejected("singular Robin condition (generator guard)")
    obj, style = gb.render_bc(bc, gspec, grid, dtype)
    return obj, style


def reference_padded(bc, gspec, data_full, dtype):
    """(padded reference array, absolute uncertainty of its ghost cells)

    The uncertainty is the condition of the documented condition solved for the ghost cell:
    64 eps * (magnitude of the terms of the condition) / |d condition / d ghost|."""
    ref = data_full.copy()
    gb.apply_reference(bc, gspec, ref, dtype, 0.0)
    nax = len(gspec["shape"])
    off = ref.ndim - nax
    unc = np.zeros(ref.shape)
    rank = bc["rank"]
    for a, ax in enumerate(bc["axes"]):
        if isinstance(ax, str):
            continue
        dx = gb.spacing(gspec, a)
        for upper, key in ((False, "low"), (True, "high")):
            side = ax[key]
            g, c1, c2 = gb.face_arrays(ref, gspec, a, upper)
            _, scale = gb.face_residual(side, gspec, a, upper, rank, dtype, g, c1, c2, 0.0)
            kind = side["kind"].replace("_expression", "")
            if kind == "value":
                deriv = 0.5
            elif kind == "derivative":
                deriv = 1 / dx
            elif kind == "mixed":
                v, _ = gb.face_parameters(side, gspec, a, upper, rank, dtype, c1, 0.0)
                deriv = np.abs(1 / dx + v / 2)
            else:
                deriv = 1 / dx**2
            unc[gb.face_index(nax, off, a, -1 if upper else 0)] = 64 * EPS * scale / deriv
    ri.set_corners(ref, nax)
    ri.set_corners(unc, nax)
    return ref, unc


def call_interpolate(field, pts, bc, fill):
    with warnings.catch_warnings():
        warnings.simplefilter("ignore", DeprecationWarning)
        return field.interpolate(np.asarray(pts, dtype=float), bc=bc, fill=fill)


def fill_array(fill, field):
    return np.broadcast_to(np.asarray(fill), field.data_shape).astype(field.data.dtype)


def same_or_nan(a, b):
    a, b = np.asarray(a), np.asarray(b)
    return a.shape == b.shape and bool(np.all((a == b) | (np.isnan(a) & np.isnan(b))))


def bc_labels(bc):
    if bc is None:
        return ["bc:none"]
    out = set()
    for ax in bc["axes"]:
        if isinstance(ax, str):
            out.add(f"bc:{ax}")
        else:
            for k in ("low", "high"):
                out.add(f"bc:{ax[k]['kind']}")
    return sorted(out)


def fill_class(fill):
    if fill is None:
        return "none"
    return "nan" if isinstance(fill, float) and math.isnan(fill) else "number"


def base_key(case):
    g = case["grid"]
    return [g["cls"], g["shape"], g.get("radius", [0])[0] > 0, g["periodic"], case.get("rank"),
            case.get("dtype"), gb.bc_kinds_key(case["bc"]) if case.get("bc") else None]


# ---------------------------------------------------------------------------------------
# interp_reference
# ---------------------------------------------------------------------------------------
def check_reference(case):
    gspec, rank, dtype = case["grid"], case["rank"], case["dtype"]
    grid = build_grid(gspec)
    nax = len(gspec["shape"])
    field, data_full = make_field(grid, gspec, rank, dtype, case["data"])
    fill, bc = case["fill"], case["bc"]
    ghost = bc is not None
    bc_obj = None
    if ghost:
        bc_obj, _ = prepare_bc(bc, gspec, grid, dtype)
        ref, unc = reference_padded(bc, gspec, data_full, dtype)
    else:
        ref, unc = data_full[(Ellipsis,) + (slice(1, -1),) * nax].copy(), None
    glabel = grid_label(gspec)

    inside, outside, regions, shapes = [], [], [], []
    dropped = 0
    for ps in case["points"]:
        p = resolve_point(ps, gspec)
        val, bound, info = ri.interpolate(gspec, ref, p, ghost=ghost, unc=unc)
        if info.ambiguous:
            dropped += 1
        elif info.outside:
            outside.append(p)
            regions.append("outside")
        else:
            inside.append((p, val, bound, info))
            regions.append(info.region)
            shapes.append(info.classes)

    def compare(obs, p, val, bound, info, how):
        obs = np.asarray(obs)
        if obs.shape != val.shape:
            raise Violation(f"{how}: result shape {obs.shape}, expected {val.shape}", key="reference:shape")
        err = np.abs(obs - val)
        if not np.all(err <= bound):
            raise Violation(
                f"{how}: interpolate at {p!r} (cell coords {info.xc!r}, classes {info.classes}) on "
                f"{glabel} rank={rank} bc={'yes' if ghost else 'no'} gives {obs.tolist()!r}, "
                f"reference {val.tolist()!r} (|diff| {np.max(err):.3g} > tol {np.max(bound):.3g})",
                key=f"reference:{gspec['cls']}:{nax}ax:{info.region}:{'bc' if ghost else 'nobc'}")

    if inside:
        pts = [p for p, *_ in inside]
        batch = case["batch"]
        try:
            if batch == "single":
                for p, val, bound, info in inside:
                    compare(call_interpolate(field, p, bc_obj, fill), p, val, bound, info, "single point")
            else:
                if batch == "2d" and len(pts) >= 2:
                    k = len(pts) // 2 * 2
                    arr = np.array(pts[:k]).reshape(2, k // 2, nax)
                    use = inside[:k]
                else:
                    arr = np.array(pts)
                    use = inside
                res = call_interpolate(field, arr, bc_obj, fill)
                want_shape = field.data_shape + arr.shape[:-1]
                if res.shape != want_shape:
                    raise Violation(f"batch result shape {res.shape}, expected {want_shape}",
                                    key="reference:shape")
                res = res.reshape(field.data_shape + (-1,))
                for j, (p, val, bound, info) in enumerate(use):
                    compare(res[..., j], p, val, bound, info, "batch")
        except DomainError as e:
            raise Violation(f"inside points rejected as outside: {pts!r} on {glabel}: {e}",
                            key=f"reference:inside-rejected:{gspec['cls']}:{nax}ax") from None

    for p in outside:
        try:
            res = call_interpolate(field, p, bc_obj, fill)
        except DomainError:
            if fill is not None:
                raise Violation(f"outside point {p!r} raised although fill={fill!r} was given",
                                key="reference:outside-raised-with-fill") from None
            continue
        if fill is None:
            raise Violation(
                f"outside point {p!r} on {glabel} (bounds {ri.axis_geometry(gspec)!r}) returned "
                f"{np.asarray(res).tolist()!r} instead of raising DomainError",
                key=f"reference:outside-accepted:{gspec['cls']}:{nax}ax:{'bc' if ghost else 'nobc'}")
        if not same_or_nan(res, fill_array(fill, field)):
            raise Violation(f"outside point {p!r} with fill={fill!r} returned {np.asarray(res).tolist()!r}",
                            key="reference:outside-fill-value")
    if inside and outside:
        # mixed batch: one outside point decides about the exception; with fill the others are unaffected
        arr = np.array([inside[0][0], outside[0]])
        try:
            res = call_interpolate(field, arr, bc_obj, fill)
        except DomainError:
            if fill is not None:
                raise Violation("mixed batch raised although fill was given",
                                key="reference:outside-raised-with-fill") from None
        else:
            if fill is None:
                raise Violation(f"batch with outside point {outside[0]!r} did not raise",
                                key=f"reference:outside-accepted:{gspec['cls']}:{nax}ax:{'bc' if ghost else 'nobc'}")
            p, val, bound, info = inside[0]
            compare(res[..., 0], p, val, bound, info, "mixed batch")
            if not same_or_nan(res[..., 1], fill_array(fill, field)):
                raise Violation("mixed batch: outside entry is not the fill value",
                                key="reference:outside-fill-value")

    special = {"strip", "corner", "seam", "shifted"}
    nt = bool(special & set(regions)) or rank >= 1
    labels = [f"grid:{glabel}", f"rank:{rank}", f"dtype:{dtype}", f"fill:{fill_class(fill)}",
              f"batch:{case['batch']}"] + bc_labels(bc)
    labels += [f"region:{r}{'+bc' if ghost else ''}" for r in sorted(set(regions))]
    if dropped:
        labels.append("excluded:round-off-of-switch")
    return {"nt": nt, "labels": labels,
            "key": base_key(case) + [fill_class(fill), sorted(set(regions)), sorted(shapes), case["batch"]]}


# ---------------------------------------------------------------------------------------
# interp_consequences
# ---------------------------------------------------------------------------------------
@st.composite
def consequence_cases(draw):
    gspec = draw(my_grids())
    rank = draw(st.sampled_from([0, 0, 1, 2]))
    dtype = draw(st.sampled_from(["f8", "f8", "c16"]))
    nax = len(gspec["shape"])
    with_bc = draw(st.sampled_from([False, False, True]))
    return {"grid": gspec, "rank": rank, "dtype": dtype, "data": draw(data_spec()),
            "bc": draw(bc_strategy(gspec, rank, dtype)) if with_bc else None,
            "affine": {"seed": draw(st.integers(0, 2**31)),
                       "scale": draw(st.sampled_from([1.0, 1.0, 1e-2, 1e2]))},
            "bulk_points": draw(st.lists(point_spec(BULK_MODES, nax), min_size=1, max_size=4)),
            "inside_points": draw(st.lists(point_spec(INSIDE_MODES, nax), min_size=1, max_size=4)),
            "outside_points": draw(st.lists(point_spec(MODES, nax), min_size=1, max_size=3)),
            "outside_axis": draw(st.integers(0, 5)),
            "outside_mode": draw(st.sampled_from(["outside_lo", "outside_hi"])),
            "fill": draw(st.sampled_from(FILLS)),
            "shift_axis": draw(st.integers(0, 5)),
            "shift_k": draw(st.sampled_from([-3, -2, -1, 1, 2, 7]))}


def check_consequences(case):
    gspec, rank, dtype = case["grid"], case["rank"], case["dtype"]
    grid = build_grid(gspec)
    geo = ri.axis_geometry(gspec)
    nax = len(geo)
    glabel = grid_label(gspec)
    field, data_full = make_field(grid, gspec, rank, dtype, case["data"])
    valid = (Ellipsis,) + (slice(1, -1),) * nax
    data = data_full[valid].copy()
    bc = case["bc"]
    bc_obj = prepare_bc(bc, gspec, grid, dtype)[0] if bc is not None else None
    labels = [f"grid:{glabel}", f"rank:{rank}", f"dtype:{dtype}"] + bc_labels(bc)
    umax = float(np.max(np.abs(data))) if data.size else 0.0
    nmax = max(g[2] for g in geo)
    # with BC a weight of the size of the position resolution may fall on a ghost cell
    umax_bc = float(np.max(np.abs(reference_padded(bc, gspec, data_full, dtype)[0]))) if bc else umax

    def inside_call(pts, fld=None, bc_arg=None, what=""):
        try:
            return call_interpolate(fld or field, pts, bc_arg, None)
        except DomainError as e:
            raise Violation(f"{what}: inside points rejected on {glabel}: {np.asarray(pts).tolist()!r} ({e})",
                            key=f"consequences:inside-rejected:{what}") from None

    # (a) value at the cell centres (with and without BC)
    cs = [ri.centres(gspec, a) for a in range(nax)]
    mesh = np.stack(np.meshgrid(*cs, indexing="ij"), axis=-1)
    res = inside_call(mesh, bc_arg=bc_obj, what="centres")
    # the centre coordinates are rounded: |delta xc| <= eps*max|coordinate|/dx along each axis
    posr = sum(4 * EPS * max(abs(g[0]), abs(g[1])) / g[3] for g in geo)
    tol = (64 * EPS * (1 + nmax) + 2 * posr) * umax_bc + 1e-300
    if res.shape != data.shape or not np.all(np.abs(res - data) <= tol):
        err = np.abs(res - data) if res.shape == data.shape else np.inf
        raise Violation(f"interpolating at all cell centres of {glabel} (rank {rank}, "
                        f"bc={'yes' if bc else 'no'}) does not return the cell values: max diff "
                        f"{np.max(err):.3g} > {tol:.3g}",
                        key=f"consequences:centres:{gspec['cls']}:{nax}ax")
    labels.append("pred:centres")

    # (b) affine fields are reproduced in the bulk (no seam, no strip)
    d = dim_of(gspec)
    comp_shape = (d,) * rank
    coef = rng_array(case["affine"]["seed"], comp_shape + (nax + 1,), dtype, "uniform",
                     case["affine"]["scale"])
    aff = np.zeros(comp_shape + tuple(g[2] for g in geo), dtype=coef.dtype) + coef[..., nax].reshape(
        comp_shape + (1,) * nax)
    for a in range(nax):
        aff = aff + coef[..., a].reshape(comp_shape + (1,) * nax) * cs[a].reshape(
            [-1 if i == a else 1 for i in range(nax)])
    f_aff = FIELD_CLASSES[rank](grid, data=aff, dtype=aff.dtype)
    n_aff = 0
    for ps in case["bulk_points"]:
        p = resolve_point(ps, gspec)
        info = ri.PointInfo(gspec, p, ghost=False)
        if info.region not in ("bulk", "centre"):
            continue
        want = coef[..., nax] + sum(coef[..., a] * p[a] for a in range(nax))
        mag = np.abs(coef[..., nax]) + sum(
            np.abs(coef[..., a]) * max(abs(geo[a][0]), abs(geo[a][1])) for a in range(nax))
        tol = 64 * EPS * (2 + nmax) * mag + 1e-300
        got = inside_call(p, fld=f_aff, what="affine")
        if not np.all(np.abs(got - want) <= tol):
            raise Violation(
                f"affine field not reproduced at bulk point {p!r} (cell coords {info.xc!r}) of {glabel}: "
                f"got {np.asarray(got).tolist()!r}, want {np.asarray(want).tolist()!r}, tol {np.max(tol):.3g}",
                key=f"consequences:affine:{gspec['cls']}:{nax}ax")
        n_aff += 1
    if n_aff:
        labels.append("pred:affine")

    # (c) range (real fields, no BC): a weighted mean never leaves [min, max] of the data
    n_range = 0
    special = set()
    inside_pts = []
    for ps in case["inside_points"]:
        p = resolve_point(ps, gspec)
        info = ri.PointInfo(gspec, p, ghost=False)
        if info.ambiguous or info.outside:
            continue
        inside_pts.append((p, info))
        special.add(info.region)
    if dtype == "f8" and inside_pts:
        axes = tuple(range(rank, rank + nax))
        lo_v, hi_v = data.min(axis=axes), data.max(axis=axes)
        res = inside_call(np.array([p for p, _ in inside_pts]), what="range")
        for j, (p, info) in enumerate(inside_pts):
            v = res[..., j]
            tol = 8 * EPS * umax + 1e-300
            if not (np.all(v >= lo_v - tol) and np.all(v <= hi_v + tol)):
                raise Violation(
                    f"value {v.tolist()!r} at {p!r} ({info.classes}) of {glabel} is outside the range "
                    f"[{lo_v.tolist()!r}, {hi_v.tolist()!r}] of the data",
                    key=f"consequences:range:{gspec['cls']}:{nax}ax:{info.region}")
            n_range += 1
        labels.append("pred:range")

    # (d) whole-period shifts along periodic axes change nothing
    per_axes = [a for a, g in enumerate(geo) if g[4]]
    if per_axes and inside_pts:
        a = per_axes[case["shift_axis"] % len(per_axes)]
        k = case["shift_k"]
        L = geo[a][1] - geo[a][0]
        for p, info in inside_pts:
            q = list(p)
            q[a] = p[a] + k * L
            v0 = inside_call(p, what="shift")
            v1 = inside_call(q, what="shift")
            # the shifted coordinate is rounded: |delta xc| <~ eps*(|q|/dx + |k| n)
            dxc = 8 * EPS * (abs(q[a]) + abs(p[a]) + abs(geo[a][0])) / geo[a][3] + 8 * EPS * abs(k) * geo[a][2]
            tol = 2 * umax * dxc + 64 * EPS * umax + 1e-300
            if not np.all(np.abs(v1 - v0) <= tol):
                raise Violation(
                    f"shifting {p!r} by {k} periods along periodic axis {a} of {glabel} changes the value "
                    f"from {np.asarray(v0).tolist()!r} to {np.asarray(v1).tolist()!r} (tol {tol:.3g})",
                    key=f"consequences:period-shift:{gspec['cls']}:{nax}ax")
        labels.append("pred:period-shift")
        special.add("shifted")

    # (e) clearly outside: DomainError without fill, the fill value with fill
    nonper = [a for a, g in enumerate(geo) if not g[4]]
    fill = case["fill"]
    n_out = 0
    for ps in case["outside_points"]:
        a = nonper[case["outside_axis"] % len(nonper)] if nonper else None
        if a is None:
            break
        ps = [dict(c) for c in ps]
        ps[a]["m"] = case["outside_mode"]
        p = resolve_point(ps, gspec)
        info = ri.PointInfo(gspec, p, ghost=bc is not None)
        if info.ambiguous or not info.outside:
            continue
        for f_arg in ([None] if fill is None else [None, fill]):
            try:
                res = call_interpolate(field, p, bc_obj, f_arg)
            except DomainError:
                if f_arg is not None:
                    raise Violation(f"outside point {p!r} raised although fill={f_arg!r}",
                                    key="consequences:outside-raised-with-fill") from None
                continue
            if f_arg is None:
                raise Violation(
                    f"point {p!r} lies outside {glabel} (axis {a}: [{geo[a][0]!r}, {geo[a][1]!r}], cell "
                    f"coordinate {info.xc[a]!r}) but interpolate returned {np.asarray(res).tolist()!r}",
                    key=f"consequences:outside-accepted:{gspec['cls']}:{nax}ax:{'bc' if bc else 'nobc'}")
            if not same_or_nan(res, fill_array(f_arg, field)):
                raise Violation(f"outside point with fill={f_arg!r} returned {np.asarray(res).tolist()!r}",
                                key="consequences:outside-fill-value")
            if np.asarray(res).dtype != field.data.dtype:
                raise Violation(f"fill result has dtype {np.asarray(res).dtype}, field {field.data.dtype}",
                                key="consequences:outside-fill-dtype")
        n_out += 1
    if n_out:
        labels.append("pred:outside")
        labels.append(f"outside:fill-{fill_class(fill)}")

    nt = bool(special & {"strip", "corner", "seam", "shifted"}) or rank >= 1
    labels += [f"region:{r}" for r in sorted(special)]
    return {"nt": nt, "labels": labels,
            "key": base_key(case) + [sorted(special), n_aff > 0, n_out > 0, fill_class(fill)]}


# ---------------------------------------------------------------------------------------
# interp_bc_approach
# ---------------------------------------------------------------------------------------
@st.composite
def approach_cases(draw):
    gspec = draw(my_grids())
    nax = len(gspec["shape"])
    axis = draw(st.integers(0, nax - 1))
    if gspec["cls"] in ("polar", "sph", "cyl"):
        if gspec["periodic"][axis]:
            axis = 0
    else:
        gspec["periodic"][axis] = False
    rank = draw(st.sampled_from([0, 0, 1, 2]))
    dtype = draw(st.sampled_from(["f8", "f8", "c16"]))
    return {"grid": gspec, "rank": rank, "dtype": dtype, "data": draw(data_spec()),
            "bc": draw(bc_strategy(gspec, rank, dtype)), "axis": axis, "upper": draw(st.booleans()),
            "transverse": draw(point_spec(["centre", "centre", "face", "bulk", "shift"], nax))}


def check_approach(case):
    gspec, rank, dtype = case["grid"], case["rank"], case["dtype"]
    grid = build_grid(gspec)
    geo = ri.axis_geometry(gspec)
    nax = len(geo)
    glabel = grid_label(gspec)
    a, upper = case["axis"], case["upper"]
    field, data_full = make_field(grid, gspec, rank, dtype, case["data"])
    bc = case["bc"]
    bc_obj, _ = prepare_bc(bc, gspec, grid, dtype)
    lo, hi, n, dx, _ = geo[a]
    side = bc["axes"][a]["high" if upper else "low"]

    # transverse sub-grid (all axes but `a`) as a Cartesian spec for the reference interpolant
    others = [i for i in range(nax) if i != a]
    sub = {"cls": "cart", "shape": [geo[i][2] for i in others],
           "bounds": [[geo[i][0], geo[i][1]] for i in others],
           "periodic": [geo[i][4] for i in others]}
    base = resolve_point(case["transverse"], gspec)
    tinfo = None
    if others:
        tinfo = ri.PointInfo(sub, [base[i] for i in others], ghost=False)
        if tinfo.region not in ("centre", "bulk", "seam", "shifted"):
            # transverse position in a strip (corner region) or ambiguous: use centres
            for i in others:
                base[i] = ri.coordinate_from_cell(float(case["transverse"][i]["i"] % geo[i][2]),
                                                  geo[i][0], geo[i][3])
            tinfo = ri.PointInfo(sub, [base[i] for i in others], ghost=False)

    def transverse(arr, unc=None):
        """interpolate a boundary-shaped array (comp + transverse shape) at the base position;
        returns (value, bound)"""
        arr = np.asarray(arr)
        if not others:
            return arr, 32 * EPS * np.abs(arr) + (unc if unc is not None else 0.0) + 1e-300
        val, bound, _ = ri.interpolate(sub, arr, [base[i] for i in others], ghost=False, unc=unc)
        return val, bound

    with warnings.catch_warnings():
        warnings.simplefilter("ignore", DeprecationWarning)
        bv_pkg = np.array(field.get_boundary_values(a, upper, bc=bc_obj))
    ref, unc = reference_padded(bc, gspec, data_full, dtype)
    g, c1, c2 = gb.face_arrays(ref, gspec, a, upper)
    ug = unc[gb.face_index(nax, ref.ndim - nax, a, -1 if upper else 0)]
    G, bG = transverse(g, ug)
    C, bC = transverse(c1)
    B_ref = (G + C) / 2
    # (at the centre of a first/last transverse cell a weight ~1e-15 may fall on a transverse
    # ghost cell: covered by EDGE * largest entry of the padded array)
    axes_sp = tuple(range(ref.ndim - nax, ref.ndim))
    tol0 = bG + bC + 4 * (max(tinfo.edge) if tinfo else 0.0) * np.max(np.abs(ref), axis=axes_sp)
    kind = side["kind"].replace("_expression", "")
    if bv_pkg.shape != g.shape:
        raise Violation(f"get_boundary_values returned shape {bv_pkg.shape}, expected {g.shape}",
                        key="approach:boundary-values:shape")
    B_pkg, _ = transverse(bv_pkg)
    if not np.all(np.abs(B_pkg - B_ref) <= tol0):
        raise Violation(
            f"get_boundary_values(axis={a}, upper={upper}) on {glabel} differs from the value the "
            f"condition {side['kind']} implies: {B_pkg.tolist()!r} vs {B_ref.tolist()!r}",
            key=f"approach:boundary-values:{kind}")
    if kind == "value":
        v, _ = gb.face_parameters(side, gspec, a, upper, rank, dtype, c1, 0.0)
        V, bV = transverse(np.array(np.broadcast_to(v, np.shape(c1))))
        if not np.all(np.abs(V - B_pkg) <= tol0 + bV):
            raise Violation(
                f"boundary value {B_pkg.tolist()!r} at axis {a} upper={upper} of {glabel} differs from the "
                f"imposed Dirichlet value {V.tolist()!r}", key="approach:dirichlet-value")
    # positions approaching the face from inside: the values lie on the straight line from the
    # boundary value (as reported by get_boundary_values) to the value of the first cell
    fracs = [0.5, 0.25, 0.125, 2.0**-10, 1e-6]
    near = transverse(np.abs(c1))[0] + transverse(np.abs(g))[0]
    if c2 is not None:
        near = near + transverse(np.abs(c2))[0]
    else:
        # a single cell along the axis: the neighbour on the far side of the cell centre is the ghost cell of
        # the OTHER face, whose size is set by that face's condition (false alarm of the thorough tier: data of
        # scale 1e-3 next to a Dirichlet value of order one)
        near = near + transverse(np.abs(gb.face_arrays(ref, gspec, a, not upper)[0]))[0]
    for fr in fracs:
        s = fr * dx
        p = list(base)
        p[a] = hi - s if upper else lo + s
        s_eff = (hi - p[a]) if upper else (p[a] - lo)
        try:
            v = call_interpolate(field, p, bc_obj, None)
        except DomainError:
            raise Violation(f"point {p!r} at distance {fr}*dx inside the face of axis {a} "
                            f"({'upper' if upper else 'lower'}) of {glabel} rejected as outside",
                            key=f"approach:inside-rejected:{gspec['cls']}") from None
        want = B_pkg + (C - B_pkg) * (2 * s_eff / dx)
        # the position along the axis is resolved to `pos` cells only; at the cell centre the rounded
        # position may even lie on the far side (towards the second cell)
        pos = 16 * EPS * (abs(lo) + abs(hi) + abs(dx)) / dx
        tol = 2 * tol0 + 2 * pos * (np.abs(C - B_pkg) + tol0 + near) + 64 * EPS * np.abs(want)
        err = np.abs(v - want)
        if np.shape(v) != np.shape(want) or not np.all(err <= tol):
            raise Violation(
                f"with BC {side['kind']} at axis {a} {'upper' if upper else 'lower'} face of {glabel} "
                f"(rank {rank}): value at distance {fr}*dx is {np.asarray(v).tolist()!r}, but the line from "
                f"the boundary value {B_pkg.tolist()!r} to the first cell {C.tolist()!r} gives "
                f"{want.tolist()!r} (worst excess {np.max(err - tol):.3g})",
                key=f"approach:collinear:{gspec['cls']}:{nax}ax:{kind}:{'upper' if upper else 'lower'}")
    labels = [f"grid:{glabel}", f"rank:{rank}", f"dtype:{dtype}", f"side:{side['kind']}",
              f"vshape:{side['v']['t']}", f"face:{'upper' if upper else 'lower'}", f"axis:{a}",
              f"transverse:{tinfo.region if tinfo else 'none'}"]
    nt = gb.is_nontrivial(bc) or rank >= 1
    return {"nt": nt, "labels": labels,
            "key": base_key(case) + [a, upper, tinfo.region if tinfo else None]}


# ---------------------------------------------------------------------------------------
# interpolate_to_grid (same grid class)
# ---------------------------------------------------------------------------------------
@st.composite
def to_grid_cases(draw):
    gspec = draw(my_grids())
    rank = draw(st.sampled_from([0, 0, 1]))
    dtype = draw(st.sampled_from(["f8", "f8", "c16"]))
    nax = len(gspec["shape"])
    with_bc = draw(st.sampled_from([False, False, True]))
    frac = st.tuples(st.floats(0, 1), st.floats(0, 1)).map(sorted)
    return {"grid": gspec, "rank": rank, "dtype": dtype, "data": draw(data_spec()),
            "bc": draw(bc_strategy(gspec, rank, dtype)) if with_bc else None,
            "target": {"frac": [draw(frac) for _ in range(nax)],
                       "shape": [draw(st.integers(1, 5)) for _ in range(nax)],
                       "periodic": [draw(st.booleans()) for _ in range(nax)],
                       "overhang": draw(st.sampled_from([0, 0, 0, 1, 2])),
                       "unit": draw(st.booleans())},
            "fill": draw(st.sampled_from(FILLS))}


def target_spec(case):
    """target grid of the same class, placed relative to the source domain"""
    gspec, t = case["grid"], case["target"]
    geo = ri.axis_geometry(gspec)
    bounds = []
    for a, ((f0, f1), g) in enumerate(zip(t["frac"], geo)):
        lo, hi, n, dx, per = g
        L = hi - lo
        if f1 - f0 < 1e-3:
            f0, f1 = 0.0, 1.0
        if per:
            f0, f1 = 3 * f0 - 1, 3 * f1 - 1  # anywhere: periodic axes wrap
        elif t["overhang"] == 1 and a == 0:
            f1 = 1 + 0.5 * f1 + 1e-3  # sticks out at the upper side
        elif t["overhang"] == 2 and a == len(geo) - 1 and (lo > 0 or gspec["cls"] in ("unit", "cart") or a > 0):
            f0 = -0.5 * (1 - f0) - 1e-3  # sticks out at the lower side
        b0, b1 = lo + f0 * L, lo + f1 * L
        if not b1 > b0:
            b0, b1 = lo, hi
        bounds.append([b0, b1])
    cls = gspec["cls"]
    shape = list(t["shape"])
    if cls in ("unit", "cart"):
        if cls == "unit" and t["unit"]:
            # UnitGrid target: [0, m] with m <= n keeps it inside
            shape = [min(m, g[2]) for m, g in zip(shape, geo)]
            return {"cls": "unit", "shape": shape, "periodic": t["periodic"]}
        return {"cls": "cart", "shape": shape, "bounds": bounds, "periodic": t["periodic"]}
    r = [max(bounds[0][0], 0.0), bounds[0][1]]
    if cls in ("polar", "sph"):
        return {"cls": cls, "shape": shape, "radius": r, "periodic": [False]}
    return {"cls": "cyl", "shape": shape, "radius": r, "bounds_z": bounds[1],
            "periodic": [False, t["periodic"][1]]}


def check_to_grid(case):
    gspec, rank, dtype = case["grid"], case["rank"], case["dtype"]
    grid = build_grid(gspec)
    nax = len(gspec["shape"])
    glabel = grid_label(gspec)
    tspec = target_spec(case)
    tgrid = build_grid(tspec)
    field, data_full = make_field(grid, gspec, rank, dtype, case["data"])
    bc, fill = case["bc"], case["fill"]
    ghost = bc is not None
    bc_obj = prepare_bc(bc, gspec, grid, dtype)[0] if ghost else None
    ref, unc = reference_padded(bc, gspec, data_full, dtype) if ghost else \
        (data_full[(Ellipsis,) + (slice(1, -1),) * nax].copy(), None)
    cs = [ri.centres(tspec, a) for a in range(nax)]
    tshape = tuple(tspec["shape"])
    want = np.zeros(field.data_shape + tshape, dtype=field.data.dtype)
    bound = np.zeros(field.data_shape + tshape)
    judged = np.ones(tshape, bool)
    is_out = np.zeros(tshape, bool)
    regions = set()
    for idx in np.ndindex(*tshape):
        p = [float(cs[a][i]) for a, i in enumerate(idx)]
        val, bnd, info = ri.interpolate(gspec, ref, p, ghost=ghost, unc=unc)
        if info.ambiguous:
            judged[idx] = False
        elif info.outside:
            is_out[idx] = True
            regions.add("outside")
        else:
            want[(Ellipsis, *idx)] = val
            bound[(Ellipsis, *idx)] = bnd
            regions.add(info.region)
    # target centres are computed by the package and by the reference: rounding of the coordinates
    tgeo = ri.axis_geometry(tspec)
    posr = sum(8 * EPS * max(abs(g[0]), abs(g[1]), abs(t[0]), abs(t[1])) / g[3]
               for g, t in zip(ri.axis_geometry(gspec), tgeo))
    axes_sp = tuple(range(ref.ndim - nax, ref.ndim))
    bound = bound + 2 * posr * np.max(np.abs(ref), axis=axes_sp).reshape(field.data_shape + (1,) * nax)
    any_out = bool(np.any(is_out))
    maybe_out = any_out or not np.all(judged)
    try:
        with warnings.catch_warnings():
            warnings.simplefilter("ignore", DeprecationWarning)
            res = field.interpolate_to_grid(tgrid, bc=bc_obj, fill=fill)
    except DomainError:
        if fill is None and maybe_out:
            if any_out:
                return {"nt": True, "labels": [f"grid:{glabel}", "outcome:DomainError(expected)"],
                        "key": base_key(case) + ["domain-error"]}
            return {"nt": False, "labels": ["excluded:round-off-of-switch"]}
        raise Violation(f"interpolate_to_grid from {glabel} {ri.axis_geometry(gspec)!r} to "
                        f"{ri.axis_geometry(tspec)!r} raised DomainError although "
                        f"{'fill was given' if fill is not None else 'all target centres are inside'}",
                        key=f"to_grid:domain-error:{gspec['cls']}") from None
    if fill is None and any_out:
        raise Violation(f"target grid {ri.axis_geometry(tspec)!r} sticks out of {glabel} "
                        f"{ri.axis_geometry(gspec)!r} but no DomainError was raised (fill=None)",
                        key=f"to_grid:outside-accepted:{gspec['cls']}")
    if type(res) is not type(field) or res.grid is not tgrid:
        raise Violation(f"result is {type(res).__name__} on {res.grid!r}", key="to_grid:type")
    if res.data.shape != want.shape:
        raise Violation(f"result data shape {res.data.shape}, expected {want.shape}", key="to_grid:shape")
    if fill is not None:
        fa = fill_array(fill, field).reshape(field.data_shape + (1,) * nax)
        want = np.where(is_out, fa, want)
    ok = (np.abs(res.data - want) <= bound) | (np.isnan(want) & np.isnan(res.data)) | ~judged
    if not np.all(ok):
        bad = np.argwhere(~ok)[0]
        raise Violation(
            f"interpolate_to_grid {glabel} {ri.axis_geometry(gspec)!r} -> {ri.axis_geometry(tspec)!r} "
            f"(rank {rank}, bc={'yes' if ghost else 'no'}, fill={fill!r}): entry {bad.tolist()} is "
            f"{res.data[tuple(bad)]!r}, reference {want[tuple(bad)]!r}",
            key=f"to_grid:value:{gspec['cls']}:{nax}ax:{'bc' if ghost else 'nobc'}")
    labels = [f"grid:{glabel}", f"target:{tspec['cls']}", f"rank:{rank}", f"fill:{fill_class(fill)}"]
    labels += bc_labels(bc) + [f"region:{r}" for r in sorted(regions)]
    nt = bool(regions & {"strip", "corner", "seam", "shifted", "outside"}) or rank >= 1
    return {"nt": nt, "labels": labels,
            "key": base_key(case) + [tspec["shape"], sorted(regions), fill_class(fill)]}


# ---------------------------------------------------------------------------------------
# insertion
# ---------------------------------------------------------------------------------------
def amount_spec(dtype):
    num = st.one_of(st.sampled_from([1.0, -1.0, 0.5, 3.0]), st.floats(-1e3, 1e3))
    return st.one_of(
        st.fixed_dictionaries({"t": st.just("num"), "x": num}),
        st.fixed_dictionaries({"t": st.just("tensor"), "seed": st.integers(0, 2**31),
                               "scale": st.sampled_from([1.0, 1e-3, 1e3])}))


def make_amount(spec, comp_shape, dtype):
    if spec["t"] == "num" or not comp_shape:
        x = spec.get("x", 1.0)
        if spec["t"] == "tensor":
            x = float(rng_array(spec["seed"], (1,), "f8", "uniform", spec["scale"])[0])
        return complex(x, -0.5 * x) if dtype == "c16" else float(x)
    return rng_array(spec["seed"], comp_shape, dtype, "uniform", spec["scale"])


@st.composite
def insert_cases(draw, compiled=False, jit=False, curvilinear=False, max_cells=6):
    if curvilinear:
        gspec = draw(my_grids(max_cells=max_cells, classes=("polar", "sph", "cyl")))
    else:
        gspec = draw(my_grids(max_cells=max_cells))
    rank = draw(st.sampled_from([0, 0, 1, 2] if not jit else [0, 0, 1]))
    dtype = draw(st.sampled_from(["f8", "f8", "c16"]))
    nax = len(gspec["shape"])
    case = {"grid": gspec, "rank": rank, "dtype": dtype,
            "data": draw(st.one_of(st.none(), data_spec())),
            "inserts": draw(st.lists(st.fixed_dictionaries({
                "point": point_spec(INSIDE_MODES, nax), "amount": amount_spec(dtype)}),
                min_size=1, max_size=4))}
    if compiled:
        case["ghost"] = True if curvilinear else draw(st.booleans())
        case["view"] = draw(st.booleans())
    return case


def start_field(case, grid):
    gspec, rank, dtype = case["grid"], case["rank"], case["dtype"]
    if case["data"] is None:
        d = dim_of(gspec)
        shape_full = (d,) * rank + tuple(n + 2 for n in gspec["shape"])
        data_full = np.zeros(shape_full, dtype={"f8": float, "c16": complex}[dtype])
        f = FIELD_CLASSES[rank](grid, dtype=data_full.dtype)
        return f, data_full
    return make_field(grid, gspec, rank, dtype, case["data"])


def judge_insert(gspec, before, after, point, amount, how, glabel, integral_pkg=None):
    """before/after: valid data; asserts conservation and the per-cell reference change"""
    nax = len(gspec["shape"])
    comp_shape = before.shape[: before.ndim - nax]
    delta, touched, info = ri.insertion_delta(gspec, point, amount, comp_shape)
    allowed = ri.neighbour_mask(gspec, info)
    diff = after - before
    changed = np.any((after != before).reshape((-1,) + before.shape[before.ndim - nax:]), axis=0)
    if np.any(changed & ~allowed):
        bad = np.argwhere(changed & ~allowed)[0]
        raise Violation(
            f"{how}: inserting at {point!r} (cell coords {info.xc!r}) on {glabel} changed cell "
            f"{bad.tolist()} which is not one of the 2^d neighbours",
            key=f"{how}:foreign-cell:{gspec['cls']}:{nax}ax")
    vol = ri.cell_volumes(gspec)
    amt = np.broadcast_to(np.asarray(amount), comp_shape)
    amag = np.abs(amt).reshape(comp_shape + (1,) * nax)
    vcond = ri.cell_volume_conditioning(gspec)
    tol = (32 * EPS * np.abs(before) + (32 * EPS + vcond) * np.abs(delta)
           + 32 * sum(info.res) * amag / vol * allowed + 1e-300)
    err = np.abs(diff - delta)
    if not np.all(err <= tol):
        bad = np.unravel_index(np.argmax(err - tol), err.shape)
        raise Violation(
            f"{how}: inserting {np.asarray(amount).tolist()!r} at {point!r} (cell coords {info.xc!r}, "
            f"{info.classes}) on {glabel}: cell {list(bad)} changed by {diff[bad]!r}, reference "
            f"{delta[bad]!r} (weight*amount/cell volume)",
            key=f"{how}:cell-change:{gspec['cls']}:{nax}ax:{info.region}")
    # conservation with exact cell volumes
    axes = tuple(range(before.ndim - nax, before.ndim))
    S = np.sum((np.abs(before) + np.abs(after)) * vol, axis=axes)
    dI = ri.integral(gspec, after) - ri.integral(gspec, before)
    tolI = (64 * EPS * (S + np.abs(amt)) + (2 * float(np.max(vcond)) + 32 * sum(info.res)) * np.abs(amt)
            + 1e-300)
    if not np.all(np.abs(dI - amt) <= tolI):
        raise Violation(
            f"{how}: inserting {np.asarray(amount).tolist()!r} at {point!r} ({info.classes}) on {glabel} "
            f"changes the integral by {np.asarray(dI).tolist()!r}",
            key=f"{how}:integral:{gspec['cls']}:{nax}ax:{info.region}")
    return info


def check_insert_conserves(case):
    gspec, rank, dtype = case["grid"], case["rank"], case["dtype"]
    grid = build_grid(gspec)
    nax = len(gspec["shape"])
    glabel = grid_label(gspec)
    field, _ = start_field(case, grid)
    valid = (Ellipsis,) + (slice(1, -1),) * nax
    regions = set()
    dropped = 0
    for ins in case["inserts"]:
        p = resolve_point(ins["point"], gspec)
        info = ri.PointInfo(gspec, p, ghost=True)
        if info.ambiguous or info.outside:
            dropped += 1
            continue
        amount = make_amount(ins["amount"], field.data_shape, dtype)
        full_before = field._data_full.copy()
        before = field.data.copy()
        I0 = np.array(field.integral)
        try:
            field.insert(np.array(p), amount)
        except DomainError:
            raise Violation(f"insert at inside point {p!r} of {glabel} raised DomainError",
                            key=f"insert:inside-rejected:{gspec['cls']}") from None
        I1 = np.array(field.integral)
        after = field.data.copy()
        info = judge_insert(gspec, before, after, p, amount, "insert", glabel)
        # the statement's observable: field.integral
        amt = np.broadcast_to(np.asarray(amount), field.data_shape)
        vol = ri.cell_volumes(gspec)
        S = np.sum((np.abs(before) + np.abs(after)) * vol, axis=tuple(range(rank, rank + nax)))
        if not np.all(np.abs((I1 - I0) - amt) <= 64 * EPS * (S + np.abs(amt)) + 1e-300):
            raise Violation(
                f"field.integral changed by {(I1 - I0).tolist()!r} after inserting "
                f"{np.asarray(amount).tolist()!r} at {p!r} ({info.classes}) on {glabel}",
                key=f"insert:field-integral:{gspec['cls']}:{nax}ax:{info.region}")
        mask = np.ones(full_before.shape, bool)
        mask[valid] = False
        if not np.array_equal(field._data_full[mask], full_before[mask]):
            raise Violation("insert modified ghost cells", key="insert:ghost-modified")
        regions.add(info.region)
    labels = [f"grid:{glabel}", f"rank:{rank}", f"dtype:{dtype}",
              "start:zero" if case["data"] is None else "start:random"]
    labels += [f"region:{r}" for r in sorted(regions)]
    if dropped:
        labels.append("excluded:round-off-of-switch")
    nt = bool(regions & {"strip", "corner", "seam", "shifted"}) or (rank >= 1 and bool(regions))
    return {"nt": nt, "labels": labels, "key": base_key(case) + [sorted(regions), case["data"] is None]}


def check_insert_compiled(case):
    gspec, rank, dtype = case["grid"], case["rank"], case["dtype"]
    grid = build_grid(gspec)
    geo = ri.axis_geometry(gspec)
    nax = len(geo)
    glabel = grid_label(gspec)
    ghost = case["ghost"]
    field, _ = start_field(case, grid)
    valid = (Ellipsis,) + (slice(1, -1),) * nax
    inserter = get_backend("numba").make_inserter(grid, with_ghost_cells=ghost)
    how = "compiled+ghost" if ghost else "compiled"
    regions = set()
    dropped = remapped = 0
    for ins in case["inserts"]:
        pspec = [dict(c) for c in ins["point"]]
        if ghost:
            # all 2^d neighbours must be valid cells: 0 <= xc < n-1 on non-periodic axes (the upper
            # neighbour of the last cell's centre is a ghost cell, whose volume is undefined)
            for c, g in zip(pspec, geo):
                if g[4]:
                    continue
                if c["m"] not in ("centre", "face", "bulk"):
                    c["m"] = "near_bulk" if c["m"] == "near" else "bulk"
                    remapped += 1
                if c["m"] == "centre" and g[2] > 1:
                    c["i"] = c["i"] % (g[2] - 1)
        p = resolve_point(pspec, gspec)
        info = ri.PointInfo(gspec, p, ghost=True)
        if info.ambiguous or info.outside:
            dropped += 1
            continue
        if ghost and any(not g[4] and not (-1e-13 <= xc <= g[2] - 1 - 1e-9)
                         for xc, g in zip(info.xc, geo)):
            dropped += 1
            continue
        amount = make_amount(ins["amount"], field.data_shape, dtype)
        if isinstance(amount, np.ndarray):
            amount = np.ascontiguousarray(amount)
        # interpreted route
        f_int = field.copy()
        f_int.insert(np.array(p), amount)
        # compiled route
        full = field._data_full.copy()
        full_before = full.copy()
        if ghost:
            arr = full
        elif case["view"]:
            arr = full[valid]
        else:
            arr = np.ascontiguousarray(full[valid])
        try:
            inserter(arr, np.array(p, dtype=float), amount)
        except DomainError:
            raise Violation(f"{how}: inside point {p!r} of {glabel} raised DomainError",
                            key=f"{how}:inside-rejected:{gspec['cls']}") from None
        after = arr[valid] if ghost else arr
        if ghost or case["view"]:
            mask = np.ones(full.shape, bool)
            mask[valid] = False
            # (at a cell centre the position is only resolved to `res` cells: a share of that size
            # may fall on the ghost neighbour when the inserter works on the padded array)
            amax = float(np.max(np.abs(amount)))
            gtol = (32 * sum(info.res) * amax / float(np.min(ri.cell_volumes(gspec)))) if ghost else 0.0
            if not np.all(np.abs(full[mask] - full_before[mask]) <= gtol):
                raise Violation(f"{how}: ghost cells changed when inserting at bulk point {p!r} on {glabel}",
                                key=f"{how}:ghost-modified:{gspec['cls']}")
        before = full_before[valid]
        info = judge_insert(gspec, before, after, p, amount, how, glabel)
        # compiled == interpreted, cell by cell
        d_int = f_int.data - before
        vol = ri.cell_volumes(gspec)
        amag = np.abs(np.broadcast_to(np.asarray(amount), field.data_shape)).reshape(
            field.data_shape + (1,) * nax)
        # weights below 1e-15 are clamped to zero by the compiled code (inside the tolerance)
        tol = 64 * EPS * (np.abs(before) + np.abs(d_int)) + 32 * sum(info.res) * amag / vol + 1e-300
        if not np.all(np.abs(after - f_int.data) <= tol):
            bad = np.unravel_index(np.argmax(np.abs(after - f_int.data) - tol), after.shape)
            raise Violation(
                f"{how}: make_inserter and field.insert disagree at cell {list(bad)} when inserting at "
                f"{p!r} ({info.classes}) on {glabel}: {after[bad]!r} vs {f_int.data[bad]!r}",
                key=f"{how}:vs-interpreted:{gspec['cls']}:{nax}ax:{info.region}")
        field._data_full[...] = full if ghost else full_before
        if not ghost:
            field.data[...] = after
        regions.add(info.region)
    labels = [f"grid:{glabel}", f"rank:{rank}", f"dtype:{dtype}", f"ghost:{ghost}",
              "start:zero" if case["data"] is None else "start:random"]
    labels += [f"region:{r}" for r in sorted(regions)]
    if dropped:
        labels.append("excluded:round-off-or-strip-with-ghost")
    if remapped:
        labels.append("remapped:strip->bulk(with ghost cells)")
    if not ghost:
        labels.append("array:view" if case["view"] else "array:contiguous")
    nt = bool(regions) and (bool(regions & {"strip", "corner", "seam", "shifted"}) or rank >= 1
                            or gspec["cls"] in ("polar", "sph", "cyl"))
    return {"nt": nt, "labels": labels,
            "key": base_key(case) + [ghost, sorted(regions), case["data"] is None]}


# ---------------------------------------------------------------------------------------
# to_cartesian_fill: fill value of vector fields converted to a Cartesian grid
# ---------------------------------------------------------------------------------------
@st.composite
def cart_fill_cases(draw):
    gspec = draw(my_grids(classes=("polar", "sph", "cyl"), len_lo=0.5, len_hi=4.0, offset_mag=3.0, min_cells=2))
    return {"grid": gspec, "rank": draw(st.sampled_from([0, 1])), "data": draw(data_spec()),
            "fill": draw(st.sampled_from([-3.5, 1.0, 7.25])), "num": draw(st.integers(3, 6))}


def check_cart_fill(case):
    """outside target cells hold the fill value (scalar and vector fields, curvilinear -> Cartesian)"""
    gspec, rank = case["grid"], case["rank"]
    grid = build_grid(gspec)
    geo = ri.axis_geometry(gspec)
    R = geo[0][1]
    dim = dim_of(gspec)
    # a box that sticks out of the domain in every direction (corner cells are clearly outside)
    bounds = [[-1.5 * R, 1.5 * R] for _ in range(dim)]
    if gspec["cls"] == "cyl":
        lo, hi = geo[1][0], geo[1][1]
        bounds[2] = [lo - 0.5 * (hi - lo), hi + 0.5 * (hi - lo)]
    tspec = {"cls": "cart", "shape": [case["num"]] * dim, "bounds": bounds, "periodic": [False] * dim}
    tgrid = build_grid(tspec)
    field, _ = make_field(grid, gspec, rank, "f8", case["data"])
    fill = case["fill"]
    res = field.interpolate_to_grid(tgrid, fill=fill)
    cs = [ri.centres(tspec, a) for a in range(dim)]
    X = np.stack(np.meshgrid(*cs, indexing="ij"), axis=-1)
    r = np.hypot(X[..., 0], X[..., 1]) if gspec["cls"] != "sph" else np.linalg.norm(X, axis=-1)
    out = (r > R * (1 + 1e-6)) | (r < geo[0][0] * (1 - 1e-6))
    if gspec["cls"] == "cyl" and not geo[1][4]:
        out |= (X[..., 2] < geo[1][0] - 1e-6 * R) | (X[..., 2] > geo[1][1] + 1e-6 * R)
    vals = res.data[..., out]
    if vals.size and not np.all(vals == fill):
        bad = np.argwhere(out & np.any((res.data != fill).reshape((-1,) + out.shape), axis=0))[0]
        raise Violation(
            f"{type(field).__name__}.interpolate_to_grid({grid_label(gspec)} -> Cartesian, fill={fill!r}): "
            f"outside target cell {bad.tolist()} holds {res.data[(Ellipsis, *bad)].tolist()!r} instead of the "
            f"fill value", key="C16:vector-to-cartesian:fill-value-rotated" if rank == 1
            else f"to_cartesian_fill:scalar:{gspec['cls']}")
    return {"nt": bool(vals.size), "labels": [f"grid:{grid_label(gspec)}", f"rank:{rank}"],
            "key": [gspec["cls"], gspec["shape"], rank, case["num"], fill]}


# ---------------------------------------------------------------------------------------
NT_INTERP = ("non-trivial = at least one point in a boundary strip, corner region, periodic seam or "
             "shifted by whole periods, or field rank >= 1")
NT_INSERT = ("non-trivial = at least one inserted point in a strip/corner/seam/shifted region, or rank >= 1 "
             "(compiled: or a grid with non-uniform cell volumes)")

def _whole_case(fn):
    """distinctness = the whole case (the structural keys computed by the checks are coarser)"""
    def run(case):
        rec = fn(case)
        rec.pop("key", None)
        return rec
    run.__name__ = fn.__name__
    return run


SUBCHECKS = [
    SubCheck("interp_reference", strategy=reference_cases, check=check_reference, mode="nojit",
             budget={"quick": 2400, "thorough": 64000}, shards={"quick": 4, "thorough": 16},
             rule=NT_INTERP),
    SubCheck("interp_reference_jit", strategy=lambda: reference_cases(max_cells=4, jit=True),
             check=check_reference, mode="jit",
             budget={"quick": 32, "thorough": 800}, shards={"quick": 2, "thorough": 8},
             time_limit={"quick": 90, "thorough": 1500}, rule=NT_INTERP),
    SubCheck("interp_consequences", strategy=consequence_cases, check=check_consequences, mode="nojit",
             budget={"quick": 600, "thorough": 20000}, shards={"quick": 2, "thorough": 8},
             rule=NT_INTERP),
    SubCheck("interp_bc_approach", strategy=approach_cases, check=check_approach, mode="nojit",
             budget={"quick": 600, "thorough": 20000}, shards={"quick": 2, "thorough": 8},
             rule="non-trivial = inhomogeneous / non-Dirichlet-Neumann / array-valued condition, or rank >= 1"),
    SubCheck("interpolate_to_grid", strategy=to_grid_cases, check=check_to_grid, mode="nojit",
             budget={"quick": 500, "thorough": 12000}, shards={"quick": 1, "thorough": 4},
             rule="non-trivial = a target centre in a strip/corner/seam/outside region, or rank 1"),
    SubCheck("insert_conserves", strategy=insert_cases, check=check_insert_conserves, mode="pure",
             budget={"quick": 1200, "thorough": 30000}, shards={"quick": 2, "thorough": 8},
             rule=NT_INSERT),
    SubCheck("insert_compiled_vs_interpreted", strategy=lambda: insert_cases(compiled=True),
             check=check_insert_compiled, mode="nojit",
             budget={"quick": 600, "thorough": 20000}, shards={"quick": 1, "thorough": 4},
             rule=NT_INSERT),
    SubCheck("insert_compiled_jit", strategy=lambda: insert_cases(compiled=True, jit=True, max_cells=4),
             check=check_insert_compiled, mode="jit",
             budget={"quick": 24, "thorough": 500}, shards={"quick": 1, "thorough": 4},
             time_limit={"quick": 90, "thorough": 1500}, rule=NT_INSERT),
    SubCheck("insert_ghost_curvilinear",
             strategy=lambda: insert_cases(compiled=True, curvilinear=True), check=check_insert_compiled,
             mode="nojit", budget={"quick": 200, "thorough": 5000}, shards={"quick": 1, "thorough": 2},
             rule="non-trivial = every case (polar/spherical/cylindrical grid, inserter on the padded array)"),
    SubCheck("to_cartesian_fill", strategy=cart_fill_cases, check=check_cart_fill, mode="nojit",
             budget={"quick": 60, "thorough": 1000}, shards={"quick": 1, "thorough": 1},
             rule="non-trivial = at least one target cell clearly outside the domain"),
]

for _s in SUBCHECKS:
    _s.check = _whole_case(_s.check)
