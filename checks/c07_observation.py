"""C07 - observation does not perturb a simulation; step and time accounting is exact.

Every case is one call ``eq.solve(state, (t_start, t_end), dt, solver=..., backend=...,
tracker=[...])`` of a user-defined test equation on a 1-4 cell periodic grid, written
exactly as a user would write it.  Sub-checks:

* ``observation_metamorphic``  run with read-only trackers == run with ``tracker=None``
  (bit-identical for the autonomous equations, to time round-off for the non-autonomous one).
* ``step_time_accounting``     ``steps == N`` / ``t_final == t_end`` for whole-step ranges;
  for every range: final state == ``steps`` applications of the textbook one-step map,
  ``t_final == t_start + steps*dt``, ``|t_final - t_end| < dt``.
* ``initial_state_untouched``  the caller's state object (valid data, ghost cells, dtype,
  label) is bit-identical after the run; the result is another object with its own memory.

Each exists as a ``*_nojit`` breadth version and a small ``*_jit`` sample (numba backend
really compiled).  "Whole number of steps" is decided on the generating integers
(``theta == [0, 1]``), never on floats.
"""

from __future__ import annotations

import numpy as np
from hypothesis import strategies as st

from vlib import env

env.setup()

import pde  # noqa: E402
from pde.solvers import Controller  # noqa: E402
from pde.solvers.base import SolverBase  # noqa: E402

from vlib import sim_common as sc  # noqa: E402
from vlib.core import SubCheck, Violation  # noqa: E402

PROPERTY = "C07"
RULE = ("one solve() per case (two for the metamorphic sub-check); non-trivial = at least one tracker "
        "whose interval is not an integer multiple of dt was called at least twice and N >= 3; "
        "distinct = (solver, backend, equation kind, time axis (dt, t_start, N, theta), interrupt schedules) - "
        "i.e. everything that enters the rounding of segments; states and rate constants do not count")
ASSUMPTIONS = [
    "trackers are read-only (they copy what they see; evaluating an operator on the live state only "
    "rewrites its ghost cells, which the test equations never read)",
    "|t_start| <= 1e5*dt and dt >= 1e-4, so that ulp(t) <= 1e-10*dt (the controller's own loop "
    "tolerance is 1e-6*dt); ranges of 0..200 steps",
    "|a*dt| <= 0.5 (all schemes stable, fixed-point schemes converge; non-convergence = rejected input)",
    "ranges within 1e-3*dt of a whole number of steps without being constructed as one are judged by "
    "the any-range clause only",
    "'same to round-off' for the non-autonomous equation includes round-off of the time argument: "
    "tolerance steps*dt*|df/dt|*(segments+2)*ulp(t)",
]


# ---------------------------------------------------------------------------------------
# strategies
# ---------------------------------------------------------------------------------------
def case_strategy(mode, min_trackers=0, max_trackers=4, kinds=("lin", "nonlin", "nonauto"), hook=False):
    jit = mode == "jit"
    tr_kinds = ("data", "callback", "storage", "custom", "callback1")

    @st.composite
    def build(draw):
        eq = draw(sc.eq_specs(kinds))
        if hook and eq["kind"] == "lin" and draw(st.integers(0, 2)) == 0:
            eq = dict(eq, hook=True)  # equation with a stateful post-step hook (metamorphic clause only)
        state = draw(sc.state_specs(allow_coll=eq["kind"] != "nonlin" and not eq.get("hook"),
                                    allow_complex=eq["kind"] == "lin"))
        time = draw(sc.time_specs(max_n=40 if jit else 200))
        solver = draw(sc.solver_specs(mode))
        trackers = draw(st.lists(sc.tracker_specs(tr_kinds, funcs=not jit),
                                 min_size=min_trackers, max_size=max_trackers))
        return {"eq": eq, "state": state, "time": time, "solver": solver, "trackers": trackers}

    return build()


# ---------------------------------------------------------------------------------------
# common
# ---------------------------------------------------------------------------------------
def _labels(case, recs=None):
    s = case["solver"]
    labs = [f"solver:{s['name']}", f"backend:{s['backend']}", f"eq:{case['eq']['kind']}",
            f"range:{sc.theta_class(case['time'])}", f"build:{case['time']['build']}",
            f"trackers:{len(case['trackers'])}", "t0:zero" if not case["time"]["t0m"] else "t0:nonzero"]
    if case["eq"].get("zi"):
        labs.append("eq:complex")
    if "data2" in case["state"]:
        labs.append("state:collection")
    if "imag" in case["state"]:
        labs.append("state:complex")
    for t in case["trackers"]:
        labs.append("intr:" + sc.interrupt_label(t["intr"]))
        labs.append("tracker:" + t["kind"])
    return labs


def _key(case):
    s = case["solver"]
    return [s["name"], s["backend"], case["eq"]["kind"], case["time"], [t["intr"] for t in case["trackers"]]]


def _nontrivial(case, recs):
    if case["time"]["N"] < 3:
        return False
    for t, r in zip(case["trackers"], recs):
        if not sc.is_commensurate(t["intr"]) and len(r.times()) >= 2:
            return True
    return False


def _vkey(sub, what, case):
    s = case["solver"]
    return f"{sub}:{what}:{s['backend']}:{s['name']}"


def _total_calls(recs):
    return sum(len(r.times()) for r in recs)


def _finite(a):
    return bool(np.all(np.isfinite(a)))


# ---------------------------------------------------------------------------------------
# (i) metamorphic: trackers vs no trackers
# ---------------------------------------------------------------------------------------
def check_metamorphic(case):
    dt, t0, t1, x = sc.times_of(case["time"])
    res_a, info_a, _ = sc.run_sim(case, None)
    objs, recs = sc.build_trackers(case["trackers"], dt, t0)
    res_b, info_b, _ = sc.run_sim(case, objs)
    labels = _labels(case)
    sa, sb = info_a["solver"]["steps"], info_b["solver"]["steps"]
    ta, tb = info_a["controller"]["t_final"], info_b["controller"]["t_final"]
    calls = _total_calls(recs)
    tmax = max(abs(t0), abs(t1), abs(ta))
    ctx = (f"dt={dt!r} t_range=({t0!r}, {t1!r}) X={float(x)!r} steps {sa} vs {sb}, t_final {ta!r} vs {tb!r}, "
           f"{calls} tracker calls")
    if sa != sb:
        raise Violation(f"number of steps changes under observation: {ctx}", key=_vkey("meta", "steps", case))
    if abs(ta - tb) > (calls + sa + 4) * 4 * sc.ulp(tmax):
        raise Violation(f"t_final changes under observation: {ctx}", key=_vkey("meta", "t_final", case))
    da, db = res_a.data, res_b.data
    if da.dtype != db.dtype or da.shape != db.shape or type(res_a) is not type(res_b):
        raise Violation(f"type of the result changes under observation: {da.dtype}/{db.dtype}",
                        key=_vkey("meta", "type", case))
    if case["eq"]["kind"] != "nonauto":
        if not np.array_equal(da, db, equal_nan=True):
            raise Violation(
                f"final state not bit-identical under observation (autonomous equation): "
                f"max |diff| = {np.nanmax(np.abs(da - db)):.3g}; without {da.tolist()!r} with {db.tolist()!r}; {ctx}",
                key=_vkey("meta", "state", case))
    elif _finite(da):
        scale = max(1.0, float(np.abs(da).max()), abs(case["eq"]["zb"] / case["eq"]["z"]))
        tol = (sa + 1) * 1e-13 * scale + sc.time_jitter_tol(case, sa, calls + 1, tmax, dt)
        err = float(np.abs(da - db).max())
        labels.append("nonauto:diff=0" if err == 0 else "nonauto:diff>0")
        if not err <= tol:
            raise Violation(f"final state differs by {err:.3g} > {tol:.3g} under observation "
                            f"(non-autonomous equation); {ctx}", key=_vkey("meta", "state", case))
    if not _finite(da):
        labels.append("nonfinite")
    labels.append("segments>=3" if calls >= 3 else "segments<3")
    return {"nt": _nontrivial(case, recs) and _finite(da), "key": _key(case), "labels": labels}


# ---------------------------------------------------------------------------------------
# (ii) accounting
# ---------------------------------------------------------------------------------------
def check_accounting(case):
    dt, t0, t1, x = sc.times_of(case["time"])
    objs, recs = sc.build_trackers(case["trackers"], dt, t0)
    res, info, _ = sc.run_sim(case, objs)
    labels = _labels(case)
    steps = info["solver"]["steps"]
    tf = info["controller"]["t_final"]
    n = case["time"]["N"]
    cls = sc.theta_class(case["time"])
    calls = _total_calls(recs)
    tmax = max(abs(t0), abs(t1), abs(tf))
    ctx = (f"dt={dt!r} t_range=({t0!r}, {t1!r}) X={float(x)!r} ({cls}) steps={steps} t_final={tf!r} "
           f"{calls} tracker calls")
    if not isinstance(steps, (int, np.integer)):
        raise Violation(f"steps is not an integer: {steps!r}", key=_vkey("acct", "steps-type", case))
    if cls == "whole":
        if steps != n:
            raise Violation(f"range of exactly N={n} steps was simulated with {steps} steps; {ctx}",
                            key=_vkey("acct", "steps!=N", case))
        if abs(tf - t1) > 1e-6 * dt:
            raise Violation(f"t_final != t_end for a whole-step range; {ctx}",
                            key=_vkey("acct", "t_final!=t_end", case))
    if abs(tf - (t0 + steps * dt)) > (steps + calls + 4) * 4 * sc.ulp(tmax):
        raise Violation(f"t_final != t_start + steps*dt (off by {tf - (t0 + steps * dt):.3g}); {ctx}",
                        key=_vkey("acct", "t_final!=t0+steps*dt", case))
    if not abs(tf - t1) < dt * (1 + 1e-9):
        raise Violation(f"|t_final - t_end| = {abs(tf - t1):.6g} >= dt; {ctx}",
                        key=_vkey("acct", "|t_final-t_end|>=dt", case))
    # final state == `steps` applications of the one-step map
    kind, name = case["eq"]["kind"], case["solver"]["name"]
    data = res.data
    ref = None
    if kind == "lin":
        ref, tol = sc.lin_reference(case, steps)
    elif kind == "nonauto":
        ref = sc.step_reference(case, steps, t0, dt)
        scale = max(1.0, float(np.abs(ref).max()), abs(case["eq"]["zb"] / case["eq"]["z"]))
        tol = (steps + 1) * 1e-13 * scale + sc.time_jitter_tol(case, steps, calls + 1, tmax, dt)
        if name in ("implicit", "crank-nicolson"):
            tol += (steps + 1) * 10 * np.sqrt(ref.size) * sc.MAXERROR * scale
    elif name in ("euler", "runge-kutta") and case["eq"]["zr"] * steps <= 10:
        ref = sc.step_reference(case, steps, t0, dt)
        # round-off is amplified by at most exp(r T) = exp(zr*steps)
        tol = (steps + 1) * 1e-13 * float(np.exp(case["eq"]["zr"] * steps)) * max(1.0, float(np.abs(ref).max()))
    if ref is not None and _finite(ref):
        labels.append("reference:yes")
        err = float(np.abs(data - ref).max())
        if not err <= tol:
            raise Violation(f"final state is not {steps} applications of the {name} one-step map: "
                            f"|diff| = {err:.3g} > {tol:.3g}; got {data.tolist()!r} want {ref.tolist()!r}; {ctx}",
                            key=_vkey("acct", "state", case))
    else:
        labels.append("reference:no")
    nt = n >= 3 and (not case["trackers"] or _nontrivial(case, recs)) and ref is not None
    return {"nt": nt, "key": _key(case), "labels": labels}


# ---------------------------------------------------------------------------------------
# (iii) the caller's state
# ---------------------------------------------------------------------------------------
def untouched_strategy(mode):
    base = case_strategy(mode, max_trackers=3)
    return st.builds(lambda c, route: dict(c, route=route), base,
                     st.sampled_from(["solve", "solve", "controller"]))


def _snapshot(state):
    snap = {"full": state._data_full.tobytes(), "dtype": state._data_full.dtype, "label": state.label,
            "shape": state._data_full.shape, "type": type(state)}
    if isinstance(state, pde.FieldCollection):
        snap["labels"] = list(state.labels)
        snap["members"] = [f._data_full.tobytes() for f in state]
    return snap


def check_untouched(case):
    dt, t0, t1, x = sc.times_of(case["time"])
    state = sc.build_state(case["state"])
    before = _snapshot(state)
    objs, recs = sc.build_trackers(case["trackers"], dt, t0)
    if case["route"] == "controller":
        eq = sc.SimEq(case["eq"], dt)
        s = case["solver"]
        solver = SolverBase.from_name(s["name"], pde=eq, backend=s["backend"], **sc.solver_kwargs(s))
        ctrl = Controller(solver, t_range=(t0, t1), tracker=objs)
        res = ctrl.run(state, dt)
    else:
        res, info, _ = sc.run_sim(case, objs, state=state)
    after = _snapshot(state)
    labels = _labels(case) + [f"route:{case['route']}"]
    for k in before:
        if before[k] != after[k]:
            what = "data/ghost cells" if k in ("full", "members") else k
            raise Violation(f"the caller's initial state was modified ({what}): before "
                            f"{np.frombuffer(before['full'], dtype=before['dtype']).tolist() if k == 'full' else before[k]!r} "
                            f"after {state._data_full.tolist() if k == 'full' else after[k]!r}",
                            key=_vkey("init", f"modified:{k}", case))
    if res is state:
        raise Violation("solve returned the caller's state object itself", key=_vkey("init", "same-object", case))
    if np.shares_memory(res._data_full, state._data_full):
        raise Violation("the returned state shares memory with the caller's state",
                        key=_vkey("init", "shared-memory", case))
    if isinstance(state, pde.FieldCollection):
        for f, g in zip(state, res):
            if np.shares_memory(f._data_full, g._data_full):
                raise Violation("a member of the returned collection shares memory with the caller's state",
                                key=_vkey("init", "shared-memory", case))
    want = complex if case["eq"].get("zi") or "imag" in case["state"] else float
    if res.data.dtype != np.dtype(want):
        raise Violation(f"returned dtype {res.data.dtype}, expected {np.dtype(want)}",
                        key=_vkey("init", "dtype", case))
    moved = not np.array_equal(res.data, state.data)
    labels.append("moved" if moved else "unmoved")
    return {"nt": moved and case["time"]["N"] >= 1, "key": _key(case) + [case["route"]], "labels": labels}


# ---------------------------------------------------------------------------------------
# (iv) one Controller object run several times (after missed seed C07-6): every run starts from
# scratch - same initial state => same final state, same step count, same final time
# ---------------------------------------------------------------------------------------
def check_controller_rerun(case):
    dt, t0, t1, x = sc.times_of(case["time"])
    eq = sc.SimEq(case["eq"], dt)
    s = case["solver"]
    solver = SolverBase.from_name(s["name"], pde=eq, backend=s["backend"], **sc.solver_kwargs(s))
    objs, recs = sc.build_trackers(case["trackers"], dt, t0)
    controller = Controller(solver, t_range=(t0, t1), tracker=objs)
    init = sc.build_state(case["state"])
    n = case["time"]["N"]
    cls = sc.theta_class(case["time"])
    runs = []
    for i in range(int(case["runs"])):
        state = init.copy()
        try:
            res = controller.run(state, dt)
        except sc.ConvergenceError as err:
            raise sc.Rejected(f"ConvergenceError: {err}") from err
        runs.append((np.array(res.data, copy=True), int(solver.info["steps"]), float(controller.info["t_final"])))
    labels = _labels(case) + [f"runs:{len(runs)}"]
    data0, steps0, tf0 = runs[0]
    if not _finite(data0):
        return {"nt": False, "key": _key(case), "labels": labels + ["non-finite"]}
    ctx = f"dt={dt!r} t_range=({t0!r}, {t1!r}) ({cls}) solver={s['name']}:{s['backend']}"
    for i, (data, steps, tf) in enumerate(runs[1:], start=2):
        if steps != steps0:
            raise Violation(f"run {i} of the same Controller from the same initial state reports {steps} steps, the "
                            f"first run {steps0} (N={n}); {ctx}", key=_vkey("rerun", "steps", case))
        if tf != tf0:
            raise Violation(f"run {i} of the same Controller ends at t_final={tf!r}, the first run at {tf0!r}; {ctx}",
                            key=_vkey("rerun", "t_final", case))
        if not np.array_equal(data, data0):
            raise Violation(f"run {i} of the same Controller from the same initial state ends in another state: "
                            f"max |diff| = {float(np.abs(data - data0).max()):.3g}; first {data0.tolist()!r}, "
                            f"now {data.tolist()!r}; {ctx}", key=_vkey("rerun", "state", case))
    if cls == "whole" and steps0 != n:
        raise Violation(f"range of exactly N={n} steps was simulated with {steps0} steps; {ctx}",
                        key=_vkey("rerun", "steps!=N", case))
    moved = not np.array_equal(data0, np.asarray(init.data))
    return {"nt": n >= 3 and moved and len(runs) >= 2, "key": [_key(case), case["runs"]], "labels": labels}


def rerun_strategy(mode):
    # without trackers: the interrupts of a tracker that is initialised a second time may split the run
    # into other segments, which changes the rounding of the time axis (not what is judged here)
    base = case_strategy(mode, max_trackers=0, hook=True)
    return st.builds(lambda c, r: dict(c, runs=r), base, st.sampled_from([2, 2, 3]))


# ---------------------------------------------------------------------------------------
def _sub(name, strat, check, mode, quick, thorough, shards_q, rule):
    return SubCheck(name=name, strategy=strat, check=check, mode=mode,
                    budget={"quick": quick, "thorough": thorough},
                    shards={"quick": shards_q, "thorough": 16 if mode == "nojit" else 8},
                    time_limit={"quick": 240 if mode == "jit" else 150, "thorough": 1500}, rule=rule)


R_META = ("non-trivial = N >= 3, finite result and >= 1 tracker with an interval that is not an integer "
          "multiple of dt called >= 2 times")
R_ACCT = "non-trivial = N >= 3, a reference state exists, and (no tracker or a non-commensurate one called >= 2 times)"
R_INIT = "non-trivial = the simulation moved the state away from the initial data"

SUBCHECKS = [
    _sub("observation_metamorphic_nojit", lambda: case_strategy("nojit", min_trackers=1, hook=True),
         check_metamorphic, "nojit", 2000, 40000, 6, R_META),
    _sub("step_time_accounting_nojit", lambda: case_strategy("nojit"),
         check_accounting, "nojit", 2000, 40000, 5, R_ACCT),
    _sub("initial_state_untouched_nojit", lambda: untouched_strategy("nojit"),
         check_untouched, "nojit", 600, 12000, 2, R_INIT),
    _sub("controller_rerun_nojit", lambda: rerun_strategy("nojit"), check_controller_rerun, "nojit", 800, 15000, 2,
         "one Controller object run 2-3 times from the same initial state; non-trivial = N >= 3 and the state moved"),
    _sub("controller_rerun_jit", lambda: rerun_strategy("jit"), check_controller_rerun, "jit", 8, 100, 1,
         "one Controller object run 2-3 times (compiled stepper); non-trivial = N >= 3 and the state moved"),
    _sub("observation_metamorphic_jit", lambda: case_strategy("jit", min_trackers=1, max_trackers=3, hook=True),
         check_metamorphic, "jit", 12, 200, 2, R_META),
    _sub("step_time_accounting_jit", lambda: case_strategy("jit", max_trackers=3),
         check_accounting, "jit", 16, 250, 2, R_ACCT),
    _sub("initial_state_untouched_jit", lambda: untouched_strategy("jit"),
         check_untouched, "jit", 8, 100, 1, R_INIT),
]
# jit samples first: they are the long pole, the runner starts jobs in list order
SUBCHECKS.sort(key=lambda sc_: sc_.mode != "jit")
