"""C14 - saving and restoring grids and fields loses nothing.

Sub-checks

* ``grid_roundtrips``      every documented way of saving/restoring/copying a grid; the grid is
                           constructed with drawn *representations* of its arguments (radius as
                           float / np.float64 / tuple / list / array, shape as int / np.int64 /
                           list / array, bounds as tuples / lists / arrays, ...).
* ``field_roundtrip``      ``FieldBase.from_state(unserialize_attributes(attributes_serialized),
                           data=f.data)`` for all field classes, dtypes, labels.
* ``collection_roundtrip`` the same for collections (label, labels, mixed ranks and dtypes).
* ``from_data``            ``FieldCollection.from_data(classes, grid, data)`` against the
                           documented flat layout (``dim**rank`` rows per field).
* ``storage_attributes``   the ``info['field_attributes']`` route of the storages.
* ``grid_numpy_scalars``   aimed sub-check for grids whose constructor was given numpy integer /
                           bool_ scalars (``state_serialized`` raised TypeError for them before
                           fix dd4e081; the main generator covers these representations too).

The oracle is the statement itself: the restored object is compared attribute by attribute
with the original (exact comparison: the round trip is specified as lossless).
"""

from __future__ import annotations

import copy
import json
import pickle

import numpy as np
from hypothesis import strategies as st

from vlib import env

env.setup()

import pde  # noqa: E402
from pde import (  # noqa: E402
    FieldCollection,
    MemoryStorage,
    ScalarField,
    Tensor2Field,
    VectorField,
)
from pde.fields.base import FieldBase  # noqa: E402
from pde.grids.base import GridBase  # noqa: E402

from vlib import gen_grids as gg  # noqa: E402
from vlib.core import SubCheck, Violation  # noqa: E402

PROPERTY = "C14"
RULE = ("one case = one grid (class, parameters, argument representations) or one field / "
        "collection on such a grid; every route is evaluated for every case; distinct = whole case")
ASSUMPTIONS = [
    "grid arguments are Python numbers, np.float64 / np.int64 / np.bool_ scalars, tuples, lists or "
    "float64 / int64 / bool arrays; np.float32 values are not generated (a grid keeps them and computes "
    "its volume in single precision, so that even from_state(state) changes the last digits)",
    "UnitGrid(np.int64 scalar) and 0-d arrays as shape are rejected by the constructors "
    "(TypeError) and therefore never reach a round trip",
    "field data are finite (array_equal is used, NaN never compares equal)",
    "ghost cells are not part of 'the data array' of the statement and are only compared on the "
    "from_data(with_ghost_cells=True) route",
]

FIELD_CLASSES = {0: ScalarField, 1: VectorField, 2: Tensor2Field}
# ">f8", ">c16": non-native byte order (data read from big-endian files; after missed seed C14-7: the
# serialised attributes stored the dtype name, which does not carry the byte order)
DTYPES = {"f8": np.float64, "f4": np.float32, "c16": np.complex128, "i8": np.int64, "c8": np.complex64,
          ">f8": np.dtype(">f8"), ">c16": np.dtype(">c16")}
SYM = ("polar", "sph", "cyl")

DECIMALS = [0.1, 0.2, 0.3, 0.7, 1.1, 2.5, 1 / 3, 1e-3, 123.456, 0.05, 4.35, 1e3, 3.0, 1.0, 2.0,
            0.6, 1e-2, 17.3, 2 / 3, 9.99]


# --------------------------------------------------------------------------------------
# generators
# --------------------------------------------------------------------------------------
def _pair(draw, kind, positive=False):
    """two numbers lo < hi, chosen independently (so that hi != lo + (hi - lo) may happen)"""
    if kind == "int":
        lo = draw(st.integers(1 if positive else -6, 8))
        hi = lo + draw(st.integers(1, 9))
        return [lo, hi]
    pool = DECIMALS if positive else DECIMALS + [-d for d in DECIMALS] + [0.0]
    a = draw(st.sampled_from(pool))
    b = draw(st.sampled_from(pool).filter(lambda v: v != a))
    return [min(a, b), max(a, b)]


@st.composite
def grid_cases(draw, classes=gg.ALL_CLASSES, max_cells=8, max_total=512):
    """grid spec (vlib.gen_grids schema) + representation of the constructor arguments"""
    spec = dict(draw(gg.grids(classes=classes, max_cells=max_cells, max_total=max_total)))
    cls = spec["cls"]
    num = draw(st.sampled_from(["asis", "asis", "decimal", "int"]))
    if num != "asis":
        if cls == "cart":
            spec["bounds"] = [_pair(draw, num) for _ in spec["shape"]]
        elif cls in SYM:
            if spec["radius"][0] > 0:
                spec["radius"] = _pair(draw, num, positive=True)
            else:
                zero = 0 if num == "int" else draw(st.sampled_from([0, 0.0]))
                spec["radius"] = [zero, _pair(draw, num, positive=True)[1]]
            if cls == "cyl":
                spec["bounds_z"] = _pair(draw, num)
    elif cls in SYM and spec["radius"][0] > 0 and draw(st.integers(0, 4)) == 0:
        # tiny but non-zero inner radius: still a hole (the library's own tests use 1e-8);
        # added after the independently seeded change C14-2 (np.isclose(r_inner, 0)) was missed
        spec["radius"] = [draw(st.sampled_from([1e-8, 1e-10, 1e-12, 1e-100])), spec["radius"][1]]
    var = {
        "radius": draw(st.sampled_from(["scalar", "npscalar", "tuple", "list", "array", "nptuple"])),
        "shape": draw(st.sampled_from(["int", "npint", "list", "tuple", "array", "float", "nplist"])),
        "bounds": draw(st.sampled_from(["tuples", "lists", "tuple_of_tuples", "array", "upper"])),
        "periodic": draw(st.sampled_from(["list", "tuple", "bool", "npbool", "nparray"])),
        "keywords": draw(st.booleans()),
        "warm": draw(st.booleans()),
    }
    return {"spec": spec, "var": var}


def build_grid_variant(case, labels=None):
    """construct the grid with the drawn argument representations"""
    spec, var = case["spec"], case["var"]
    cls = spec["cls"]
    lab = labels if labels is not None else []
    shape = list(spec["shape"])
    # ---- shape -------------------------------------------------------------------------
    rep = var["shape"]
    scalar_ok = len(set(shape)) == 1 and (cls != "unit" or len(shape) == 1)
    if rep in ("int", "npint") and not scalar_ok:
        rep = "list"
    if rep == "npint" and cls == "unit":
        lab.append("excluded:UnitGrid(np.int64)")  # constructor TypeError, not a round trip
        rep = "nplist"
    if rep == "int":
        shape_arg = int(shape[0])
    elif rep == "npint":
        shape_arg = np.int64(shape[0])
    elif rep == "tuple":
        shape_arg = tuple(shape)
    elif rep == "array":
        shape_arg = np.array(shape)
    elif rep == "float":
        shape_arg = [float(n) for n in shape]
    elif rep == "nplist":
        shape_arg = [np.int64(n) for n in shape]
    else:
        shape_arg = list(shape)
    lab.append("shape-arg:" + rep)
    # ---- periodic ------------------------------------------------------------------------
    per = [bool(p) for p in spec["periodic"]]
    prep = var["periodic"]
    if prep in ("bool", "npbool") and len(set(per)) != 1:
        prep = "list"
    if prep == "bool":
        per_arg = per[0]
    elif prep == "npbool":
        per_arg = np.bool_(per[0])
    elif prep == "tuple":
        per_arg = tuple(per)
    elif prep == "nparray":
        per_arg = np.array(per)  # list(periodic) keeps np.bool_ entries
    else:
        per_arg = list(per)
    # ---- radius --------------------------------------------------------------------------
    def radius_arg():
        r_in, r_out = spec["radius"]
        rrep = var["radius"]
        if r_in != 0 and rrep in ("scalar", "npscalar"):
            rrep = "tuple"
        lab.append("radius-arg:" + rrep + (":int" if isinstance(r_out, int) else ""))
        if rrep == "scalar":
            return r_out
        if rrep == "npscalar":
            return np.int64(r_out) if isinstance(r_out, int) else np.float64(r_out)
        if rrep == "tuple":
            return (r_in, r_out)
        if rrep == "list":
            return [r_in, r_out]
        if rrep == "nptuple":
            return tuple(np.int64(v) if isinstance(v, int) else np.float64(v) for v in (r_in, r_out))
        return np.array([r_in, r_out])  # integer dtype when both are ints

    def pair_arg(b):
        brep = var["bounds"]
        if brep in ("tuples", "tuple_of_tuples", "upper"):
            return tuple(b)
        if brep == "lists":
            return list(b)
        if all(isinstance(v, int) for v in b):
            lab.append("bounds_z:int-array")
        return np.array(b)  # integer dtype when both are ints

    kw = var["keywords"]
    if cls == "unit":
        lab.append("periodic-arg:" + prep)
        return pde.UnitGrid(shape=shape_arg, periodic=per_arg) if kw else pde.UnitGrid(shape_arg, per_arg)
    if cls == "cart":
        brep = var["bounds"]
        bounds = spec["bounds"]
        if brep == "upper" and not (all(b[0] == 0 for b in bounds) and len(bounds) != 2):
            brep = "tuples"
        lab.append("bounds-arg:" + brep)
        lab.append("periodic-arg:" + prep)
        if brep == "upper":
            b_arg = [b[1] for b in bounds]
        elif brep == "tuples":
            b_arg = [tuple(b) for b in bounds]
        elif brep == "lists":
            b_arg = [list(b) for b in bounds]
        elif brep == "tuple_of_tuples":
            b_arg = tuple(tuple(b) for b in bounds)
        else:
            b_arg = np.array(bounds, dtype=float)
        if kw:
            return pde.CartesianGrid(bounds=b_arg, shape=shape_arg, periodic=per_arg)
        return pde.CartesianGrid(b_arg, shape_arg, per_arg)
    if cls in ("polar", "sph"):
        gcls = pde.PolarSymGrid if cls == "polar" else pde.SphericalSymGrid
        return gcls(radius=radius_arg(), shape=shape_arg) if kw else gcls(radius_arg(), shape_arg)
    if cls == "cyl":
        pz = per[1]
        if var["periodic"] in ("npbool", "nparray"):
            pz = np.bool_(pz)
        lab.append("bounds-arg:" + var["bounds"])
        bz = pair_arg(spec["bounds_z"])
        if kw:
            return pde.CylindricalSymGrid(radius=radius_arg(), bounds_z=bz, shape=shape_arg, periodic_z=pz)
        return pde.CylindricalSymGrid(radius_arg(), bz, shape_arg, pz)
    raise ValueError(cls)


def grid_tag(spec):
    return gg.grid_label(spec)


LABELS = st.one_of(
    st.none(),
    st.sampled_from(["c", "field", "", "φ", "ρ₁", "a b", 'q"uote', "back\\slash", "new\nline", "ünï", "温度",
                     "{\"json\": 1}", "null", "None", "🙂"]),
    st.text(max_size=6),
)

DTYPE_NAMES = st.sampled_from(["f8", "f8", "c16", "c16", "f4", "i8", "c8", ">f8", ">c16"])


def field_spec():
    return st.fixed_dictionaries({
        "rank": st.sampled_from([0, 0, 1, 1, 2]),
        "dtype": DTYPE_NAMES,
        "label": LABELS,
        "seed": st.integers(0, 2**31 - 1),
    })


def make_data(seed, shape, dtype):
    if dtype == "i8":
        return gg.rng_array(seed, shape, dist="int").astype(np.int64)
    if dtype in ("c16", "c8", ">c16"):
        return gg.rng_array(seed, shape, dtype="c16").astype(DTYPES[dtype])
    return gg.rng_array(seed, shape).astype(DTYPES[dtype])


def make_field(grid, fs):
    cls = FIELD_CLASSES[fs["rank"]]
    shape = (grid.dim,) * fs["rank"] + grid.shape
    data = make_data(fs["seed"], shape, fs["dtype"])
    return cls(grid, data, label=fs["label"], dtype=DTYPES[fs["dtype"]])


# --------------------------------------------------------------------------------------
# comparisons
# --------------------------------------------------------------------------------------
def _floats(b):
    return [[float(v) for v in ab] for ab in b]


def grid_differences(g, r):
    """list of attribute names in which the restored grid ``r`` differs from ``g``"""
    bad = []
    if type(r) is not type(g):
        return ["class"]
    if _floats(r.axes_bounds) != _floats(g.axes_bounds):
        bad.append("axes_bounds")
    if tuple(r.shape) != tuple(g.shape) or not all(isinstance(n, int) for n in r.shape):
        bad.append("shape")
    if [bool(p) for p in r.periodic] != [bool(p) for p in g.periodic]:
        bad.append("periodic")
    if list(r.axes) != list(g.axes):
        bad.append("axes")
    if list(r.axes_symmetric) != list(g.axes_symmetric):
        bad.append("axes_symmetric")
    if r.dim != g.dim or r.num_axes != g.num_axes:
        bad.append("dim")
    if not np.array_equal(np.asarray(r.discretization), np.asarray(g.discretization)):
        bad.append("discretization")
    if len(r.axes_coords) != len(g.axes_coords) or not all(
            np.array_equal(a, b) for a, b in zip(r.axes_coords, g.axes_coords)):
        bad.append("axes_coords")
    if not np.array_equal(np.asarray(r.cell_volumes), np.asarray(g.cell_volumes)):
        bad.append("cell_volumes")
    if float(r.volume) != float(g.volume):
        bad.append("volume")
    if hasattr(g, "has_hole") and bool(r.has_hole) != bool(g.has_hole):
        bad.append("has_hole")
    if not (r == g) or not (g == r) or (r != g):
        bad.append("==")
    return bad


def describe_grid(g):
    return f"{type(g).__name__}(bounds={g.axes_bounds!r}, shape={g.shape!r}, periodic={g.periodic!r})"


def expect_same_grid(g, r, sub, tag, route):
    bad = grid_differences(g, r)
    if bad:
        raise Violation(
            f"route {route}: restored grid differs in {bad}: original {describe_grid(g)}, "
            f"restored {describe_grid(r)}", key=f"{sub}:{tag}:{route}")


def run_route(fn, sub, tag, route):
    """run one reconstruction route; *any* exception is a failed round trip"""
    try:
        return fn()
    except Violation:
        raise
    except Exception as e:  # noqa: BLE001
        raise Violation(f"route {route} raised {type(e).__name__}: {e}", key=f"{sub}:{tag}:{route}:exception")


# --------------------------------------------------------------------------------------
# grid_roundtrips
# --------------------------------------------------------------------------------------
def grid_routes(g):
    """name -> callable returning the restored grid (or list of restored grids)"""
    cls = type(g)

    def container():
        box = copy.deepcopy([g, {"again": g}, (g,)])
        if not (box[0] is box[1]["again"] is box[2][0]):
            raise Violation("deepcopy of a container holding the grid three times created "
                            "different objects", key="grid_roundtrips:container-identity")
        if box[0] is g:
            raise Violation("deepcopy returned the original object", key="grid_roundtrips:container-identity")
        return box[0]

    def pickled_container():
        box = pickle.loads(pickle.dumps({"a": g, "b": [g]}))
        return [box["a"], box["b"][0]]

    return {
        "from_state(state)": lambda: cls.from_state(g.state),
        "GridBase.from_state(state_serialized)": lambda: GridBase.from_state(g.state_serialized),
        "GridBase.from_state(dict(json))": lambda: GridBase.from_state(json.loads(g.state_serialized)),
        "from_state(json dict without class)": lambda: cls.from_state(
            {k: v for k, v in json.loads(g.state_serialized).items() if k != "class"}),
        "copy()": lambda: g.copy(),
        "copy.copy": lambda: copy.copy(g),
        "copy.deepcopy": lambda: copy.deepcopy(g),
        "deepcopy(container)": container,
        "pickle": lambda: pickle.loads(pickle.dumps(g)),
        "pickle(protocol 2)": lambda: pickle.loads(pickle.dumps(g, protocol=2)),
        "pickle(container)": pickled_container,
        "copy-of-json-copy": lambda: GridBase.from_state(GridBase.from_state(g.state_serialized).state_serialized).copy(),
    }


def check_grid_roundtrips(case):
    labels = []
    g = build_grid_variant(case, labels)
    spec = case["spec"]
    tag = grid_tag(spec)
    sub = "grid_roundtrips"
    # the grid must describe what was asked for (otherwise the comparison below is vacuous)
    want = gg.axes_bounds(spec)
    got = _floats(g.axes_bounds)
    for (wl, wh), (gl, gh) in zip(want, got):
        if wl != gl or abs(wh - gh) > 4 * np.spacing(max(abs(wl), abs(wh))):
            raise Violation(f"constructed grid has bounds {got}, asked for {want}", key=f"{sub}:{tag}:constructor")
    if case["var"]["warm"]:  # fill caches before saving
        g.cell_volumes, g.volume, g.axes_coords  # noqa: B018
        try:
            g.cell_coords  # noqa: B018
        except Exception:  # noqa: BLE001
            pass
    state_before = json.dumps(json.loads(g.state_serialized), sort_keys=True)
    for route, fn in grid_routes(g).items():
        res = run_route(fn, sub, tag, route)
        for r in res if isinstance(res, list) else [res]:
            if r is g:
                raise Violation(f"route {route} returned the original object", key=f"{sub}:{tag}:{route}")
            expect_same_grid(g, r, sub, tag, route)
            # the restored grid saves to the same state again
            s2 = run_route(lambda r=r: json.dumps(json.loads(r.state_serialized), sort_keys=True), sub, tag,
                           route + "+state_serialized")
            if json.loads(s2) != json.loads(state_before):
                raise Violation(f"route {route}: state of the restored grid {s2} differs from {state_before}",
                                key=f"{sub}:{tag}:{route}:state")
    hole = "radius" in spec and spec["radius"][0] > 0
    per = any(spec["periodic"])
    neg = any(b[0] < 0 for b in gg.axes_bounds(spec))
    labels += [tag, "warm" if case["var"]["warm"] else "cold"]
    if neg:
        labels.append("negative-lower-bound")
    return {"nt": hole or per or neg or spec["cls"] in SYM, "labels": labels}


# --------------------------------------------------------------------------------------
# fields and collections
# --------------------------------------------------------------------------------------
def serialized_variants(obj, how):
    """the serialised attributes, as stored (``how`` = plain) or after a trip through a file"""
    attrs = obj.attributes_serialized
    if not isinstance(attrs, dict) or not all(isinstance(k, str) and isinstance(v, str) for k, v in attrs.items()):
        raise Violation(f"attributes_serialized is not a dict of strings: {attrs!r}", key="attributes_serialized:type")
    if how == "json":
        attrs = json.loads(json.dumps(attrs))
    elif how == "json-ascii-off":
        attrs = json.loads(json.dumps(attrs, ensure_ascii=False))
    elif how == "pickle":
        attrs = pickle.loads(pickle.dumps(attrs))
    return attrs


def expect_same_field(f, r, sub, tag, route, check_label=True):
    def fail(what):
        raise Violation(f"route {route}: restored field differs in {what}: original {f!r} label={f.label!r} "
                        f"dtype={f.dtype}, restored {r!r} label={getattr(r, 'label', None)!r} "
                        f"dtype={getattr(r, 'dtype', None)}", key=f"{sub}:{tag}:{route}:{what}")

    if type(r) is not type(f):
        fail("class")
    bad = grid_differences(f.grid, r.grid)
    if bad:
        fail("grid." + bad[0])
    if check_label and r.label != f.label:
        fail("label")
    if np.dtype(r.dtype) != np.dtype(f.dtype) or r.data.dtype != f.data.dtype:
        fail("dtype")
    if r.data.shape != f.data.shape or not np.array_equal(r.data, f.data):
        fail("data")
    if not (r == f) or (r != f):
        fail("==")


def expect_same_collection(c, r, sub, tag, route):
    def fail(what):
        raise Violation(f"route {route}: restored collection differs in {what}: original {c!r} "
                        f"label={c.label!r} labels={list(c.labels)!r} dtype={c.dtype}; restored {r!r} "
                        f"label={getattr(r, 'label', None)!r} labels={list(getattr(r, 'labels', []))!r} "
                        f"dtype={getattr(r, 'dtype', None)}", key=f"{sub}:{tag}:{route}:{what}")

    if type(r) is not type(c):
        fail("class")
    if len(r) != len(c):
        fail("len")
    if r.label != c.label:
        fail("label")
    if list(r.labels) != list(c.labels):
        fail("labels")
    if np.dtype(r.dtype) != np.dtype(c.dtype):
        fail("dtype")
    if r.data.shape != c.data.shape or not np.array_equal(r.data, c.data):
        fail("data")
    if [(s.start, s.stop) for s in r._slices] != [(s.start, s.stop) for s in c._slices]:
        fail("_slices")
    bad = grid_differences(c.grid, r.grid)
    if bad:
        fail("grid." + bad[0])
    for i, (fo, fr) in enumerate(zip(c, r)):
        expect_same_field(fo, fr, sub, tag, f"{route}[field {i}]")
        if fr.data.size and not np.shares_memory(fr.data, r.data):
            fail(f"member-{i}-not-linked")
    if not (r == c) or (r != c):
        fail("==")


def field_cases():
    return st.fixed_dictionaries({
        "grid": grid_cases(max_cells=6, max_total=64),
        "field": field_spec(),
        "how": st.sampled_from(["plain", "json", "json-ascii-off", "pickle"]),
        "via": st.sampled_from(["FieldBase", "class"]),
    })


def field_labels(grid_case, fspecs):
    spec = grid_case["spec"]
    labs = [grid_tag(spec)]
    for fs in fspecs:
        labs.append(f"rank{fs['rank']}:{fs['dtype']}")
        lab = fs["label"]
        labs.append("label:none" if lab is None else ("label:ascii" if lab.isascii() else "label:unicode"))
    return labs


def is_nt(grid_case, fspecs):
    spec = grid_case["spec"]
    hole = "radius" in spec and spec["radius"][0] > 0
    return bool(hole or any(spec["periodic"])
                or (spec["cls"] in SYM and any(fs["rank"] >= 1 for fs in fspecs))
                or any(fs["dtype"] in ("c16", "c8", ">c16") for fs in fspecs))


def check_field_roundtrip(case):
    sub = "field_roundtrip"
    g = build_grid_variant(case["grid"])
    fs = case["field"]
    f = make_field(g, fs)
    tag = f"{type(f).__name__}:{fs['dtype']}:{case['grid']['spec']['cls']}"
    route = f"{case['via']}.unserialize({case['how']})"

    def restore():
        attrs_s = serialized_variants(f, case["how"])
        un = FieldBase if case["via"] == "FieldBase" else type(f)
        attrs = un.unserialize_attributes(attrs_s)
        return FieldBase.from_state(attrs, data=f.data)

    r = run_route(restore, sub, tag, route)
    if r is f:
        raise Violation("from_state returned the original object", key=f"{sub}:{tag}:identity")
    expect_same_field(f, r, sub, tag, route)
    # the concrete class restores as well (attributes still contain the class name)
    r2 = run_route(lambda: type(f).from_state(type(f).unserialize_attributes(f.attributes_serialized), data=f.data),
                   sub, tag, "cls.from_state")
    expect_same_field(f, r2, sub, tag, "cls.from_state")
    return {"nt": is_nt(case["grid"], [fs]), "labels": field_labels(case["grid"], [fs]) + ["how:" + case["how"]]}


def collection_spec():
    return st.fixed_dictionaries({
        "fields": st.lists(field_spec(), min_size=1, max_size=4),
        "label": LABELS,
        "labels": st.one_of(st.none(), st.lists(LABELS, min_size=4, max_size=4)),
        "build": st.sampled_from(["list", "list", "copy_fields", "mapping", "dtype"]),
        "coll_dtype": st.sampled_from(["same", "same", "c16", "f8"]),
    })


def make_collection(grid, cs):
    fields = [make_field(grid, fs) for fs in cs["fields"]]
    n = len(fields)
    labels = None if cs["labels"] is None else list(cs["labels"][:n])
    build = cs["build"]
    if build == "mapping":
        names = [fs["label"] if fs["label"] is not None else f"f{i}" for i, fs in enumerate(cs["fields"])]
        if len(set(names)) == n:
            return FieldCollection(dict(zip(names, fields)), label=cs["label"])
        build = "list"
    if build == "copy_fields":
        return FieldCollection(fields, copy_fields=True, label=cs["label"], labels=labels)
    if build == "dtype":
        # only widening conversions (a narrowing dtype is the caller's decision to lose data)
        # "same": the common dtype of the members (float32, int64, complex64 stay what they are)
        extra = [] if cs["coll_dtype"] == "same" else [DTYPES[cs["coll_dtype"]]]
        dt = np.result_type(*extra, *[DTYPES[fs["dtype"]] for fs in cs["fields"]])
        return FieldCollection(fields, label=cs["label"], labels=labels, dtype=dt)
    return FieldCollection(fields, label=cs["label"], labels=labels)


def collection_cases():
    return st.fixed_dictionaries({
        "grid": grid_cases(max_cells=6, max_total=64),
        "coll": collection_spec(),
        "how": st.sampled_from(["plain", "json", "json-ascii-off", "pickle"]),
        "via": st.sampled_from(["FieldBase", "class"]),
    })


def check_collection_roundtrip(case):
    sub = "collection_roundtrip"
    g = build_grid_variant(case["grid"])
    cs = case["coll"]
    c = make_collection(g, cs)
    ranks = "".join(str(fs["rank"]) for fs in cs["fields"])
    tag = f"ranks{''.join(sorted(set(ranks)))}:{case['grid']['spec']['cls']}"
    route = f"{case['via']}.unserialize({case['how']})"

    def restore():
        attrs_s = serialized_variants(c, case["how"])
        un = FieldBase if case["via"] == "FieldBase" else FieldCollection
        return FieldBase.from_state(un.unserialize_attributes(attrs_s), data=c.data)

    r = run_route(restore, sub, tag, route)
    expect_same_collection(c, r, sub, tag, route)
    labs = field_labels(case["grid"], cs["fields"]) + [f"nfields:{len(c)}", "build:" + cs["build"],
                                                       "how:" + case["how"],
                                                       "coll-label:" + ("none" if cs["label"] is None else "str"),
                                                       "labels-arg:" + ("none" if cs["labels"] is None else "list")]
    labs.append(f"coll-dtype:{np.dtype(c.dtype).str}")
    if len(set(fs["dtype"] for fs in cs["fields"])) > 1:
        labs.append("mixed-dtypes")
    if len(set(fs["rank"] for fs in cs["fields"])) > 1:
        labs.append("mixed-ranks")
    return {"nt": is_nt(case["grid"], cs["fields"]), "labels": labs}


# --------------------------------------------------------------------------------------
# from_data
# --------------------------------------------------------------------------------------
def from_data_cases():
    return st.fixed_dictionaries({
        "grid": grid_cases(max_cells=6, max_total=64),
        "ranks": st.lists(st.sampled_from([0, 0, 1, 1, 2]), min_size=1, max_size=4),
        "dtype": DTYPE_NAMES,
        "seed": st.integers(0, 2**31 - 1),
        "with_ghost": st.sampled_from([True, False, None]),  # None: rely on the default (True)
        "source": st.sampled_from(["fresh", "collection"]),
        "label": LABELS,
        "labels": st.one_of(st.none(), st.lists(LABELS, min_size=4, max_size=4)),
        "data_as": st.sampled_from(["array", "array", "list", "noncontiguous"]),
        "dtype_arg": st.sampled_from([None, None, None, "widen", "same"]),
    })


def check_from_data(case):
    sub = "from_data"
    g = build_grid_variant(case["grid"])
    ranks = list(case["ranks"])
    classes = [FIELD_CLASSES[r] for r in ranks]
    dim = g.dim
    ncomp = [dim**r for r in ranks]  # documented layout: dim**rank rows per field
    total = sum(ncomp)
    wg = case["with_ghost"]
    ghost = True if wg is None else wg
    full_shape = tuple(n + 2 for n in g.shape)
    valid = (slice(None),) + tuple(slice(1, n + 1) for n in g.shape)
    dtn = case["dtype"]
    tag = f"{case['grid']['spec']['cls']}:{dtn}:{'ghost' if ghost else 'valid'}"
    n = len(ranks)
    labels = None if case["labels"] is None else list(case["labels"][:n])
    orig = None
    if case["source"] == "collection":
        fields = [make_field(g, {"rank": r, "dtype": dtn, "label": None, "seed": case["seed"] + i})
                  for i, r in enumerate(ranks)]
        orig = FieldCollection(fields)
        # fill the ghost cells with something recognisable
        orig._data_full[...] = make_data(case["seed"] + 77, orig._data_full.shape, dtn)
        data = np.array(orig._data_full if ghost else orig.data, copy=True)
    else:
        data = make_data(case["seed"], (total,) + (full_shape if ghost else g.shape), dtn)
    data_valid = data[valid] if ghost else data
    data_arg = data
    if case["data_as"] == "list" and dtn in ("f8", "c16"):
        data_arg = data.tolist()  # nested list: dtype is inferred (float64 / complex128)
    elif case["data_as"] == "noncontiguous":
        big = np.zeros(data.shape + (2,), dtype=data.dtype)
        big[..., 0] = data
        data_arg = big[..., 0]  # strided view
    kwargs = {}
    if wg is not None:
        kwargs["with_ghost_cells"] = wg
    if case["label"] is not None:
        kwargs["label"] = case["label"]
    if labels is not None:
        kwargs["labels"] = labels
    # without a dtype argument the dtype "is determined from the data automatically": by the
    # package-wide convention (tools.misc.number_array) this may widen to double / cdouble, which
    # loses nothing; demanded is only that the conversion is lossless
    want_dtype = None
    if case["dtype_arg"] == "widen":
        want_dtype = np.result_type(data.dtype, np.complex64 if dtn in ("f4", "c8") else np.complex128)
        kwargs["dtype"] = want_dtype
    elif case["dtype_arg"] == "same":
        want_dtype = data.dtype
        kwargs["dtype"] = data.dtype if case["seed"] % 2 else data.dtype.str
    route = "from_data(" + ("ghost" if ghost else "valid") + ")"
    c = run_route(lambda: FieldCollection.from_data(classes, g, data_arg, **kwargs), sub, tag, route)

    def fail(what, detail=""):
        raise Violation(f"{route}: {what} {detail}; classes={[k.__name__ for k in classes]} grid={describe_grid(g)} "
                        f"data shape {data.shape} dtype {data.dtype}", key=f"{sub}:{tag}:{what}")

    if type(c) is not FieldCollection or len(c) != n:
        fail("number-of-fields", f"got {len(c)}")
    if want_dtype is None:
        if not np.can_cast(data.dtype, np.dtype(c.dtype), "safe"):
            fail("dtype", f"got {c.dtype}, which cannot hold {data.dtype} data")
        want_dtype = np.dtype(c.dtype)
    elif np.dtype(c.dtype) != want_dtype:
        fail("dtype", f"got {c.dtype}, want {want_dtype}")
    if c.data.shape != data_valid.shape:
        fail("data-shape", f"got {c.data.shape}, want {data_valid.shape}")
    if not np.array_equal(c.data, data_valid):
        fail("data", "collection data differ from the flat array")
    if ghost and not np.array_equal(c._data_full, data):
        fail("ghost-cells", "padded array differs from the array given with ghost cells")
    start = 0
    for i, (k, r, nc) in enumerate(zip(classes, ranks, ncomp)):
        f = c[i]
        if type(f) is not k:
            fail("field-class", f"field {i} is {type(f).__name__}")
        if (c._slices[i].start, c._slices[i].stop) != (start, start + nc):
            fail("_slices", f"field {i}: {c._slices[i]} instead of {start}:{start + nc}")
        want = data_valid[start:start + nc].reshape((dim,) * r + g.shape)
        if f.data.shape != want.shape or not np.array_equal(f.data, want):
            fail("component-rows", f"field {i} (rank {r}) does not hold rows {start}:{start + nc}")
        if np.dtype(f.dtype) != want_dtype:
            fail("field-dtype", f"field {i} has dtype {f.dtype}")
        if f.data.size and not np.shares_memory(f.data, c.data):
            fail("member-not-linked", f"field {i}")
        if bad := grid_differences(g, f.grid):
            fail("grid", f"field {i}: {bad}")
        start += nc
    if c.label != case["label"]:
        fail("label", f"got {c.label!r}")
    if list(c.labels) != (labels if labels is not None else [None] * n):
        fail("labels", f"got {list(c.labels)!r}")
    if orig is not None and case["dtype_arg"] is None and not (c == orig):
        fail("==", "result differs from the collection the data were taken from")
    fspecs = [{"rank": r, "dtype": dtn, "label": None} for r in ranks]
    labs = [grid_tag(case["grid"]["spec"]), "ghost" if ghost else "valid", "dtype:" + dtn, "source:" + case["source"],
            "data_as:" + case["data_as"], f"nfields:{n}"] + [f"rank{r}" for r in sorted(set(ranks))]
    if case["dtype_arg"]:
        labs.append("dtype-arg")
    if g.dim != g.num_axes and any(r >= 1 for r in ranks):
        labs.append("dim!=num_axes&rank>=1")
    return {"nt": is_nt(case["grid"], fspecs), "labels": labs}


# --------------------------------------------------------------------------------------
# storage route
# --------------------------------------------------------------------------------------
def storage_cases():
    return st.fixed_dictionaries({
        "grid": grid_cases(max_cells=6, max_total=64),
        "kind": st.sampled_from(["field", "collection"]),
        "field": field_spec(),
        "coll": collection_spec(),
        "frames": st.integers(1, 3),
        "info": st.sampled_from(["same", "json", "copy"]),
        "read": st.sampled_from(["getitem", "iter", "items", "negative"]),
    })


def check_storage_attributes(case):
    sub = "storage_attributes"
    g = build_grid_variant(case["grid"])
    if case["kind"] == "field":
        obj = make_field(g, case["field"])
        fspecs = [case["field"]]
    else:
        obj = make_collection(g, case["coll"])
        fspecs = case["coll"]["fields"]
    tag = f"{type(obj).__name__}:{case['grid']['spec']['cls']}"
    writer = MemoryStorage()
    frames = []

    def write():
        writer.start_writing(obj)
        for k in range(case["frames"]):
            fr = obj.copy()
            if k:
                fr.data[...] = make_data(case["field"]["seed"] + k, fr.data.shape, "i8").astype(fr.data.dtype)
            frames.append(fr)
            writer.append(fr, float(k))
        writer.end_writing()

    run_route(write, sub, tag, "write")
    info = writer.info
    if "field_attributes" not in info:
        raise Violation(f"storage info has no 'field_attributes': {list(info)}", key=f"{sub}:{tag}:missing")
    if case["info"] == "json":
        info = json.loads(json.dumps({"field_attributes": info["field_attributes"]}))
    elif case["info"] == "copy":
        info = {"field_attributes": dict(info["field_attributes"])}
    route = f"MemoryStorage(info[{case['info']}]).{case['read']}"

    def read():
        rd = MemoryStorage(times=list(writer.times), data=[np.array(d, copy=True) for d in writer.data],
                           info=info, write_mode="readonly")
        if rd.has_collection != (case["kind"] == "collection"):
            raise Violation("has_collection wrong", key=f"{sub}:{tag}:has_collection")
        if bad := grid_differences(g, rd.grid):
            raise Violation(f"storage.grid differs in {bad}", key=f"{sub}:{tag}:storage.grid")
        if case["read"] == "getitem":
            return [rd[i] for i in range(len(rd))]
        if case["read"] == "negative":
            return [rd[i - len(rd)] for i in range(len(rd))]
        if case["read"] == "items":
            return [f for _, f in rd.items()]
        return list(rd)

    got = run_route(read, sub, tag, route)
    if len(got) != len(frames):
        raise Violation(f"{route}: {len(got)} frames instead of {len(frames)}", key=f"{sub}:{tag}:frames")
    for fr, r in zip(frames, got):
        if case["kind"] == "field":
            expect_same_field(fr, r, sub, tag, route)
        else:
            expect_same_collection(fr, r, sub, tag, route)
    labs = field_labels(case["grid"], fspecs) + ["kind:" + case["kind"], "info:" + case["info"], "read:" + case["read"]]
    return {"nt": is_nt(case["grid"], fspecs), "labels": labs}


# --------------------------------------------------------------------------------------
# numpy scalars inside the stored state (were not JSON serialisable before fix dd4e081)
# --------------------------------------------------------------------------------------
def numpy_scalar_cases():
    return st.fixed_dictionaries({
        "what": st.sampled_from(["periodic-bool-array", "radius-int-array", "radius-npint-tuple",
                                 "bounds_z-int-array"]),
        "n": st.integers(1, 6),
        "lo": st.integers(0, 3),
        "len": st.integers(1, 5),
        "cls": st.sampled_from(["unit", "cart", "polar", "sph", "cyl"]),
        "per": st.lists(st.booleans(), min_size=2, max_size=2),
    })


def check_grid_numpy_scalars(case):
    sub = "grid_numpy_scalars"
    what, n, lo, ln = case["what"], case["n"], case["lo"], case["len"]
    hi = lo + ln
    if what == "periodic-bool-array":
        per = np.array(case["per"])
        g = pde.UnitGrid([n, n], periodic=per) if case["cls"] in ("unit", "polar", "sph") else \
            pde.CartesianGrid([(lo, hi), (0, 1)], [n, n], periodic=per)
    elif what == "bounds_z-int-array":
        g = pde.CylindricalSymGrid(2.0, np.array([lo, hi]), [n, n])
    else:
        if what == "radius-int-array":
            radius = np.array([lo, hi])
        else:
            radius = (np.int64(lo), np.int64(hi))
        gcls = {"polar": pde.PolarSymGrid, "sph": pde.SphericalSymGrid}.get(case["cls"])
        g = gcls(radius, n) if gcls else pde.CylindricalSymGrid(radius, (0.0, 1.0), [n, n])
    tag = type(g).__name__
    # all in-memory routes work ...
    for route in ("from_state(state)", "copy()", "copy.deepcopy", "pickle"):
        r = run_route(grid_routes(g)[route], sub, tag, route)
        expect_same_grid(g, r, sub, tag, route)
    # ... but the JSON route must as well
    try:
        text = g.state_serialized
    except TypeError as e:
        raise Violation(
            f"{describe_grid(g)} constructed from numpy scalars ({what}) cannot be saved: state_serialized "
            f"raised TypeError: {e}", key="C14:state_serialized:numpy-scalar-not-json-serializable")
    r = run_route(lambda: GridBase.from_state(text), sub, tag, "GridBase.from_state(state_serialized)")
    expect_same_grid(g, r, sub, tag, "GridBase.from_state(state_serialized)")
    return {"nt": True, "labels": [what, tag]}


# --------------------------------------------------------------------------------------
SUBCHECKS = [
    SubCheck("grid_roundtrips", strategy=grid_cases, check=check_grid_roundtrips, mode="pure",
             budget={"quick": 6000, "thorough": 80000}, shards={"quick": 4, "thorough": 6},
             rule="non-trivial = hole, periodic axis, negative lower bound or curvilinear grid; 12 routes per case"),
    SubCheck("field_roundtrip", strategy=field_cases, check=check_field_roundtrip, mode="pure",
             budget={"quick": 4000, "thorough": 40000}, shards={"quick": 3, "thorough": 3},
             rule="non-trivial = hole or periodic or rank >= 1 on a symmetric grid or complex dtype"),
    SubCheck("collection_roundtrip", strategy=collection_cases, check=check_collection_roundtrip, mode="pure",
             budget={"quick": 3000, "thorough": 40000}, shards={"quick": 3, "thorough": 3},
             rule="non-trivial = hole or periodic or rank >= 1 on a symmetric grid or complex dtype"),
    SubCheck("from_data", strategy=from_data_cases, check=check_from_data, mode="pure",
             budget={"quick": 4000, "thorough": 40000}, shards={"quick": 3, "thorough": 3},
             rule="non-trivial = hole or periodic or rank >= 1 on a symmetric grid or complex dtype"),
    SubCheck("storage_attributes", strategy=storage_cases, check=check_storage_attributes, mode="pure",
             budget={"quick": 2000, "thorough": 20000}, shards={"quick": 2, "thorough": 1},
             rule="non-trivial = hole or periodic or rank >= 1 on a symmetric grid or complex dtype"),
    SubCheck("grid_numpy_scalars", strategy=numpy_scalar_cases, check=check_grid_numpy_scalars, mode="pure",
             budget={"quick": 60, "thorough": 300}, shards={"quick": 1, "thorough": 1},
             rule="every case keeps numpy integer / bool_ scalars in the grid state"),
]
