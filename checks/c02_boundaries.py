"""C02 - boundary conditions hold exactly at the discrete boundary.

Generated: grid (all classes, 1-3 axes), rank 0-2, dtype, a complete semantic BC assignment
rendered in one of the accepted formats, field contents, sentinel ghost cells, time t.
Oracle: validity predicate per face computed from the *semantic* description
(``vlib.gen_bcs``), plus "everything that must not be touched is bit-identical".
"""

from __future__ import annotations

import numpy as np
from hypothesis import strategies as st

from vlib import env

env.setup()

import pde  # noqa: E402
from pde.backends import get_backend  # noqa: E402

from vlib import gen_bcs as gb  # noqa: E402
from vlib.core import HarnessError, Rejected, SubCheck, Violation  # noqa: E402
from vlib.gen_grids import build_grid, dim_of, grid_label, grids, rng_array  # noqa: E402

PROPERTY = "C02"
RULE = ("cases = (grid, rank, dtype, semantic BC assignment, rendering style, data seed, t); "
        "distinct = (grid class/shape/hole/periodicity, rank, style, per-face kinds and value shapes)")
ASSUMPTIONS = [
    "Robin conditions with |2 + gamma*dx| < 0.1 are excluded (the condition is singular there)",
    "corner ghost cells are not judged (they are only set on request)",
    "expression conditions only for rank 0 (constructor requirement); bare face arrays only for rank 0; "
    "the two Robin parameters come from the same shape class",
]
EPS = np.finfo(float).eps


@st.composite
def cases(draw, max_cells=5, jit=False):
    gspec = draw(grids(max_cells=max_cells, max_total=150, len_lo=1e-2, len_hi=1e2,
                       offset_mag=10.0))
    rank = draw(st.sampled_from([0, 0, 1, 2] if not jit else [0, 0, 1]))
    dtype = draw(st.sampled_from(["f8", "f8", "c16"]))
    bc = draw(gb.bc_assignments(gspec, rank=rank, dtype=dtype))
    return {"grid": gspec, "rank": rank, "dtype": dtype, "bc": bc,
            "seed": draw(st.integers(0, 2**31)), "t": draw(st.sampled_from([0.0, 1.0, 0.37, -2.5])),
            "dist": draw(st.sampled_from(["normal", "uniform", "int"]))}


def build(case):
    gspec, rank, dtype = case["grid"], case["rank"], case["dtype"]
    grid = build_grid(gspec)
    d = dim_of(gspec)
    shape_full = (d,) * rank + tuple(n + 2 for n in gspec["shape"])
    data_full = rng_array(case["seed"], shape_full, dtype, case["dist"], 2.0)
    if gb.robin_denominators(case["bc"], gspec, dtype, case["t"]) < 0.1:
        raise Rejected("singular Robin condition (generator guard)")
    return grid, gspec, rank, dtype, data_full


def make_field(grid, rank, data_full):
    cls = [pde.ScalarField, pde.VectorField, pde.Tensor2Field][rank]
    f = cls(grid, dtype=data_full.dtype)
    f._data_full[...] = data_full
    return f


def judge(case, gspec, rank, dtype, before, after, route):
    """Validity predicates on the array after the conditions were imposed."""
    bc, t = case["bc"], case["t"]
    nax = len(gspec["shape"])
    off = after.ndim - nax
    valid = (Ellipsis,) + (slice(1, -1),) * nax
    if not np.array_equal(before[valid], after[valid]):
        raise Violation(f"{route}: valid cells were modified", key=f"{route}:valid-modified")
    for a, ax in enumerate(bc["axes"]):
        for upper in (False, True):
            g, c1, c2 = gb.face_arrays(after, gspec, a, upper)
            g0, _, _ = gb.face_arrays(before, gspec, a, upper)
            side_name = f"axis{a}{'+' if upper else '-'}"
            if isinstance(ax, str):
                sign = -1 if ax == "anti-periodic" else 1
                opp = after[gb.face_index(nax, off, a, 1 if upper else -2)]
                if not np.array_equal(g, sign * opp):
                    raise Violation(f"{route}: {ax} ghost cells of {side_name} differ from +-opposite cell",
                                    key=f"{route}:{ax}")
                continue
            s = ax["high" if upper else "low"]
            if s["normal"]:
                sel = (Ellipsis, a) + (slice(None),) * (nax - 1)
                mask = np.zeros(g.shape, bool)
                mask[sel] = True
                if not np.array_equal(g[~mask], g0[~mask]):
                    raise Violation(
                        f"{route}: normal_{s['kind']} at {side_name} touched ghost cells of non-normal "
                        f"components", key=f"{route}:normal-touched-other:{s['kind']}")
                c2s = None if c2 is None else c2[sel]
                res, scale = gb.face_residual(s, gspec, a, upper, rank, dtype, g[sel], c1[sel], c2s, t)
            else:
                res, scale = gb.face_residual(s, gspec, a, upper, rank, dtype, g, c1, c2, t)
            tol = 64 * EPS * scale + 1e-300
            if not np.all(res <= tol):
                i = np.unravel_index(np.argmax(res - tol), np.shape(res)) if np.ndim(res) else ()
                raise Violation(
                    f"{route}: condition {s['kind']}{' (normal)' if s['normal'] else ''} "
                    f"[{s['v']['t']}] violated at {side_name} rank={rank} grid={grid_label(gspec)}: "
                    f"residual {np.max(res):.3g} > tol {np.max(tol):.3g} at {i}",
                    key=f"{route}:{'normal_' if s['normal'] else ''}{s['kind']}:{s['v']['t']}"
                        f":{'upper' if upper else 'lower'}")


def record(case, style):
    gspec, bc = case["grid"], case["bc"]
    kinds = gb.bc_kinds_key(bc)
    labels = [f"grid:{grid_label(gspec)}", f"rank:{case['rank']}", f"style:{style}", f"dtype:{case['dtype']}"]
    for ax in bc["axes"]:
        if isinstance(ax, str):
            labels.append(f"kind:{ax}")
        else:
            for k in ("low", "high"):
                s = ax[k]
                labels.append(f"kind:{'normal_' if s['normal'] else ''}{s['kind']}")
                labels.append(f"vshape:{s['v']['t']}")
    key = [gspec["cls"], gspec["shape"], gspec.get("radius", [0])[0] > 0, gspec["periodic"],
           case["rank"], style, kinds, case["dtype"]]
    return {"nt": gb.is_nontrivial(bc), "key": key, "labels": sorted(set(labels))}


# ---------------------------------------------------------------------------------------
def check_interpreted(case):
    grid, gspec, rank, dtype, data_full = build(case)
    field = make_field(grid, rank, data_full)
    before = field._data_full.copy()
    obj, style = gb.render_bc(case["bc"], gspec, grid, dtype)
    import warnings
    with warnings.catch_warnings():
        warnings.simplefilter("ignore", DeprecationWarning)
        field.set_ghost_cells(obj, args={"t": case["t"]})
    judge(case, gspec, rank, dtype, before, field._data_full, "interpreted")
    return record(case, style)


def numba_args(t):
    """`args` in a form the compiled code accepts (a numba typed dict under JIT)"""
    import numba as nb

    if nb.config.DISABLE_JIT:
        return {"t": float(t)}
    d = nb.typed.Dict.empty(nb.types.unicode_type, nb.types.float64)
    d["t"] = float(t)
    return d


def check_compiled(case):
    grid, gspec, rank, dtype, data_full = build(case)
    bcs, style = gb.make_boundaries(case["bc"], gspec, grid, dtype)
    setter = get_backend("numba").make_ghost_cell_setter(bcs)
    before = data_full.copy()
    after = data_full.copy()
    setter(after, args=numba_args(case["t"]))
    judge(case, gspec, rank, dtype, before, after, "compiled")
    return record(case, style)


def check_boundary_values(case):
    """get_boundary_values(axis, upper, bc) returns (ghost+cell)/2 of the imposed condition;
    for value conditions this is the imposed value itself."""
    grid, gspec, rank, dtype, data_full = build(case)
    bc = case["bc"]
    # time-dependent expressions need `args`, which this API does not take (documented
    # RuntimeError): remove the time dependence from the templates
    for ax in bc["axes"]:
        if isinstance(ax, dict):
            for k in ("low", "high"):
                for p in ("v", "c"):
                    if p in ax[k] and "t" in ax[k][p].get("coef", {}):
                        ax[k][p]["coef"]["t"] = 0.0
    case = dict(case, t=0.0)
    obj, style = gb.render_bc(bc, gspec, grid, dtype)
    import warnings
    for a, ax in enumerate(bc["axes"]):
        for upper in (False, True):
            field = make_field(grid, rank, data_full)
            with warnings.catch_warnings():
                warnings.simplefilter("ignore", DeprecationWarning)
                vals = field.get_boundary_values(a, upper, bc=obj)
            ref = data_full.copy()
            gb.apply_reference(bc, gspec, ref, dtype, 0.0)
            g, c1, _ = gb.face_arrays(ref, gspec, a, upper)
            want = (g + c1) / 2
            tol = 64 * EPS * (np.abs(g) + np.abs(c1)) + 1e-300
            if isinstance(ax, dict) and ax["high" if upper else "low"]["normal"]:
                sel = (Ellipsis, a) + (slice(None),) * (len(gspec["shape"]) - 1)
                vals, want, tol = vals[sel], want[sel], tol[sel]
            if np.shape(vals) != np.shape(want) or not np.all(np.abs(vals - want) <= tol):
                raise Violation(
                    f"get_boundary_values(axis={a}, upper={upper}) differs from the documented "
                    f"(ghost+cell)/2 by {np.max(np.abs(vals - want)):.3g}; grid={grid_label(gspec)} rank={rank}",
                    key=f"boundary_values:{'periodic' if isinstance(ax, str) else ax['high' if upper else 'low']['kind']}")
            if isinstance(ax, dict):
                s = ax["high" if upper else "low"]
                if s["kind"] == "value" and not s["normal"]:
                    v, _ = gb.face_parameters(s, gspec, a, upper, rank, dtype, c1, 0.0)
                    if not np.all(np.abs(vals - v) <= 64 * EPS * (np.abs(g) + np.abs(c1) + np.abs(v)) + 1e-300):
                        raise Violation(
                            f"boundary value differs from imposed Dirichlet value at axis {a} upper={upper}",
                            key="boundary_values:dirichlet-value")
    return record(case, style)


def check_parse(case):
    """every rendered format parses to the BoundariesList built from explicit objects"""
    gspec, rank, dtype = case["grid"], case["rank"], case["dtype"]
    grid = build_grid(gspec)
    bc = case["bc"]
    for ax in bc["axes"]:
        if isinstance(ax, dict):
            for k in ("low", "high"):
                if ax[k].get("func"):
                    ax[k]["func"] = False  # callables compare by identity: not comparable
    explicit = gb.explicit_boundaries(bc, grid, gspec, dtype)
    parsed, style = gb.make_boundaries(bc, gspec, grid, dtype)
    if not gb.same_boundaries(parsed, explicit):
        raise Violation(f"format '{style}' parsed to {parsed!r}, explicit objects give {explicit!r}",
                        key=f"parse:{style}")
    # the other direction: a *different* assignment must not compare equal
    return record(case, style)


RULE_NT = ("non-trivial = at least one inhomogeneous or non-Dirichlet/Neumann face, or a normal / "
           "expression / array-valued condition")

SUBCHECKS = [
    SubCheck("ghost_interpreted", strategy=cases, check=check_interpreted, mode="pure",
             budget={"quick": 3000, "thorough": 60000}, shards={"quick": 4, "thorough": 16}, rule=RULE_NT),
    SubCheck("ghost_compiled_nojit", strategy=cases, check=check_compiled, mode="nojit",
             budget={"quick": 2000, "thorough": 40000}, shards={"quick": 4, "thorough": 16}, rule=RULE_NT),
    SubCheck("ghost_compiled_jit", strategy=lambda: cases(max_cells=3, jit=True), check=check_compiled,
             mode="jit", budget={"quick": 40, "thorough": 640}, shards={"quick": 4, "thorough": 16},
             time_limit={"quick": 110, "thorough": 1500}, rule=RULE_NT),
    SubCheck("boundary_values", strategy=cases, check=check_boundary_values, mode="pure",
             budget={"quick": 1000, "thorough": 20000}, shards={"quick": 2, "thorough": 8}, rule=RULE_NT),
    SubCheck("parse_formats", strategy=cases, check=check_parse, mode="pure",
             budget={"quick": 1500, "thorough": 30000}, shards={"quick": 2, "thorough": 8}, rule=RULE_NT),
]
