"""C19 - vector and tensor components are tied to the right basis vectors.

Sub-checks (DESIGN.md section 9): ``bases`` (local bases of the coordinate systems),
``by_name_access`` (the component a name / index selects is the one the operators
differentiate), ``from_expression_order``, ``dot_outer_order``, ``conversion_commutes_polar``,
``..._spherical``, ``..._cylindrical``, ``uniform_axial``, ``radial_field`` and
``getitem_label``.

Oracles are textbook closed forms written here (unit vectors of polar / spherical /
cylindrical coordinates, divergence / gradient / vector gradient of fields with a single
non-zero component) and the independent interpolant ``vlib.ref_interp``.  Component order
per grid as documented (manual, "Cylindrical coordinates"): polar (r, phi), spherical
(r, theta, phi), cylindrical (r, z, phi).

KNOWN FINDING F-C19 (handled as DESIGN.md prescribes): converting a vector field on a
CylindricalSymGrid to a Cartesian grid reads the stored components (r, z, phi) as
(r, phi, z).  Every sub-check that goes through that call site compares the observed result
with BOTH the correct conversion and the precisely characterised wrong one.
"""

from __future__ import annotations

import math

import numpy as np
from hypothesis import strategies as st

from vlib import env

env.setup()

import pde  # noqa: E402
from pde.grids import coordinates as pc  # noqa: E402

from vlib import ref_interp as ri  # noqa: E402
from vlib.core import SubCheck, Violation  # noqa: E402
from vlib.gen_grids import build_grid, grid_label, rng_array  # noqa: E402

PROPERTY = "C19"
RULE = ("cases = (coordinate system or curvilinear grid, points / field profiles with drawn coefficients, "
        "component names, construction route, Cartesian target grid); distinct = the whole case")
ASSUMPTIONS = [
    "component order per grid as documented: polar (r, phi), spherical (r, theta, phi), cylindrical "
    "(r, z, phi); vector gradient convention (grad v)_ij = d_j v_i",
    "operator probes compare interior cells only (one cell away from every non-periodic face) at "
    "12-32 cells per axis; required relative L-infinity agreement with the continuum formula 0.15",
    "spherical operator probes use radial vector fields only (the operators require vanishing "
    "angular components); the conversion itself is probed with all three components",
    "conversion to Cartesian grids is judged at target cells whose radial position lies in the bulk of "
    "the radial axis (between the first and last cell centre) and away from r = 0",
    "bases: points with r > 0, 0.05 < theta < pi - 0.05 (the basis is undefined on the axis); bipolar / "
    "bispherical systems away from their foci",
]
KNOWN_KEY = "C19:cylindrical-vector-to-cartesian:order(r,phi,z)"
EPS = float(np.finfo(float).eps)

#: documented component order per grid class (independent statement, from the manual)
GRID_ORDER = {"polar": ["r", "φ"], "sph": ["r", "θ", "φ"], "cyl": ["r", "z", "φ"],
              "cart1": ["x"], "cart2": ["x", "y"], "cart3": ["x", "y", "z"]}
#: order of the coordinate systems
SYSTEM_ORDER = {"polar": ["r", "φ"], "sph": ["r", "θ", "φ"], "cyl": ["r", "φ", "z"]}


def order_of(gspec):
    cls = gspec["cls"]
    if cls in ("unit", "cart"):
        return GRID_ORDER[f"cart{len(gspec['shape'])}"]
    return GRID_ORDER[cls]


# ---------------------------------------------------------------------------------------
# textbook unit vectors (Cartesian components), by name
# ---------------------------------------------------------------------------------------
def unit_vectors(system, theta=None, phi=None):
    """dict name -> array (..., dim) of the local unit vectors; angles as arrays"""
    phi = np.asarray(phi, dtype=float)
    s, c = np.sin(phi), np.cos(phi)
    zero, one = np.zeros_like(phi), np.ones_like(phi)
    if system == "polar":
        return {"r": np.stack([c, s], -1), "φ": np.stack([-s, c], -1)}
    if system == "cyl":
        return {"r": np.stack([c, s, zero], -1), "φ": np.stack([-s, c, zero], -1),
                "z": np.stack([zero, zero, one], -1)}
    if system == "sph":
        theta = np.asarray(theta, dtype=float)
        st_, ct = np.sin(theta), np.cos(theta)
        return {"r": np.stack([st_ * c, st_ * s, ct], -1),
                "θ": np.stack([ct * c, ct * s, -st_], -1),
                "φ": np.stack([-s, c, zero], -1)}
    raise ValueError(system)


# ---------------------------------------------------------------------------------------
# sub-check: bases
# ---------------------------------------------------------------------------------------
ANGLES = [0.0, math.pi / 2, math.pi, 3 * math.pi / 2, 2 * math.pi - 1e-9, 1e-9, math.pi / 4]


def angle(lo, hi):
    return st.one_of(st.floats(lo, hi), st.sampled_from([a for a in ANGLES if lo <= a <= hi]))


def radius():
    return st.one_of(st.sampled_from([1.0, 0.5, 2.0]),
                     st.floats(-3, 3).map(lambda e: float(10.0 ** e)))


@st.composite
def bases_cases(draw):
    system = draw(st.sampled_from(["polar", "sph", "cyl", "polar", "sph", "cyl", "cart", "bipolar",
                                   "bispherical"]))
    n = draw(st.integers(1, 6))
    pts = []
    par = None
    for _ in range(n):
        if system == "polar":
            pts.append([draw(radius()), draw(angle(0, 2 * math.pi))])
        elif system == "cyl":
            pts.append([draw(radius()), draw(angle(0, 2 * math.pi)), draw(st.floats(-1e3, 1e3))])
        elif system == "sph":
            pts.append([draw(radius()), draw(st.floats(0.05, math.pi - 0.05)), draw(angle(0, 2 * math.pi))])
        elif system == "bipolar":
            pts.append([draw(st.floats(0.1, 2 * math.pi - 0.1)), draw(st.floats(-2, 2))])
        elif system == "bispherical":
            pts.append([draw(st.floats(0.1, math.pi - 0.1)), draw(st.floats(-2, 2)),
                        draw(angle(0, 2 * math.pi))])
    if system == "cart":
        par = draw(st.integers(1, 3))
        pts = [[draw(st.floats(-1e3, 1e3)) for _ in range(par)] for _ in range(n)]
    if system in ("bipolar", "bispherical"):
        par = draw(st.sampled_from([1.0, 0.5, 3.0]))
    # points handed over as a mesh of shape (n1, n2, dim) (after missed seed C19-6: a rotation that unpacks
    # `points.T` is right for lists of points and wrong - transposed or mis-shaped - for meshes)
    splits = [(a, n // a) for a in range(1, n + 1) if n % a == 0]
    return {"system": system, "par": par, "points": pts,
            "comps_seed": draw(st.integers(0, 2**31)), "batch": draw(st.booleans()),
            "mesh": list(draw(st.sampled_from(splits))) if draw(st.booleans()) else None,
            # coordinates that are whole numbers, handed over as integer arrays (after missed seed C19-7: a
            # rotation matrix allocated with the dtype of the points truncated cos/sin to 0)
            "int_points": draw(st.sampled_from([False, False, True]))}


def make_system(system, par):
    if system == "polar":
        return pc.PolarCoordinates()
    if system == "sph":
        return pc.SphericalCoordinates()
    if system == "cyl":
        return pc.CylindricalCoordinates()
    if system == "cart":
        return pc.CartesianCoordinates(par)
    if system == "bipolar":
        return pc.BipolarCoordinates(par)
    if system == "bispherical":
        return pc.BisphericalCoordinates(par)
    raise ValueError(system)


def check_bases(case):
    system = case["system"]
    c = make_system(system, case["par"])
    pts = np.array(case["points"], dtype=float)
    dim = c.dim
    int_points = bool(case.get("int_points")) and system != "cart"
    if int_points:
        pts = np.rint(pts)
        lo_hi = {"polar": [(1, None)], "cyl": [(1, None)], "sph": [(1, None), (1, 3)], "bipolar": [(1, 6)],
                 "bispherical": [(1, 3)]}[system]
        for j, (lo, hi) in enumerate(lo_hi):
            pts[:, j] = np.clip(pts[:, j], lo, hi)

    def api(a):
        """the points as the package receives them"""
        return np.asarray(a).astype(np.int64) if int_points else a

    if case["batch"]:
        R = np.asarray(c.basis_rotation(api(pts)))
        J = np.asarray(c.mapping_jacobian(api(pts)))
        if R.ndim == 2:  # constant basis (Cartesian)
            R = np.repeat(R[:, :, None], len(pts), axis=2)
        if J.ndim == 2:
            J = np.repeat(J[:, :, None], len(pts), axis=2)
    else:
        R = np.stack([np.asarray(c.basis_rotation(api(p))) for p in pts], axis=-1)
        J = np.stack([np.asarray(c.mapping_jacobian(api(p))) for p in pts], axis=-1)
    if R.shape != (dim, dim, len(pts)) or J.shape != (dim, dim, len(pts)):
        raise Violation(f"{system}: basis_rotation shape {R.shape}, jacobian {J.shape}", key=f"bases:{system}:shape")
    comps = rng_array(case["comps_seed"], (dim, len(pts)), "f8", "uniform", 2.0)
    for k, p in enumerate(pts):
        Rk, Jk = R[:, :, k], J[:, :, k]
        where = f"{system} point {p.tolist()!r}"
        if not np.allclose(Rk @ Rk.T, np.eye(dim), atol=1e-12, rtol=0):
            raise Violation(f"{where}: basis_rotation is not orthonormal: R R^T = {(Rk @ Rk.T).tolist()!r}",
                            key=f"bases:{system}:orthonormal")
        det = float(np.linalg.det(Rk))
        if abs(det - 1) > 1e-12:
            raise Violation(f"{where}: basis is not right-handed in the order {c.axes}: det R = {det!r}",
                            key=f"bases:{system}:right-handed")
        norms = np.linalg.norm(Jk, axis=0)
        if np.any(norms <= 0):
            raise Violation(f"{where}: singular Jacobian", key=f"bases:{system}:jacobian-singular")
        cols = (Jk / norms).T  # row j = normalised column j
        if not np.allclose(Rk, cols, atol=1e-11, rtol=0):
            raise Violation(
                f"{where}: rows of basis_rotation {Rk.tolist()!r} differ from the normalised columns of "
                f"mapping_jacobian {cols.tolist()!r} (order {c.axes})", key=f"bases:{system}:jacobian-columns")
        # finite-difference Jacobian of the mapping itself
        for j in range(dim):
            h = 1e-5 * max(1.0, abs(p[j]))
            if system in ("bipolar", "bispherical"):
                h = 1e-6
            pp, pm = p.copy(), p.copy()
            pp[j] += h
            pm[j] -= h
            fd = (np.asarray(c.pos_to_cart(pp)) - np.asarray(c.pos_to_cart(pm))) / (2 * h)
            scale = norms[j] + np.linalg.norm(np.asarray(c.pos_to_cart(p))) * (1e-3 / max(1.0, abs(p[j])))
            if not np.allclose(fd, Jk[:, j], atol=2e-5 * scale + 1e-9 / h * EPS * (1 + np.linalg.norm(c.pos_to_cart(p))),
                               rtol=0):
                raise Violation(
                    f"{where}: column {j} of mapping_jacobian {Jk[:, j].tolist()!r} differs from the finite "
                    f"difference of pos_to_cart {fd.tolist()!r}", key=f"bases:{system}:jacobian-fd")
        # scale factors are the column norms
        sf = np.asarray(c.scale_factors(p), dtype=float).reshape(-1)
        if not np.allclose(sf, norms, rtol=1e-10, atol=1e-300):
            raise Violation(f"{where}: scale factors {sf.tolist()!r} differ from the Jacobian column norms "
                            f"{norms.tolist()!r}", key=f"bases:{system}:scale-factors")
        # textbook closed forms
        if system in SYSTEM_ORDER:
            if system == "sph":
                e = unit_vectors("sph", theta=p[1], phi=p[2])
            else:
                e = unit_vectors(system, phi=p[1])
            for j, name in enumerate(SYSTEM_ORDER[system]):
                if list(c.axes)[j] != name:
                    raise Violation(f"{system}: axes {c.axes}", key=f"bases:{system}:axes")
                if not np.allclose(Rk[j], e[name], atol=1e-13, rtol=0):
                    raise Violation(
                        f"{where}: basis vector e_{name} is {Rk[j].tolist()!r}, textbook {e[name].tolist()!r}",
                        key=f"bases:{system}:closed-form:{name}")
            want = sum(comps[j, k] * e[name] for j, name in enumerate(SYSTEM_ORDER[system]))
        elif system == "cart":
            if not np.array_equal(Rk, np.eye(dim)):
                raise Violation(f"Cartesian basis is {Rk.tolist()!r}", key="bases:cart:identity")
            want = comps[:, k]
        else:
            want = comps[:, k] @ cols
        got = np.asarray(c.vec_to_cart(api(p), comps[:, k]))
        if not np.allclose(got, want, atol=1e-12 * (1 + np.abs(comps[:, k]).sum()), rtol=0):
            raise Violation(f"{where}: vec_to_cart({comps[:, k].tolist()!r}) = {got.tolist()!r}, expected "
                            f"{np.asarray(want).tolist()!r}", key=f"bases:{system}:vec_to_cart")
    if case["batch"] and system != "cart":  # (Cartesian: constant basis, batched call is rejected)
        got = np.asarray(c.vec_to_cart(api(pts), comps))
        one = np.stack([np.asarray(c.vec_to_cart(p, comps[:, k])) for k, p in enumerate(pts)], axis=-1)
        if got.shape != one.shape or not np.allclose(got, one, atol=1e-12 * (1 + np.abs(comps).max()), rtol=0):
            raise Violation(f"{system}: batched vec_to_cart differs from point-wise calls",
                            key=f"bases:{system}:vec_to_cart-batch")
    labels = [f"system:{system}", f"batch:{case['batch']}"] + (["integer-typed points"] if int_points else [])
    if case.get("mesh") and system != "cart":
        n1, n2 = case["mesh"]
        pm = api(pts.reshape(n1, n2, dim))
        want_shape = (dim, dim, n1, n2)
        for name, arr in (("basis_rotation", R), ("mapping_jacobian", J)):
            got = np.asarray(getattr(c, name)(pm))
            if got.shape != want_shape:
                raise Violation(f"{system}: {name} of a mesh of points of shape {pm.shape} has shape {got.shape}, "
                                f"documented {want_shape}", key=f"bases:{system}:mesh-shape")
            ref = arr.reshape(dim, dim, n1, n2)
            if not np.allclose(got, ref, atol=1e-12 * (1 + np.abs(ref).max()), rtol=0):
                raise Violation(f"{system}: {name} of a mesh of points of shape {pm.shape} differs from the point-wise "
                                f"results: entry [..., i, j] does not belong to point [i, j]",
                                key=f"bases:{system}:mesh-values")
        got = np.asarray(c.vec_to_cart(pm, comps.reshape(dim, n1, n2)))
        one = np.stack([np.asarray(c.vec_to_cart(p, comps[:, k])) for k, p in enumerate(pts)], axis=-1)
        one = one.reshape((-1, n1, n2))
        if got.shape != one.shape or not np.allclose(got, one, atol=1e-12 * (1 + np.abs(comps).max()), rtol=0):
            raise Violation(f"{system}: vec_to_cart on a mesh of points of shape {pm.shape} differs from point-wise calls",
                            key=f"bases:{system}:vec_to_cart-mesh")
        labels.append("mesh:" + ("square" if n1 == n2 else "rectangular") + (">=2x2" if min(n1, n2) >= 2 else ""))
    return {"nt": system != "cart", "labels": labels,
            "key": [system, case["par"], case["batch"], case.get("mesh"),
                    [[round(x, 6) for x in p] for p in case["points"]]]}


# ---------------------------------------------------------------------------------------
# grids and probe profiles
# ---------------------------------------------------------------------------------------
@st.composite
def curvilinear_grids(draw, classes=("polar", "sph", "cyl"), n_lo=12, n_hi=24, nz_lo=14, nz_hi=20):
    cls = draw(st.sampled_from(list(classes)))
    hole = draw(st.booleans())
    r_in = draw(st.sampled_from([0.5, 1.0, 2.0])) if hole else 0.0
    width = draw(st.one_of(st.sampled_from([1.0, 2.0, 4.0]), st.floats(0.5, 8.0)))
    nr = draw(st.integers(n_lo, n_hi))
    if cls in ("polar", "sph"):
        return {"cls": cls, "shape": [nr], "radius": [r_in, r_in + width], "periodic": [False]}
    z0 = draw(st.one_of(st.sampled_from([0.0, -1.0]), st.floats(-5, 5)))
    lz = draw(st.one_of(st.sampled_from([1.0, 2.0]), st.floats(0.5, 6.0)))
    return {"cls": "cyl", "shape": [nr, draw(st.integers(nz_lo, nz_hi))], "radius": [r_in, r_in + width],
            "bounds_z": [z0, z0 + lz], "periodic": [False, draw(st.booleans())]}


def coef():
    return st.tuples(st.sampled_from([-1, 1]), st.floats(0.5, 2.0)).map(lambda t: t[0] * t[1])


def profile_spec():
    """f(r, z) = r (a + b r/R) (c + d sin(k (z - z0))), k = 2 pi/Lz on periodic axes (else 0.45 of
    that), so that k dz <= 0.45 with >= 14 cells (central differences then err by < 4 %);
    polar/spherical: the r-part only"""
    return st.fixed_dictionaries({"a": coef(), "b": coef(), "c": coef(), "d": coef(),
                                  "m": st.just(1)})


class Profile:
    """f = g(r) h(z) with closed-form derivatives (h == 1 on grids without z axis)"""

    def __init__(self, spec, gspec):
        geo = ri.axis_geometry(gspec)
        self.R = geo[0][1]
        self.a, self.b = spec["a"], spec["b"] / self.R
        self.has_z = gspec["cls"] == "cyl"
        if self.has_z:
            z0, z1 = geo[1][0], geo[1][1]
            self.z0 = z0
            self.k = 2 * math.pi * spec["m"] / (z1 - z0) * (1.0 if geo[1][4] else 0.45)
            self.c, self.d = spec["c"], spec["d"]

    def g(self, r):
        return r * (self.a + self.b * r)

    def dg(self, r):
        return self.a + 2 * self.b * r

    def g_over_r(self, r):
        return self.a + self.b * r

    def h(self, z):
        if not self.has_z:
            return 1.0
        return self.c + self.d * np.sin(self.k * (z - self.z0))

    def dh(self, z):
        if not self.has_z:
            return 0.0
        return self.d * self.k * np.cos(self.k * (z - self.z0))

    def f(self, r, z=0.0):
        return self.g(r) * self.h(z)

    def expression(self):
        """text of f in the grid's axis names"""
        s = f"r * (({self.a!r}) + ({self.b!r}) * r)"
        if self.has_z:
            s += f" * (({self.c!r}) + ({self.d!r}) * sin(({self.k!r}) * (z - ({self.z0!r}))))"
        return s


def mesh(gspec):
    """cell-centre coordinate arrays (r[, z]) broadcast to the grid shape"""
    cs = [ri.centres(gspec, a) for a in range(len(gspec["shape"]))]
    m = np.meshgrid(*cs, indexing="ij")
    return m[0], (m[1] if len(m) > 1 else 0.0)


def interior(gspec):
    """index expression selecting cells one away from every non-periodic face"""
    return tuple(slice(None) if per else slice(1, -1) for per in gspec["periodic"])


BC = "auto_periodic_neumann"


def continuum(gspec, name, prof, what):
    """closed forms for a field whose single non-zero component ``name`` is f = g(r) h(z):
    ``divergence`` (array), ``vector_gradient`` (dict (name_i, name_j) -> array); and for the
    scalar f: ``gradient`` (dict name -> array).  Unlisted components vanish."""
    r, z = mesh(gspec)
    cls = gspec["cls"]
    f, fr, fz = prof.f(r, z), prof.dg(r) * prof.h(z), prof.g(r) * prof.dh(z)
    f_r = prof.g_over_r(r) * prof.h(z)  # f / r
    zero = np.zeros(np.broadcast(r, z).shape)
    if what == "gradient":
        out = {"r": fr + zero}
        if cls == "cyl":
            out["z"] = fz + zero
        return out
    if what == "divergence":
        if name == "r":
            return fr + (2 if cls == "sph" else 1) * f_r + zero
        if name == "z":
            return fz + zero
        return zero
    if what == "vector_gradient":  # (grad v)_ij = d_j v_i in the local orthonormal basis
        out = {}
        if name == "r":
            out[("r", "r")] = fr
            out[("φ", "φ")] = f_r
            if cls == "sph":
                out[("θ", "θ")] = f_r
            if cls == "cyl":
                out[("r", "z")] = fz
        elif name == "z":
            out[("z", "r")] = fr
            out[("z", "z")] = fz
        elif name == "φ":
            out[("φ", "r")] = fr
            out[("r", "φ")] = -f_r
            if cls == "cyl":
                out[("φ", "z")] = fz
        return {k: v + zero for k, v in out.items()}
    if what == "tensor_divergence":  # (div T)_i = sum_j d_j T_ij; name = (name_i, name_j) of T's entry
        ni, nj = name
        out = {}
        if (ni, nj) == ("r", "r"):
            out["r"] = fr + (2 if cls == "sph" else 1) * f_r
        elif (ni, nj) == ("φ", "φ"):  # spherical: T_thth = T_phph = f (symmetry precondition)
            out["r"] = -(2 if cls == "sph" else 1) * f_r
        elif (ni, nj) == ("z", "z"):
            out["z"] = fz
        elif (ni, nj) == ("r", "z"):
            out["r"] = fz
        elif (ni, nj) == ("z", "r"):
            out["z"] = fr + f_r
        return {k: v + zero for k, v in out.items()}
    raise ValueError(what)


def scale_of(gspec, prof):
    """common magnitude of the closed forms (so that 'expected zero' has a meaningful tolerance)"""
    r, z = mesh(gspec)
    vals = [prof.dg(r) * prof.h(z), prof.g_over_r(r) * prof.h(z), prof.g(r) * prof.dh(z)]
    return max(float(np.max(np.abs(v))) for v in vals)


def compare_interior(obs, want, gspec, scale, what, key, rel=0.15):
    sel = interior(gspec)
    err = float(np.max(np.abs(obs[sel] - want[sel])))
    if not err <= rel * scale:
        raise Violation(f"{what}: differs from the continuum formula by {err:.3g} "
                        f"(= {err / scale:.2f} of the field scale {scale:.3g}; allowed {rel})", key=key)
    return err / scale


# ---------------------------------------------------------------------------------------
# sub-check: by_name_access
# ---------------------------------------------------------------------------------------
ROUTES = ["setitem_name", "setitem_index", "from_expression", "from_scalars", "data"]
OPS = ["divergence", "vector_gradient", "gradient", "directional", "tensor_divergence"]
TCOMPS = ["rr", "φφ", "zz", "rz", "zr"]


@st.composite
def by_name_cases(draw):
    # the discrete choices are derived from one wide integer (sampled_from clusters heavily,
    # which left whole (grid class, name) combinations unvisited)
    sel = draw(st.integers(0, 2**30))
    h = (sel * 0x9E3779B97F4A7C15) & (2**64 - 1)  # multiplicative mixing: all bit fields vary

    def pick(seq, shift):
        return seq[(h >> shift) % len(seq)]

    cls = pick(("polar", "sph", "cyl", "cyl"), 58)
    gspec = draw(curvilinear_grids(classes=(cls,)))
    names = order_of(gspec)
    name = "r" if cls == "sph" else pick(names, 50)
    return {"grid": gspec, "name": name, "profile": draw(profile_spec()),
            "route": pick(ROUTES, 42), "op": pick(OPS, 34), "tcomp": pick(TCOMPS, 26),
            "seed": draw(st.integers(0, 2**31))}


def build_single(grid, gspec, name, prof, route):
    """vector field whose only non-zero component is ``name`` (documented order), via a route"""
    names = order_of(gspec)
    k = names.index(name)
    r, z = mesh(gspec)
    f = prof.f(r, z) + np.zeros(grid.shape)
    if route == "setitem_name":
        v = pde.VectorField(grid)
        v[name] = f
    elif route == "setitem_index":
        v = pde.VectorField(grid)
        v[k] = pde.ScalarField(grid, f)
    elif route == "from_expression":
        exprs = ["0"] * len(names)
        exprs[k] = prof.expression()
        v = pde.VectorField.from_expression(grid, exprs)
    elif route == "from_scalars":
        parts = [pde.ScalarField(grid, f if i == k else 0.0) for i in range(len(names))]
        v = pde.VectorField.from_scalars(parts)
    else:
        data = np.zeros((len(names),) + tuple(grid.shape))
        data[k] = f
        v = pde.VectorField(grid, data)
    return v, f


def check_by_name(case):
    gspec, name = case["grid"], case["name"]
    grid = build_grid(gspec)
    names = order_of(gspec)
    cls = gspec["cls"]
    glabel = grid_label(gspec)
    prof = Profile(case["profile"], gspec)
    scale = scale_of(gspec, prof)
    # (a) the documented order, index <-> name
    if list(grid.axes) + list(grid.axes_symmetric) != names:
        raise Violation(f"{glabel}: axes + axes_symmetric = {grid.axes + grid.axes_symmetric}, documented "
                        f"order {names}", key=f"by_name:{cls}:axes-order")
    rnd = pde.VectorField(grid, rng_array(case["seed"], (len(names),) + tuple(grid.shape), "f8"))
    for k, nm in enumerate(names):
        if grid.get_axis_index(nm) != k:
            raise Violation(f"{glabel}: get_axis_index({nm!r}) = {grid.get_axis_index(nm)}, documented "
                            f"position {k} in {names}", key=f"by_name:{cls}:get_axis_index")
        if not (np.array_equal(rnd[nm].data, rnd.data[k]) and np.array_equal(rnd[k].data, rnd.data[k])):
            raise Violation(f"{glabel}: field[{nm!r}] / field[{k}] is not component {k} of the data",
                            key=f"by_name:{cls}:getitem")
        if not np.shares_memory(rnd[nm].data, rnd.data):
            raise Violation(f"{glabel}: field[{nm!r}] does not view the field's data",
                            key=f"by_name:{cls}:getitem-view")
    tens = pde.Tensor2Field(grid, rng_array(case["seed"] + 1, (len(names),) * 2 + tuple(grid.shape), "f8"))
    for i, ni in enumerate(names):
        for j, nj in enumerate(names):
            if not np.array_equal(tens[ni, nj].data, tens.data[i, j]):
                raise Violation(f"{glabel}: tensor[{ni!r}, {nj!r}] is not component ({i}, {j})",
                                key=f"by_name:{cls}:tensor-getitem")
    # (b) the named component is the one the operators differentiate
    v, f = build_single(grid, gspec, name, prof, case["route"])
    k = names.index(name)
    for i in range(len(names)):
        want = f if i == k else np.zeros(grid.shape)
        if not np.allclose(v.data[i], want, rtol=1e-12, atol=1e-12 * scale):
            raise Violation(f"{glabel}: route {case['route']} for the single component {name!r} (slot {k} of "
                            f"{names}): slot {i} holds unexpected data", key=f"by_name:{cls}:route:{case['route']}")
    op = case["op"]
    what = f"{glabel}: {op} of a field with single component {name!r} built via {case['route']}"
    worst = 0.0
    if op == "divergence":
        obs = v.divergence(bc=BC).data
        worst = compare_interior(obs, continuum(gspec, name, prof, "divergence"), gspec, scale, what,
                                 key=f"by_name:{cls}:divergence:{name}")
    elif op == "vector_gradient":
        obs = v.gradient(bc=BC)
        want = continuum(gspec, name, prof, "vector_gradient")
        for ni in names:
            for nj in names:
                w = want.get((ni, nj), np.zeros(grid.shape))
                worst = max(worst, compare_interior(
                    obs[ni, nj].data, w, gspec, scale, what + f", component ({ni}, {nj})",
                    key=f"by_name:{cls}:vector_gradient:{name}:({ni},{nj})"))
    elif op == "gradient":
        s = pde.ScalarField(grid, f)
        obs = s.gradient(bc=BC)
        want = continuum(gspec, name, prof, "gradient")
        for nm in names:
            w = want.get(nm, np.zeros(grid.shape))
            worst = max(worst, compare_interior(
                obs[nm].data, w, gspec, scale, f"{glabel}: component {nm!r} of the gradient of a scalar",
                key=f"by_name:{cls}:gradient:{nm}"))
    elif op == "tensor_divergence":
        # tensor with a single non-zero entry addressed by *names*; only entries whose divergence
        # is convention-independent up to the documented (div T)_i = d_j T_ij
        ni, nj = {"rr": ("r", "r"), "φφ": ("φ", "φ"), "zz": ("z", "z"), "rz": ("r", "z"),
                  "zr": ("z", "r")}[case["tcomp"]]
        if cls != "cyl" and "z" in (ni, nj):
            ni = nj = "r"
        T = pde.Tensor2Field(grid)
        T[ni, nj] = f
        kw = {}
        if cls == "sph":
            if (ni, nj) == ("φ", "φ"):
                T["θ", "θ"] = f
            kw["conservative"] = False  # (the conservative variant has the known finding F-C01)
        obs = T.divergence(bc=BC, **kw)
        want = continuum(gspec, (ni, nj), prof, "tensor_divergence")
        for nm in names:
            w = want.get(nm, np.zeros(grid.shape))
            worst = max(worst, compare_interior(
                obs[nm].data, w, gspec, scale,
                f"{glabel}: component {nm!r} of the divergence of a tensor with single entry ({ni}, {nj})",
                key=f"by_name:{cls}:tensor_divergence:({ni},{nj}):{nm}"))
        name = f"{ni}{nj}"
    else:  # directional derivative e_name . grad s through the dot product
        s = pde.ScalarField(grid, f)
        e = pde.VectorField(grid)
        e[name] = 1.0
        obs = e.dot(s.gradient(bc=BC)).data
        want = continuum(gspec, name, prof, "gradient").get(name, np.zeros(grid.shape))
        worst = compare_interior(obs, want, gspec, scale,
                                 f"{glabel}: e_{name} . gradient(s) via dot", key=f"by_name:{cls}:directional:{name}")
    labels = [f"grid:{glabel}", f"name:{name}", f"route:{case['route']}", f"op:{op}",
              "err<1%" if worst < 0.01 else ("err<5%" if worst < 0.05 else "err<15%")]
    return {"nt": True, "labels": labels,
            "key": [cls, gspec["radius"], gspec["shape"], name, case["route"], op, case["profile"]]}


# ---------------------------------------------------------------------------------------
# sub-check: getitem_label
# ---------------------------------------------------------------------------------------
@st.composite
def label_cases(draw):
    return {"grid": draw(curvilinear_grids(n_lo=2, n_hi=4, nz_lo=2, nz_hi=3)),
            "label": draw(st.sampled_from([None, "v", "velocity"]))}


def check_label(case):
    gspec = case["grid"]
    grid = build_grid(gspec)
    names = order_of(gspec)
    v = pde.VectorField(grid, label=case["label"])
    for nm in names:
        lab = v[nm].label
        want = f"{case['label']}_{nm}" if case["label"] else f"{nm} component"
        if lab != want:
            raise Violation(
                f"{grid_label(gspec)}: field[{nm!r}] (slot {names.index(nm)} of the documented order "
                f"{names}) is labelled {lab!r}; the component it returns is the {nm!r} component ({want!r})",
                key=f"C19:getitem-label:{gspec['cls']}:names-in-coordinate-system-order")
    return {"nt": True, "labels": [f"grid:{gspec['cls']}", f"label:{case['label']}"],
            "key": [gspec["cls"], case["label"]]}


# ---------------------------------------------------------------------------------------
# sub-check: from_expression_order
# ---------------------------------------------------------------------------------------
@st.composite
def expression_cases(draw):
    gspec = draw(curvilinear_grids(n_lo=3, n_hi=8, nz_lo=2, nz_hi=6))
    d = len(order_of(gspec))
    c = st.integers(-24, 24).map(lambda k: k / 8)
    return {"grid": gspec, "rank": draw(st.sampled_from([1, 1, 2])),
            "coef": [[draw(c), draw(c), draw(c)] for _ in range(d * d)],
            "alt": draw(st.booleans())}


def check_expression(case):
    gspec = case["grid"]
    grid = build_grid(gspec)
    names = order_of(gspec)
    d = len(names)
    cls = gspec["cls"]
    r, z = mesh(gspec)
    rname = "radius" if case["alt"] and cls in ("polar", "sph") else "r"

    def text(cf):
        s = f"({cf[0]!r}) + ({cf[1]!r}) * {rname}**2"
        if cls == "cyl":
            s += f" + ({cf[2]!r}) * z * r"
        return s

    def value(cf):
        return cf[0] + cf[1] * r**2 + (cf[2] * z * r if cls == "cyl" else 0.0) + np.zeros(grid.shape)

    tol = 1e-12 * (1 + float(np.max(np.abs(r))) ** 2 * 4 + (float(np.max(np.abs(z))) if cls == "cyl" else 0) * 8)
    if case["rank"] == 1:
        fld = pde.VectorField.from_expression(grid, [text(case["coef"][k]) for k in range(d)])
        for k, nm in enumerate(names):
            want = value(case["coef"][k])
            if not (np.allclose(fld.data[k], want, atol=tol, rtol=1e-12)
                    and np.allclose(fld[nm].data, want, atol=tol, rtol=1e-12)):
                raise Violation(
                    f"{grid_label(gspec)}: expression #{k} of VectorField.from_expression is not the "
                    f"{nm!r} component (documented order {names})", key=f"from_expression:{cls}:vector:{nm}")
    else:
        exprs = [[text(case["coef"][i * d + j]) for j in range(d)] for i in range(d)]
        fld = pde.Tensor2Field.from_expression(grid, exprs)
        for i, ni in enumerate(names):
            for j, nj in enumerate(names):
                want = value(case["coef"][i * d + j])
                if not (np.allclose(fld.data[i, j], want, atol=tol, rtol=1e-12)
                        and np.allclose(fld[ni, nj].data, want, atol=tol, rtol=1e-12)):
                    raise Violation(
                        f"{grid_label(gspec)}: expression [{i}][{j}] of Tensor2Field.from_expression is not "
                        f"the ({ni!r}, {nj!r}) component", key=f"from_expression:{cls}:tensor")
    distinct = len({tuple(c) for c in case["coef"][: d if case["rank"] == 1 else d * d]}) > 1
    return {"nt": distinct, "labels": [f"grid:{cls}", f"rank:{case['rank']}", f"alt-name:{case['alt']}"],
            "key": [cls, gspec["shape"], case["rank"], case["coef"]]}


# ---------------------------------------------------------------------------------------
# sub-check: dot_outer_order
# ---------------------------------------------------------------------------------------
@st.composite
def dot_cases(draw):
    gspec = draw(curvilinear_grids(n_lo=2, n_hi=6, nz_lo=2, nz_hi=4))
    return {"grid": gspec, "dtype": draw(st.sampled_from(["f8", "c16"])), "seed": draw(st.integers(0, 2**31)),
            "conjugate": draw(st.booleans()),
            "backend": draw(st.sampled_from(["method", "method", "numpy", "numba"]))}


def check_dot(case):
    gspec = case["grid"]
    grid = build_grid(gspec)
    names = order_of(gspec)
    d = len(names)
    cls = gspec["cls"]
    shp = tuple(grid.shape)
    a = pde.VectorField(grid, rng_array(case["seed"], (d,) + shp, case["dtype"]), dtype=None)
    b = pde.VectorField(grid, rng_array(case["seed"] + 1, (d,) + shp, case["dtype"]))
    T = pde.Tensor2Field(grid, rng_array(case["seed"] + 2, (d, d) + shp, case["dtype"]))
    S = pde.Tensor2Field(grid, rng_array(case["seed"] + 3, (d, d) + shp, case["dtype"]))
    conj = case["conjugate"]
    cj = (lambda x: np.conj(x)) if conj else (lambda x: x)
    tol = 64 * EPS * d * d * 40

    def close(x, y):
        return np.shape(x) == np.shape(y) and np.allclose(x, y, rtol=0, atol=tol)

    def dot(x, y):
        if case["backend"] == "method":
            return x.dot(y, conjugate=conj)
        op = x.make_dot_operator(backend=case["backend"], conjugate=conj)
        return op(x.data, y.data)

    def data(res):
        return res.data if hasattr(res, "data") and not isinstance(res, np.ndarray) else np.asarray(res)

    where = f"{grid_label(gspec)} ({case['backend']}, conjugate={conj})"
    if not close(data(dot(a, b)), sum(a[n].data * cj(b[n].data) for n in names)):
        raise Violation(f"{where}: a.dot(b) is not the sum over the named components", key=f"dot:{cls}:vector-vector")
    # (outer_product allocates a real result: real operands only)
    ar = pde.VectorField(grid, np.real(a.data))
    br = pde.VectorField(grid, np.real(b.data))
    outer = ar.outer_product(br)
    for ni in names:
        for nj in names:
            if not close(outer[ni, nj].data, ar[ni].data * br[nj].data):
                raise Violation(f"{where}: outer_product(a, b)[{ni!r}, {nj!r}] != a[{ni!r}] b[{nj!r}]",
                                key=f"dot:{cls}:outer")
    # the same through the operator factories of both backends (the compiled numba operator and
    # its overload are code paths of their own; added after seeded change C19-3 was missed)
    for be in ("numpy", "numba"):
        got = np.asarray(ar.make_outer_prod_operator(backend=be)(ar.data, br.data))
        for i, ni in enumerate(names):
            for j, nj in enumerate(names):
                if got.shape != (d, d) + shp or not close(got[i, j], ar[ni].data * br[nj].data):
                    raise Violation(f"{where}: make_outer_prod_operator({be!r})(a, b)[{ni!r}, {nj!r}] != "
                                    f"a[{ni!r}] b[{nj!r}]", key=f"dot:{cls}:outer-operator:{be}")
    Tv = data(dot(T, a))
    vT = data(dot(a, T))
    TS = data(dot(T, S))
    for i, ni in enumerate(names):
        if not close(Tv[i], sum(T[ni, nj].data * cj(a[nj].data) for nj in names)):
            raise Violation(f"{where}: (T.dot(v))[{ni!r}] != sum_j T[{ni!r}, j] v[j]", key=f"dot:{cls}:tensor-vector")
        if not close(vT[i], sum(a[nj].data * cj(T[nj, ni].data) for nj in names)):
            raise Violation(f"{where}: (v.dot(T))[{ni!r}] != sum_j v[j] T[j, {ni!r}]", key=f"dot:{cls}:vector-tensor")
        for k, nk in enumerate(names):
            if not close(TS[i, k], sum(T[ni, nj].data * cj(S[nj, nk].data) for nj in names)):
                raise Violation(f"{where}: (T.dot(S))[{ni!r}, {nk!r}] != sum_j T[i, j] S[j, k]",
                                key=f"dot:{cls}:tensor-tensor")
    return {"nt": True, "labels": [f"grid:{cls}", f"dtype:{case['dtype']}", f"backend:{case['backend']}",
                                   f"conjugate:{conj}"],
            "key": [cls, gspec["shape"], case["dtype"], case["backend"], conj, case["seed"]]}


# ---------------------------------------------------------------------------------------
# conversion of vector fields to Cartesian grids
# ---------------------------------------------------------------------------------------
def target_strategy():
    return st.fixed_dictionaries({
        "mode": st.sampled_from(["valid", "full", "box", "box"]),
        "num": st.integers(8, 14),
        "frac": st.lists(st.tuples(st.floats(-1, 1), st.floats(0.15, 1.0)), min_size=3, max_size=3),
        # rotation-invariant fill values only (a non-zero number is rotated like a vector, see C16)
        "fill": st.sampled_from([float("nan"), 0.0]),
    })


def make_target(grid, gspec, t):
    """Cartesian target grid: get_cartesian_grid(mode) or a random box around/inside the domain.
    Returns (py-pde grid, spec)"""
    dim = {"polar": 2, "sph": 3, "cyl": 3}[gspec["cls"]]
    if t["mode"] in ("valid", "full") and gspec["radius"][0] == 0:  # (TypeError on grids with a hole)
        import logging
        logging.disable(logging.WARNING)
        try:
            tg = grid.get_cartesian_grid(mode=t["mode"])
        finally:
            logging.disable(logging.NOTSET)
        shape = [min(int(n), 14) for n in tg.shape]
        bounds = [[float(lo), float(hi)] for lo, hi in tg.axes_bounds]
    else:
        # box centred at a random position inside the (annular) domain, of the size of a fraction
        # of the radial extent, so that a good part of it lies inside
        r_in, R = gspec["radius"]
        (u, w), (al, w2), (be, w3) = t["frac"]
        rho = r_in + 0.5 * (u + 1) * (R - r_in)
        alpha = math.pi * (al + 1)
        beta = 0.5 * math.pi * (be + 1) if gspec["cls"] == "sph" else 0.5 * math.pi
        centre = [rho * math.sin(beta) * math.cos(alpha), rho * math.sin(beta) * math.sin(alpha),
                  rho * math.cos(beta)]
        half = 0.5 * max(w, 0.3) * max(R - r_in, 0.5 * R)
        bounds, shape = [], []
        for a in range(dim):
            if gspec["cls"] == "cyl" and a == 2:
                z0, z1 = gspec["bounds_z"]
                hz = 0.5 * w3 * (z1 - z0)
                mid = 0.5 * (z0 + z1) + 0.5 * be * ((z1 - z0) - 2 * hz)
                bounds.append([mid - hz, mid + hz])
            else:
                bounds.append([centre[a] - half, centre[a] + half])
            shape.append(t["num"] - (a % 2))
    spec = {"cls": "cart", "shape": shape, "bounds": bounds, "periodic": [False] * dim}
    return build_grid(spec), spec


def target_points(gspec, tspec):
    """Cartesian cell centres X (shape + (dim,)) and their curvilinear coordinates"""
    dim = len(tspec["shape"])
    cs = [ri.centres(tspec, a) for a in range(dim)]
    X = np.stack(np.meshgrid(*cs, indexing="ij"), axis=-1)
    cls = gspec["cls"]
    x, y = X[..., 0], X[..., 1]
    phi = np.arctan2(y, x)
    if cls == "polar":
        return X, {"r": np.hypot(x, y), "phi": phi, "grid": [np.hypot(x, y)]}
    if cls == "cyl":
        rr = np.hypot(x, y)
        return X, {"r": rr, "phi": phi, "grid": [rr, X[..., 2]]}
    rr = np.sqrt(x * x + y * y + X[..., 2] ** 2)
    theta = np.arctan2(np.hypot(x, y), X[..., 2])
    return X, {"r": rr, "phi": phi, "theta": theta, "grid": [rr]}


def reference_conversion(gspec, tspec, data, order, fill):
    """Cartesian components at the target centres of the vector field with curvilinear
    components ``data`` (stored in the order ``order`` of names): interpolate every component
    with the independent interpolant and rotate with the textbook unit vectors.

    Returns (values (dim, *tshape), bound, judged mask, inside mask)"""
    X, q = target_points(gspec, tspec)
    cls = gspec["cls"]
    tshape = X.shape[:-1]
    dim = X.shape[-1]
    e = unit_vectors(cls, theta=q.get("theta"), phi=q["phi"])
    comp = np.zeros((len(order),) + tshape, dtype=data.dtype)
    bnd = np.zeros((len(order),) + tshape)
    judged = np.ones(tshape, bool)
    inside = np.ones(tshape, bool)
    geo = ri.axis_geometry(gspec)
    r_lo = geo[0][0] + 0.5 * geo[0][3]
    r_hi = geo[0][1] - 0.5 * geo[0][3]
    for idx in np.ndindex(*tshape):
        p = [float(c[idx]) for c in q["grid"]]
        val, b, info = ri.interpolate(gspec, data, p, ghost=False)
        if info.ambiguous:
            judged[idx] = False
            inside[idx] = False
        elif info.outside:
            inside[idx] = False
        else:
            comp[(slice(None), *idx)] = val
            bnd[(slice(None), *idx)] = b
            # the angular position is ill-defined at the origin; the radial strip next to a
            # face uses nearest-cell values (fine for the conversion itself, kept)
            if q["r"][idx] < 1e-9 * geo[0][1]:
                judged[idx] = False
    out = np.zeros((dim,) + tshape, dtype=data.dtype)
    bound = np.zeros((dim,) + tshape)
    for k, name in enumerate(order):
        ek = np.moveaxis(e[name], -1, 0)  # (dim, *tshape)
        out = out + comp[k] * ek
        bound = bound + (bnd[k] + 64 * EPS * np.abs(comp[k])) * np.abs(ek)
    fa = np.asarray(fill, dtype=data.dtype)
    out = np.where(inside, out, fa)
    bulk = inside & (q["r"] >= r_lo) & (q["r"] <= r_hi)
    return out, bound + 1e-300, judged, inside, bulk


def same(obs, ref, bound, judged):
    ok = (np.abs(obs - ref) <= bound) | (np.isnan(obs) & np.isnan(ref)) | ~judged
    return bool(np.all(ok))


def judge_conversion(obs, gspec, tspec, data, fill, what):
    """three-way classification prescribed by DESIGN.md for the cylindrical call site; for the
    other grid classes there is only the correct model.  Returns the correct reference."""
    cls = gspec["cls"]
    good = reference_conversion(gspec, tspec, data, GRID_ORDER[cls], fill)
    if obs.shape != good[0].shape:
        raise Violation(f"{what}: result shape {obs.shape}, expected {good[0].shape}",
                        key=f"conversion:{cls}:shape")
    if same(obs, good[0], good[1], good[2]):
        return good, "correct"
    if cls == "cyl":
        bad = reference_conversion(gspec, tspec, data, SYSTEM_ORDER["cyl"], fill)
        if same(obs, bad[0], bad[1], bad[2]):
            idx = np.unravel_index(np.nanargmax(np.where(good[2], np.abs(obs - good[0]).sum(axis=0), 0)),
                                   good[2].shape)
            raise Violation(
                f"{what}: the Cartesian field equals the conversion that reads the stored components "
                f"(r, z, phi) as (r, phi, z): e.g. target cell {list(idx)} holds {obs[(slice(None), *idx)].tolist()!r}, "
                f"correct {good[0][(slice(None), *idx)].tolist()!r}", key=KNOWN_KEY)
    err = np.where(good[2], np.abs(obs - good[0]).sum(axis=0), 0)
    idx = np.unravel_index(np.nanargmax(np.nan_to_num(err, nan=np.inf)), err.shape)
    raise Violation(
        f"{what}: Cartesian field differs from the conversion with the textbook unit vectors at target cell "
        f"{list(idx)}: {obs[(slice(None), *idx)].tolist()!r} vs {good[0][(slice(None), *idx)].tolist()!r}"
        + (" (and from the known wrong (r, phi, z) reading)" if cls == "cyl" else ""),
        key=f"conversion:{cls}:pointwise")


@st.composite
def commute_cases(draw, cls):
    gspec = draw(curvilinear_grids(classes=(cls,), n_lo=16, n_hi=28, nz_lo=10, nz_hi=16))
    names = order_of(gspec)
    return {"grid": gspec, "profiles": [draw(profile_spec()) for _ in names],
            "relation": draw(st.sampled_from(["divergence", "gradient", "pointwise"])),
            "target": draw(target_strategy()), "seed": draw(st.integers(0, 2**31)),
            "random_data": draw(st.booleans())}


def cart_interior_mask(arrs):
    """cells of a Cartesian array all of whose 3^d neighbours (and themselves) are finite"""
    fin = np.ones(arrs[0].shape[-len(arrs[0].shape) + (arrs[0].ndim - len(arrs[0].shape)):], bool)
    fin = np.all([np.all(np.isfinite(a.reshape((-1,) + a.shape[a.ndim - fin.ndim:])), axis=0) for a in arrs], axis=0)
    m = fin.copy()
    for ax in range(fin.ndim):
        for sh in (1, -1):
            rolled = np.roll(fin, sh, axis=ax)
            idx = [slice(None)] * fin.ndim
            idx[ax] = 0 if sh == 1 else -1
            rolled[tuple(idx)] = False
            m &= rolled
    return m


def check_commute(case):
    gspec = case["grid"]
    cls = gspec["cls"]
    grid = build_grid(gspec)
    names = order_of(gspec)
    glabel = grid_label(gspec)
    r, z = mesh(gspec)
    profs = [Profile(p, gspec) for p in case["profiles"]]
    relation = case["relation"]
    tgrid, tspec = make_target(grid, gspec, case["target"])
    fill = case["target"]["fill"]
    labels = [f"grid:{glabel}", f"relation:{relation}", f"target:{case['target']['mode']}"]
    if relation == "pointwise":
        # exact consequence: any stored components (all non-zero, distinct) are rotated by the
        # unit vectors named by the documented order
        if case["random_data"]:
            data = rng_array(case["seed"], (len(names),) + tuple(grid.shape), "f8")
        else:
            data = np.stack([p.f(r, z) + np.zeros(grid.shape) for p in profs])
        V = pde.VectorField(grid, data)
        obs = V.interpolate_to_grid(tgrid, fill=fill).data
        good, verdict = judge_conversion(obs, gspec, tspec, data, fill,
                                         f"{glabel} -> Cartesian {tspec['bounds']!r}")
        labels.append(f"verdict:{verdict}")
        labels.append("inside-cells>=8" if int(good[3].sum()) >= 8 else "inside-cells<8")
        return {"nt": int(good[3].sum()) >= 4, "labels": labels,
                "key": [cls, gspec["radius"], gspec["shape"], relation, tspec, case["random_data"],
                        case["seed"] if case["random_data"] else case["profiles"]]}
    fill = float("nan")
    if relation == "divergence":
        # smooth vector field; spherical: radial only (operator precondition)
        data = np.zeros((len(names),) + tuple(grid.shape))
        for k, nm in enumerate(names):
            if cls == "sph" and nm != "r":
                continue
            data[k] = profs[k].f(r, z)
        V = pde.VectorField(grid, data)
        conv = V.interpolate_to_grid(tgrid, fill=fill)
        good, verdict = judge_conversion(conv.data, gspec, tspec, data, fill,
                                         f"{glabel} -> Cartesian {tspec['bounds']!r}")
        lhs = V.divergence(bc=BC).interpolate_to_grid(tgrid, fill=fill).data
        rhs = conv.divergence(bc=BC).data
        scale = max(scale_of(gspec, p) for p in profs)
    else:
        s = pde.ScalarField(grid, profs[0].f(r, z) + np.zeros(grid.shape))
        G = s.gradient(bc=BC)
        conv = G.interpolate_to_grid(tgrid, fill=fill)
        good, verdict = judge_conversion(conv.data, gspec, tspec, G.data, fill,
                                         f"gradient on {glabel} -> Cartesian {tspec['bounds']!r}")
        lhs = conv.data
        rhs = s.interpolate_to_grid(tgrid, fill=fill).gradient(bc=BC).data
        scale = scale_of(gspec, profs[0])
    # compare where the Cartesian stencil is complete and the radial position is in the
    # interior of the radial axis (two cells away from the faces)
    X, q = target_points(gspec, tspec)
    geo = ri.axis_geometry(gspec)
    dr = geo[0][3]
    mask = cart_interior_mask([np.atleast_1d(lhs), np.atleast_1d(rhs)])
    # (grids without a hole: the profiles a*r + b*r**2 have a cusp at the origin/axis, which the Cartesian
    # stencil of spacing h must not come close to either - discretisation error ~ (h/r)**2 of the scale; false
    # alarm of the thorough tier with h = 3.7*dr otherwise)
    h_cart = max((b[1] - b[0]) / k for b, k in zip(tspec["bounds"], tspec["shape"]))
    r_lo = geo[0][0] + (2.5 * dr if geo[0][0] > 0 else max(2.5 * dr, 2.5 * h_cart))
    mask &= (q["r"] >= r_lo) & (q["r"] <= geo[0][1] - 2.5 * dr)
    if cls == "cyl":
        dz = geo[1][3]
        mask &= (q["grid"][1] >= geo[1][0] + 2.5 * dz) & (q["grid"][1] <= geo[1][1] - 2.5 * dz)
    n = int(mask.sum())
    labels += [f"verdict:{verdict}", "compared>=8" if n >= 8 else ("compared>=1" if n else "compared:0")]
    if n:
        err = float(np.max(np.abs(lhs - rhs)[..., mask]))
        if not err <= 0.15 * scale:
            raise Violation(
                f"{glabel} -> Cartesian {tspec['bounds']!r} shape {tspec['shape']}: {relation} does not commute "
                f"with the conversion: discrepancy {err:.3g} = {err / scale:.2f} of the field scale "
                f"({n} cells compared)", key=f"conversion:{cls}:commutes:{relation}")
        labels.append("err<5%" if err < 0.05 * scale else "err<15%")
    return {"nt": n >= 4, "labels": labels,
            "key": [cls, gspec["radius"], gspec["shape"], relation, tspec, case["profiles"]]}


# ---------------------------------------------------------------------------------------
# exact consequences: uniform axial field, radial field
# ---------------------------------------------------------------------------------------
@st.composite
def axial_cases(draw):
    gspec = draw(curvilinear_grids(classes=("cyl",), n_lo=3, n_hi=10, nz_lo=2, nz_hi=8))
    return {"grid": gspec, "c": draw(st.one_of(st.sampled_from([1.0, -2.0, 0.0]),
                                          st.tuples(st.sampled_from([-1, 1]), st.floats(1e-3, 10)).map(
                                              lambda t: t[0] * t[1]))),
            "target": draw(target_strategy()), "route": draw(st.sampled_from(["name", "expression"]))}


def check_axial(case):
    gspec = case["grid"]
    grid = build_grid(gspec)
    c = case["c"]
    if case["route"] == "name":
        V = pde.VectorField(grid)
        V["z"] = c
    else:
        V = pde.VectorField.from_expression(grid, ["0", repr(c), "0"])
    tgrid, tspec = make_target(grid, gspec, case["target"])
    fill = case["target"]["fill"]
    obs = V.interpolate_to_grid(tgrid, fill=fill).data
    what = f"uniform axial field {c!r} e_z on {grid_label(gspec)} -> Cartesian {tspec['bounds']!r}"
    good, verdict = judge_conversion(obs, gspec, tspec, V.data.copy(), fill, what)
    # the consequence in the statement's words: a uniform z-field
    ins = good[3] & good[2]
    want = np.zeros((3,) + ins.shape)
    want[2] = c
    if np.any(ins) and not np.allclose(obs[:, ins], want[:, ins], rtol=0, atol=64 * EPS * abs(c)):
        raise Violation(f"{what}: result is not (0, 0, c)", key="conversion:cyl:uniform-axial")
    return {"nt": c != 0 and int(ins.sum()) >= 1,
            "labels": [f"grid:{grid_label(gspec)}", f"target:{case['target']['mode']}", f"verdict:{verdict}",
                       f"route:{case['route']}"],
            "key": ["cyl", gspec["shape"], gspec["radius"], tspec, case["route"], c]}


@st.composite
def radial_cases(draw):
    gspec = draw(curvilinear_grids(n_lo=3, n_hi=12, nz_lo=2, nz_hi=8))
    return {"grid": gspec, "target": draw(target_strategy()),
            "with_z": draw(st.booleans()), "scale": draw(st.sampled_from([1.0, -0.5, 3.0]))}


def check_radial(case):
    gspec = case["grid"]
    cls = gspec["cls"]
    grid = build_grid(gspec)
    names = order_of(gspec)
    r, z = mesh(gspec)
    a = case["scale"]
    V = pde.VectorField(grid)
    V["r"] = a * (r + np.zeros(grid.shape))
    with_z = cls == "cyl" and case["with_z"]
    if with_z:
        V["z"] = a * (z + np.zeros(grid.shape))
    tgrid, tspec = make_target(grid, gspec, case["target"])
    fill = case["target"]["fill"]
    obs = V.interpolate_to_grid(tgrid, fill=fill).data
    what = (f"position field {a!r} (r e_r{' + z e_z' if with_z else ''}) on {grid_label(gspec)} -> "
            f"Cartesian {tspec['bounds']!r}")
    good, verdict = judge_conversion(obs, gspec, tspec, V.data.copy(), fill, what)
    # the consequence in the statement's words: (x, y[, z]) in the interior
    X, q = target_points(gspec, tspec)
    want = a * np.moveaxis(X, -1, 0).copy()
    if cls == "cyl" and not with_z:
        want[2] = 0.0
    sel = good[4] & good[2]
    if cls == "cyl":
        geo = ri.axis_geometry(gspec)
        if not geo[1][4]:  # non-periodic z: affine in z only between the outer cell centres
            sel &= (q["grid"][1] >= geo[1][0] + 0.5 * geo[1][3]) & (q["grid"][1] <= geo[1][1] - 0.5 * geo[1][3])
        else:
            sel &= (q["grid"][1] >= geo[1][0] + 0.5 * geo[1][3]) & (q["grid"][1] <= geo[1][1] - 0.5 * geo[1][3])
    scale = abs(a) * float(np.max(np.abs(X))) + 1e-300
    if np.any(sel) and not np.allclose(obs[:, sel], want[:, sel], rtol=0, atol=1e-12 * scale):
        err = float(np.max(np.abs(obs[:, sel] - want[:, sel])))
        raise Violation(f"{what}: result differs from a*(x, y[, z]) by {err:.3g} in the interior",
                        key=f"conversion:{cls}:radial-field")
    return {"nt": int(sel.sum()) >= 1,
            "labels": [f"grid:{grid_label(gspec)}", f"target:{case['target']['mode']}", f"verdict:{verdict}",
                       f"with_z:{with_z}", "interior-cells>=4" if int(sel.sum()) >= 4 else "interior-cells<4"],
            "key": [cls, gspec["shape"], gspec["radius"], tspec, with_z, a]}


# ---------------------------------------------------------------------------------------
NT_CONV = "non-trivial = at least 4 target cells inside the domain (compared cells for the commuting relations)"

def _whole_case(fn):
    """distinctness = the whole case (the structural keys computed by the checks are coarser)"""
    def run(case):
        rec = fn(case)
        rec.pop("key", None)
        return rec
    run.__name__ = fn.__name__
    return run


# ---------------------------------------------------------------------------------------
# sub-check: bases on the symmetry axis (r = 0 exactly, and the polar axis theta in {0, pi})
# added after the independently seeded change C19-1 (generic Jacobian-based rotation, NaN at
# r = 0) was missed: there the Jacobian is singular, but the basis given by the angular
# coordinates is still the textbook one, finite, orthonormal and right-handed.
# ---------------------------------------------------------------------------------------
@st.composite
def axis_cases(draw):
    system = draw(st.sampled_from(["polar", "cyl", "sph"]))
    n = draw(st.integers(1, 4))
    pts = []
    for _ in range(n):
        r = draw(st.sampled_from([0.0, 0.0, -0.0, 5e-324, 1e-300]))
        if system == "polar":
            pts.append([r, draw(angle(0, 2 * math.pi))])
        elif system == "cyl":
            pts.append([r, draw(angle(0, 2 * math.pi)), draw(st.floats(-1e3, 1e3))])
        else:
            th = draw(st.one_of(st.floats(0.05, math.pi - 0.05), st.sampled_from([0.0, math.pi, math.pi / 2])))
            rr = r if draw(st.booleans()) else draw(radius())
            pts.append([rr, th, draw(angle(0, 2 * math.pi))])
    return {"system": system, "points": pts, "batch": draw(st.booleans())}


def check_axis(case):
    system = case["system"]
    c = make_system(system, None)
    pts = np.array(case["points"], dtype=float)
    dim = c.dim
    if case["batch"]:
        R = np.asarray(c.basis_rotation(pts))
    else:
        R = np.stack([np.asarray(c.basis_rotation(p)) for p in pts], axis=-1)
    for k, p in enumerate(pts):
        Rk = R[:, :, k]
        where = f"{system} point {p.tolist()!r} (on the symmetry axis)"
        if not np.all(np.isfinite(Rk)):
            raise Violation(f"{where}: basis_rotation is not finite: {Rk.tolist()!r}", key=f"axis:{system}:finite")
        if not np.allclose(Rk @ Rk.T, np.eye(dim), atol=1e-12, rtol=0):
            raise Violation(f"{where}: basis_rotation is not orthonormal", key=f"axis:{system}:orthonormal")
        if abs(float(np.linalg.det(Rk)) - 1) > 1e-12:
            raise Violation(f"{where}: basis is not right-handed", key=f"axis:{system}:right-handed")
        e = unit_vectors("sph", theta=p[1], phi=p[2]) if system == "sph" else unit_vectors(system, phi=p[1])
        for j, name in enumerate(SYSTEM_ORDER[system]):
            if not np.allclose(Rk[j], e[name], atol=1e-13, rtol=0):
                raise Violation(f"{where}: basis vector e_{name} is {Rk[j].tolist()!r}, textbook "
                                f"{e[name].tolist()!r}", key=f"axis:{system}:closed-form:{name}")
        comps = np.arange(1.0, dim + 1)
        got = np.asarray(c.vec_to_cart(p, comps))
        want = sum(comps[j] * e[name] for j, name in enumerate(SYSTEM_ORDER[system]))
        if not np.allclose(got, want, atol=1e-12, rtol=0):
            raise Violation(f"{where}: vec_to_cart gives {got.tolist()!r}, expected {np.asarray(want).tolist()!r}",
                            key=f"axis:{system}:vec_to_cart")
    return {"nt": True, "labels": [f"system:{system}", f"batch:{case['batch']}"]}


# ---------------------------------------------------------------------------------------
# image data of a vector field on a polar grid (the data behind quiver/stream plots; after missed seed
# C19-5: the basis rotation was evaluated at phi = 0 for every image point)
# ---------------------------------------------------------------------------------------
@st.composite
def vector_image_cases(draw):
    gspec = draw(curvilinear_grids(classes=("polar",), n_lo=3, n_hi=12))
    return {"grid": gspec, "seed": draw(st.integers(0, 2**31)), "random_data": draw(st.booleans()),
            "profiles": [draw(profile_spec()), draw(profile_spec())],
            "transpose": draw(st.sampled_from([False, False, True]))}


def check_vector_image(case):
    gspec = case["grid"]
    grid = build_grid(gspec)
    names = order_of(gspec)  # ("r", "phi")
    r, z = mesh(gspec)
    if case["random_data"]:
        data = rng_array(case["seed"], (2,) + tuple(grid.shape), "f8")
    else:
        data = np.stack([Profile(p, gspec).f(r, z) + np.zeros(grid.shape) for p in case["profiles"]])
    V = pde.VectorField(grid, data)
    img = V.get_vector_data(transpose=case["transpose"])
    # the scalar images of the two stored components (independent of any basis rotation)
    comp = {nm: grid.get_image_data(data[k]) for k, nm in enumerate(names)}
    xs, ys = comp["r"]["xs"], comp["r"]["ys"]
    vr, vp = np.asarray(comp["r"]["data"], dtype=float), np.asarray(comp["φ"]["data"], dtype=float)
    phi = np.arctan2(ys, xs)
    want_x = vr * np.cos(phi) - vp * np.sin(phi)
    want_y = vr * np.sin(phi) + vp * np.cos(phi)
    got_x, got_y = np.asarray(img["data_x"], dtype=float), np.asarray(img["data_y"], dtype=float)
    if case["transpose"]:
        # documented: x and y (and the data arrays) are exchanged
        got_x, got_y = got_y.T, got_x.T
    if got_x.shape != want_x.shape or got_y.shape != want_y.shape:
        raise Violation(f"vector image of shape {got_x.shape}/{got_y.shape}, scalar images of shape {want_x.shape}",
                        key="vector-image:shape")
    ok = np.isfinite(want_x) & np.isfinite(want_y)
    rr = np.hypot(xs, ys)
    ok &= rr > 1e-9  # (phi is undefined at the origin)
    if np.any(np.isfinite(got_x) != np.isfinite(want_x)):
        raise Violation("vector image is defined at other points than the scalar images of its components",
                        key="vector-image:mask")
    scale = float(np.max(np.abs(data))) + 1e-300
    n = int(ok.sum())
    if n:
        err = max(float(np.max(np.abs(got_x - want_x)[ok])), float(np.max(np.abs(got_y - want_y)[ok])))
        if not err <= 64 * EPS * scale:
            i = np.unravel_index(int(np.argmax(np.where(ok, np.abs(got_x - want_x) + np.abs(got_y - want_y), 0))),
                                 want_x.shape)
            raise Violation(
                f"{grid_label(gspec)}: image data of the vector field at (x, y) = ({xs[i]:.4g}, {ys[i]:.4g}) is "
                f"({got_x[i]!r}, {got_y[i]!r}) but the stored components (v_r, v_phi) = ({vr[i]!r}, {vp[i]!r}) "
                f"along e_r, e_phi at phi = {phi[i]:.4g} give ({want_x[i]!r}, {want_y[i]!r})",
                key="vector-image:polar:rotation")
    off_axis = bool(np.any(ok & (np.abs(np.sin(phi)) > 0.3)))
    return {"nt": n >= 4 and off_axis, "labels": [f"grid:{grid_label(gspec)}", f"transpose:{case['transpose']}",
                                                 "random" if case["random_data"] else "profile"],
            "key": [gspec["radius"], gspec["shape"], case["seed"], case["random_data"], case["transpose"]]}


SUBCHECKS = [
    SubCheck("vector_image_polar", strategy=vector_image_cases, check=check_vector_image, mode="pure",
             budget={"quick": 200, "thorough": 3000}, shards={"quick": 1, "thorough": 1},
             rule="VectorField.get_vector_data on polar grids against the scalar images of the stored components "
                  "rotated by the textbook unit vectors; non-trivial = >= 4 image points, some off the x axis"),
    SubCheck("bases_on_axis", strategy=axis_cases, check=check_axis, mode="pure",
             budget={"quick": 200, "thorough": 3000}, shards={"quick": 1, "thorough": 1},
             rule="non-trivial = every case (points with r = 0 or theta in {0, pi})"),
    SubCheck("bases", strategy=bases_cases, check=check_bases, mode="pure",
             budget={"quick": 600, "thorough": 10000}, shards={"quick": 1, "thorough": 2},
             rule="non-trivial = curvilinear system (every point checks orthonormality, handedness, Jacobian "
                  "columns, finite differences, closed forms, vec_to_cart)"),
    SubCheck("by_name_access", strategy=by_name_cases, check=check_by_name, mode="nojit",
             budget={"quick": 480, "thorough": 8000}, shards={"quick": 4, "thorough": 12},
             rule="non-trivial = every case (single-component field vs continuum formula)"),
    SubCheck("getitem_label", strategy=label_cases, check=check_label, mode="pure",
             budget={"quick": 40, "thorough": 200}, shards={"quick": 1, "thorough": 1},
             rule="non-trivial = every case"),
    SubCheck("from_expression_order", strategy=expression_cases, check=check_expression, mode="pure",
             budget={"quick": 150, "thorough": 3000}, shards={"quick": 1, "thorough": 2},
             rule="non-trivial = at least two distinct component expressions"),
    SubCheck("dot_outer_order", strategy=dot_cases, check=check_dot, mode="nojit",
             budget={"quick": 200, "thorough": 3000}, shards={"quick": 1, "thorough": 2},
             rule="non-trivial = every case (random components)"),
    SubCheck("dot_outer_order_jit", strategy=dot_cases, check=check_dot, mode="jit",
             budget={"quick": 8, "thorough": 120}, shards={"quick": 2, "thorough": 6},
             time_limit={"quick": 120, "thorough": 1500},
             rule="as dot_outer_order with really compiled operators (overload bodies of dot/outer)"),
    SubCheck("conversion_commutes_polar", strategy=lambda: commute_cases("polar"), check=check_commute,
             mode="nojit", budget={"quick": 160, "thorough": 3000}, shards={"quick": 2, "thorough": 4},
             rule=NT_CONV),
    SubCheck("conversion_commutes_spherical", strategy=lambda: commute_cases("sph"), check=check_commute,
             mode="nojit", budget={"quick": 120, "thorough": 2000}, shards={"quick": 2, "thorough": 4},
             rule=NT_CONV),
    SubCheck("conversion_commutes_cylindrical", strategy=lambda: commute_cases("cyl"), check=check_commute,
             mode="nojit", budget={"quick": 120, "thorough": 2000}, shards={"quick": 2, "thorough": 4},
             rule=NT_CONV),
    SubCheck("uniform_axial", strategy=axial_cases, check=check_axial, mode="nojit",
             budget={"quick": 80, "thorough": 1500}, shards={"quick": 1, "thorough": 2},
             rule="non-trivial = c != 0 and a target cell inside the domain"),
    SubCheck("radial_field", strategy=radial_cases, check=check_radial, mode="nojit",
             budget={"quick": 160, "thorough": 2500}, shards={"quick": 1, "thorough": 2},
             rule="non-trivial = at least one target cell in the interior of the radial axis"),
]

for _s in SUBCHECKS:
    _s.check = _whole_case(_s.check)
