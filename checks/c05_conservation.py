"""C05 - discrete conservation: no-flux Laplacian and divergence integrate to zero.

Operator part: the volume-weighted sum of the discrete Laplacian with periodic/zero-flux
conditions vanishes for every input (random fields and one-hot fields = column sums of the
operator matrix, so a violation names the offending cell); the same for the divergence of
vector fields with vanishing normal boundary component on Cartesian and (conservative)
spherical grids.  Simulation part: diffusion-type and Cahn-Hilliard-type simulations keep
the integral at every step for any step size and solver.
Cell volumes come from the harness' own closed forms (not from ``grid.cell_volumes``).
"""

from __future__ import annotations

import math
import warnings

import numpy as np
from hypothesis import strategies as st

from vlib import env

env.setup()

import pde  # noqa: E402

from vlib import gen_bcs as gb  # noqa: E402
from vlib import gen_fields as gf  # noqa: E402
from vlib.core import Rejected, SubCheck, Violation  # noqa: E402
from vlib.gen_grids import axes_bounds, build_grid, dim_of, grid_label, grids, rng_array  # noqa: E402

PROPERTY = "C05"
RULE = ("operator cases = (grid, zero-flux BC assignment, dtype, data or one-hot index); simulation cases = "
        "(grid, equation, solver, backend, dt, steps, seed); distinct = all structural entries of the case")
ASSUMPTIONS = [
    "zero-flux family: periodic on periodic axes, derivative 0 / auto_periodic_neumann elsewhere; on hole-free "
    "grids the inner side may carry any condition (its stencil weight must vanish)",
    "spherical non-conservative stencils and polar/cylindrical divergence are outside the statement",
    "simulations are judged while the state is finite; ConvergenceError of implicit solvers = rejected",
]
EPS = np.finfo(float).eps


def exact_cell_volumes(gspec):
    """closed-form cell volumes, independent of grid.cell_volumes"""
    bnds = axes_bounds(gspec)
    shape = gspec["shape"]
    edges = [lo + (hi - lo) / n * np.arange(n + 1) for (lo, hi), n in zip(bnds, shape)]
    cls = gspec["cls"]
    if cls in ("unit", "cart"):
        # uniform cells: the width (hi - lo)/n itself, not differences of the edges lo + k*dx, which vary from cell
        # to cell by eps*|lo|/dx for grids far from the origin and spoil the telescoping of the sum (false alarm of
        # the thorough tier: bounds [8, 8.01], 6 cells)
        vol = np.ones(())
        for (lo, hi), n in zip(bnds, shape):
            vol = np.multiply.outer(vol, np.full(n, (hi - lo) / n))
        return vol
    r = edges[0]
    if cls == "polar":
        return math.pi * (r[1:] ** 2 - r[:-1] ** 2)
    if cls == "sph":
        return 4 * math.pi / 3 * (r[1:] ** 3 - r[:-1] ** 3)
    (zlo, zhi), nz = bnds[1], shape[1]
    return np.multiply.outer(math.pi * (r[1:] ** 2 - r[:-1] ** 2), np.full(nz, (zhi - zlo) / nz))


@st.composite
def zero_flux_bc(draw, gspec, rank, dtype, normal_value=False):
    """semantic zero-flux assignment (see ASSUMPTIONS)"""
    axes = []
    hole_free_inner = gspec["cls"] in ("polar", "sph", "cyl") and gspec["radius"][0] == 0
    for a, per in enumerate(gspec["periodic"]):
        if per:
            axes.append("periodic")
            continue
        if normal_value:
            kind = draw(st.sampled_from(["value", "normal_value"]))
            s = {"kind": "value", "normal": kind == "normal_value", "alias": 0, "typed": False,
                 "v": {"t": "num", "x": 0.0}}
        else:
            s = {"kind": "derivative", "normal": False, "alias": draw(st.integers(0, 1)), "typed": False,
                 "v": {"t": "num", "x": 0.0}}
        low, high = dict(s), dict(s)
        if a == 0 and hole_free_inner and draw(st.booleans()):
            # arbitrary condition at r = 0: must not matter
            kinds = ("value", "derivative", "mixed") + (("curvature",) if gspec["shape"][0] >= 2 else ())
            k = draw(st.sampled_from(kinds))
            low = {"kind": k, "normal": False, "alias": 0, "typed": True,
                   "v": {"t": "num", "x": draw(st.floats(-3, 3))}}
            if k == "mixed":
                low["v"]["x"] = abs(low["v"]["x"])
                low["c"] = {"t": "num", "x": draw(st.floats(-3, 3))}
        axes.append({"low": low, "high": high})
    style = draw(st.sampled_from(["sides", "named", "objects"]))
    return {"rank": rank, "axes": axes, "style": style, "alt": False}


@st.composite
def op_cases(draw, kind):
    if kind == "laplace":
        gspec = draw(grids(max_cells=7, max_total=200, len_lo=1e-2, len_hi=1e2, offset_mag=10.0))
        rank = 0
    else:
        gspec = draw(grids(classes=("unit", "cart", "sph"), max_cells=7, max_total=200, len_lo=1e-2,
                           len_hi=1e2, offset_mag=10.0))
        rank = 1
    dtype = draw(st.sampled_from(["f8", "f8", "c16"]))
    use_auto = kind == "laplace" and draw(st.integers(0, 4)) == 0
    bc = None if use_auto else draw(zero_flux_bc(gspec, rank, dtype, normal_value=(kind != "laplace")))
    onehot = draw(st.booleans())
    case = {"grid": gspec, "kind": kind, "dtype": dtype, "bc": bc, "seed": draw(st.integers(0, 2**31)),
            "onehot": None,
            # (after missed seed C05-6) "make_operator": the operator with the boundary conditions built in,
            # as compiled right-hand sides use it - its ghost cells are set by the numba backend's own setter
            "route": draw(st.sampled_from(["field", "make_operator"])),
            # an unrelated configuration switch turned off (after missed seed C05-7: the conservative default of
            # the spherical divergence was read from `operators.tensor_symmetry_check`)
            "no_symmetry_check": draw(st.sampled_from([False, False, True]))}
    if onehot:
        ncomp = dim_of(gspec) ** rank
        n = int(np.prod(gspec["shape"])) * ncomp
        case["onehot"] = draw(st.integers(0, n - 1))
    if gspec["cls"] == "sph" and draw(st.booleans()):
        case["explicit_conservative"] = True
    if kind == "laplace" and gspec["cls"] in ("unit", "cart") and len(gspec["shape"]) == 2 \
            and draw(st.integers(0, 2)) == 0:
        # documented 9-point stencil (reads the corner ghost cells)
        case["corner_weight"] = draw(st.sampled_from([1 / 3, 0.5, 0.2]))
    return case


def check_operator(case):
    if not case.get("no_symmetry_check"):
        return _check_operator(case)
    old = pde.config["operators.tensor_symmetry_check"]
    pde.config["operators.tensor_symmetry_check"] = False
    try:
        rec = _check_operator(case)
        rec["labels"].append("config:tensor_symmetry_check=False")
        return rec
    finally:
        pde.config["operators.tensor_symmetry_check"] = old


def _check_operator(case):
    gspec, kind, dtype = case["grid"], case["kind"], case["dtype"]
    grid = build_grid(gspec)
    rank = 0 if kind == "laplace" else 1
    if case["onehot"] is not None:
        data = np.zeros((dim_of(gspec),) * rank + tuple(gspec["shape"]), dtype={"f8": float, "c16": complex}[dtype])
        data.flat[case["onehot"]] = 1.0 if dtype == "f8" else 1.0 - 2.0j
        gf.symmetrize(gspec, rank, data)
    else:
        data = gf.field_data(gspec, rank, case["seed"], dtype, "normal")
    cls = [pde.ScalarField, pde.VectorField][rank]
    field = cls(grid, data, dtype=data.dtype)
    if case["bc"] is None:
        bcs = "auto_periodic_neumann"
    else:
        bcs, _ = gb.make_boundaries(case["bc"], gspec, grid, dtype)
    opts = {"conservative": True} if case.get("explicit_conservative") else {}
    if case.get("corner_weight"):
        opts["corner_weight"] = case["corner_weight"]
    opname = "laplace" if kind == "laplace" else "divergence"
    if case.get("route", "field") == "make_operator":
        op = grid.make_operator(opname, bcs, backend="numba", **opts)
        res = pde.ScalarField(grid, op(data.copy()), dtype=data.dtype)
        field.set_ghost_cells(bcs)  # (only for the magnitude that enters the bound below)
    else:
        res = field.apply_operator(opname, bcs, **opts)
    vol = exact_cell_volumes(gspec)
    total = np.sum(vol * res.data)
    _, _, order = gf.op_info(opname)
    umax = gf.noncorner_max(field._data_full, len(gspec["shape"]))
    # thin shells: the cell volumes pi*(r+^2 - r-^2) etc. (the harness' and the grid's alike) are
    # only defined to a relative eps*r/dr, which enters the sum like a perturbation of the
    # telescoping weights (false alarm found by the multi-seed sweep: annulus [10, 10.01], 2 cells)
    kappa = 0.0
    if gspec["cls"] in ("polar", "sph", "cyl"):
        kappa = gspec["radius"][1] / ((gspec["radius"][1] - gspec["radius"][0]) / gspec["shape"][0])
    bound = (256 + 16 * kappa) * EPS * float(np.sum(vol)) * gf.weight_bound(gspec, order) * umax + 1e-300
    if not abs(total) <= bound:
        where = ""
        if case["onehot"] is not None:
            where = f" (column of cell/component index {case['onehot']})"
        raise Violation(
            f"volume-weighted sum of {opname} is {total!r}, bound {bound:.3g}{where}; grid={grid_label(gspec)} "
            f"shape={gspec['shape']} bc={'auto' if case['bc'] is None else gb.bc_kinds_key(case['bc'])}",
            key=f"{opname}:{gspec['cls']}:{'hole' if gspec.get('radius', [0])[0] > 0 else 'nohole'}")
    # the same through the public integral of the result field
    integ = res.integral
    vtot = float(np.sum(vol))
    if not abs(integ - total) <= 64 * EPS * (vtot * np.max(np.abs(res.data)) if res.data.size else 0) + bound:
        raise Violation(f"field.integral {integ!r} differs from the volume-weighted sum {total!r}",
                        key=f"integral:{gspec['cls']}")
    boundary_grad = bool(np.any(data != 0))
    labels = [f"grid:{grid_label(gspec)}", f"op:{opname}", f"route:{case.get('route', 'field')}",
              "onehot" if case["onehot"] is not None else "dense",
              f"dtype:{dtype}", "bc:auto" if case["bc"] is None else f"bc:{case['bc']['style']}"]
    if case.get("corner_weight"):
        labels.append("9-point-stencil")
    return {"nt": boundary_grad and min(gspec["shape"]) >= 1, "labels": labels}


# ---------------------------------------------------------------------------------------
SOLVERS = ["euler", "runge-kutta", "implicit", "crank-nicolson", "adams-bashforth", "scipy"]
# "expr-two": two species, the first with a reservoir (Dirichlet) condition given per operator via bc_ops, the
# second - the judged one - with the general no-flux conditions (after missed seed C05-5: operators built for the
# first variable were reused for the later ones)
EQUATIONS = ["diffusion", "cahn-hilliard", "expr-ch", "expr-two", "expr-div"]


@st.composite
def sim_cases(draw, jit=False):
    gspec = draw(grids(min_cells=2, max_cells=5 if not jit else 4, max_total=60, len_lo=0.5, len_hi=20,
                       offset_mag=5.0, max_axes=2))
    eq = draw(st.sampled_from(EQUATIONS if gspec["cls"] in ("unit", "cart") else EQUATIONS[:4]))
    solver = draw(st.sampled_from(SOLVERS))
    backend = draw(st.sampled_from(["numpy", "numba"]))
    dt = 10.0 ** draw(st.floats(-5, 0))
    steps = draw(st.integers(1, 30 if not jit else 8))
    return {"grid": gspec, "eq": eq, "solver": solver, "backend": backend, "dt": dt, "steps": steps,
            "seed": draw(st.integers(0, 2**31)), "param": draw(st.sampled_from([1.0, 0.5, 2.0, 0.1])),
            "tracker": draw(st.sampled_from(["data", "material", "both"])),
            "explicit_bc": draw(st.booleans()),
            # Cahn-Hilliard: the concentration may carry any (wetting) condition as long as the
            # chemical potential has no flux; added after the seeded change C05-3 (compiled rate
            # built the second Laplacian with bc_c) was missed with bc_c == bc_mu
            "bc_c": draw(st.sampled_from(["same", "same", "derivative", "value", "mixed"])),
            "bc_c_value": draw(st.sampled_from([0.4, -0.3, 1.0]))}


def check_simulation(case):
    gspec = case["grid"]
    grid = build_grid(gspec)
    data = rng_array(case["seed"], tuple(gspec["shape"]), "f8", "uniform", 1.0)
    state = pde.ScalarField(grid, data)
    bc = "auto_periodic_neumann"
    if case["explicit_bc"]:
        names = gb.axis_names(gspec)
        bc = {nm: ("periodic" if per else {"derivative": 0}) for nm, per in zip(names, gspec["periodic"])}
    p = case["param"]
    two = False
    if case["eq"] == "diffusion":
        eq = pde.DiffusionPDE(p, bc=bc)
    elif case["eq"] == "cahn-hilliard":
        bc_c = bc
        if case.get("bc_c", "same") != "same":
            v = case["bc_c_value"]
            side = {"derivative": {"derivative": v}, "value": {"value": v},
                    "mixed": {"type": "mixed", "value": abs(v), "const": v}}[case["bc_c"]]
            names = gb.axis_names(gspec)
            bc_c = {nm: ("periodic" if per else side) for nm, per in zip(names, gspec["periodic"])}
        eq = pde.CahnHilliardPDE(p, bc_c=bc_c, bc_mu=bc)
    elif case["eq"] == "expr-ch":
        eq = pde.PDE({"c": f"laplace(c**3 - c - {p} * laplace(c))"}, bc=bc)
    elif case["eq"] == "expr-two":
        names = gb.axis_names(gspec)
        bc_a = {nm: ("periodic" if per else {"value": case["bc_c_value"]}) for nm, per in zip(names, gspec["periodic"])}
        eq = pde.PDE({"a": "laplace(a) - 0.5 * a", "b": f"{p} * laplace(b)"}, bc=bc, bc_ops={"a:laplace": bc_a})
        two = True
        state = pde.FieldCollection([pde.ScalarField(grid, rng_array(case["seed"] + 1, tuple(gspec["shape"]), "f8",
                                                                     "uniform", 1.0)), state])
    else:
        eq = pde.PDE({"c": f"divergence({p} * (1 + c**2) * gradient(c))"}, bc=bc,
                     bc_ops={"c:divergence": bc_flux(gspec)})
    vol = exact_cell_volumes(gspec)
    record = []

    def judged_data(s):
        return s[1].data if two else s.data

    def observe(s, t):
        d = judged_data(s)
        record.append((t, float(np.sum(vol * d)), bool(np.all(np.isfinite(s.data))), float(np.sum(vol * np.abs(d)))))

    dt, n = case["dt"], case["steps"]
    if case["solver"] in ("implicit", "crank-nicolson"):
        # the fixed-point iterations of these solvers only converge for dt*|L| < 1; keep the
        # (documented) ConvergenceError rare instead of rejecting a fifth of the cases
        dxmin = min((hi - lo) / k for (lo, hi), k in zip(axes_bounds(gspec), gspec["shape"]))
        limit = 0.1 * dxmin**2 / max(p, 1.0) if case["eq"] in ("diffusion", "expr-div", "expr-two") \
            else 0.02 * dxmin**4 / max(p, 1.0)
        dt = min(dt, limit)
    trackers = [pde.CallbackTracker(observe, interrupts=dt)]
    if case["tracker"] in ("material", "both") and not two:  # (the first species is not conserved)
        trackers.append(pde.trackers.MaterialConservationTracker(interrupts=dt))
    kwargs = {}
    if case["solver"] == "scipy":
        kwargs = {"method": "RK45"}
    with warnings.catch_warnings():
        warnings.simplefilter("ignore")
        np_err = np.seterr(all="ignore")
        try:
            final, info = eq.solve(state, t_range=n * dt, dt=dt, solver=case["solver"], backend=case["backend"],
                                   tracker=trackers, ret_info=True, **kwargs)
        except pde.solvers.base.ConvergenceError as e:
            raise Rejected(f"ConvergenceError: {e}")
        finally:
            np.seterr(**np_err)
    i0 = float(np.sum(vol * data))
    scale = float(np.sum(vol * np.abs(data)))
    finite_end = bool(np.all(np.isfinite(final.data)))
    final_data = judged_data(final)
    stop = info["controller"].get("stop_reason", "")
    judged = 0
    for k, (t, integ, finite, absint) in enumerate(record):
        if not finite or not math.isfinite(integ):
            break
        scale = max(scale, absint)
        steps_done = max(1, round(t / dt)) if case["solver"] != "scipy" else max(1, 20 * (k + 1))
        tol = 256 * EPS * scale * steps_done * 4 + 1e-300
        if not abs(integ - i0) <= tol:
            raise Violation(
                f"integral drifted from {i0!r} to {integ!r} at t={t!r} (|diff|={abs(integ - i0):.3g} > {tol:.3g}); "
                f"eq={case['eq']} solver={case['solver']} backend={case['backend']} grid={grid_label(gspec)} dt={dt!r}",
                key=f"sim:{case['eq']}:{gspec['cls']}")
        judged += 1
    bounded = all(r[3] <= 100 * max(1e-3, float(np.sum(vol * np.abs(data)))) for r in record)
    if finite_end and bounded and case["tracker"] in ("material", "both") and "conserv" in str(stop).lower():
        raise Violation(f"MaterialConservationTracker stopped a conserving simulation: {stop}",
                        key="sim:material-tracker")
    if finite_end:
        integ = float(np.sum(vol * final_data))
        sc = max(scale, float(np.sum(vol * np.abs(final_data))))
        tol = 256 * EPS * sc * max(1, n if case["solver"] != "scipy" else 50 * n) * 4
        if not abs(integ - i0) <= tol:
            raise Violation(
                f"final integral {integ!r} != initial {i0!r} (|diff|={abs(integ - i0):.3g} > {tol:.3g}); "
                f"eq={case['eq']} solver={case['solver']} backend={case['backend']} grid={grid_label(gspec)}",
                key=f"sim-final:{case['eq']}:{gspec['cls']}")
    labels = [f"grid:{grid_label(gspec)}", f"eq:{case['eq']}", f"solver:{case['solver']}", f"backend:{case['backend']}",
              "finite-end" if finite_end else "blow-up", f"tracker:{case['tracker']}",
              f"bc_c:{case.get('bc_c', 'same')}" if case["eq"] == "cahn-hilliard" else "bc_c:n/a",
              "bounded" if bounded else "unbounded"]
    return {"nt": n >= 2 and finite_end, "labels": labels}


def bc_flux(gspec):
    """vanishing normal flux for the divergence of the flux vector (Cartesian grids)"""
    names = gb.axis_names(gspec)
    return {nm: ("periodic" if per else {"value": 0}) for nm, per in zip(names, gspec["periodic"])}


SUBCHECKS = [
    SubCheck("laplace_sums", strategy=lambda: op_cases("laplace"), check=check_operator, mode="nojit",
             budget={"quick": 3000, "thorough": 50000}, shards={"quick": 3, "thorough": 12},
             rule="non-trivial = non-zero input (dense random or one-hot column of the operator matrix)"),
    SubCheck("divergence_sums", strategy=lambda: op_cases("divergence"), check=check_operator, mode="nojit",
             budget={"quick": 2000, "thorough": 30000}, shards={"quick": 2, "thorough": 8},
             rule="non-trivial = non-zero input (dense random or one-hot column of the operator matrix)"),
    SubCheck("laplace_sums_jit", strategy=lambda: op_cases("laplace"), check=check_operator, mode="jit",
             budget={"quick": 240, "thorough": 6000}, shards={"quick": 2, "thorough": 8},
             time_limit={"quick": 120, "thorough": 1500},
             rule="as laplace_sums with compiled raw operators (fast-math, prange)"),
    SubCheck("divergence_sums_jit", strategy=lambda: op_cases("divergence"), check=check_operator, mode="jit",
             budget={"quick": 160, "thorough": 4000}, shards={"quick": 1, "thorough": 6},
             time_limit={"quick": 120, "thorough": 1500},
             rule="as divergence_sums with compiled raw operators"),
    SubCheck("simulation_nojit", strategy=sim_cases, check=check_simulation, mode="nojit",
             budget={"quick": 500, "thorough": 8000}, shards={"quick": 5, "thorough": 16},
             rule="non-trivial = >= 2 steps and finite end state"),
    SubCheck("simulation_jit", strategy=lambda: sim_cases(jit=True), check=check_simulation, mode="jit",
             budget={"quick": 8, "thorough": 160}, shards={"quick": 3, "thorough": 16},
             time_limit={"quick": 120, "thorough": 1500}, rule="non-trivial = >= 2 steps and finite end state"),
]
