"""C20 - in-memory storage returns exactly what was stored, in order.

``StorageMachine``: a population of :class:`~pde.storage.memory.MemoryStorage` objects (the
main one plus storages derived from it by ``extract_field``, ``extract_time_range``,
``copy`` and ``apply``), each paired with a reference model written from the
documentation: a Python list of ``(time, array copy taken at append time)``, the template
description (class, grid, labels, dtype), the data shape, the write mode and whether a
writing session is open.  After every operation every storage of the population is read
completely and compared with its model; source fields and fields read back earlier are
compared with the harness' own copies (so writes that leak in either direction are seen).
The fields of one history have different data types (int64, float64, complex128): a frame
keeps the values (in the model also the dtype) it had when it was appended, whatever the
storage held before (``storage.data[i]`` is compared by value); a field read back is the
frame written into a copy of the template set by the last successful ``start_writing``
(class, grid, labels and dtype of that template), with values equal to the frame whenever the
frame's dtype casts safely to the template's.

``tracker_driven_storage``: one or two short ``solve`` calls (``backend='numpy'``) writing
through ``storage.tracker(...)`` into one storage; a callback tracker with the same
interrupt specification records ``(t, state)`` independently; the storage must contain the
recorded frames of the surviving sessions according to the write mode.
"""

from __future__ import annotations

import contextlib
import warnings

import numpy as np
from hypothesis import strategies as st

from vlib import env

env.setup()

import pde  # noqa: E402
from pde import FieldCollection, MemoryStorage, ScalarField, Tensor2Field, VectorField  # noqa: E402
from pde.storage.memory import get_memory_storage  # noqa: E402

from vlib import gen_grids  # noqa: E402
from vlib.core import History, SubCheck, Violation  # noqa: E402
from vlib.hist_util import expect_rejection, guard_class  # noqa: E402

PROPERTY = "C20"
RULE = ("histories over a population of memory storages (main + derived); distinct = whole "
        "history (init, operation list); tracker sub-check: distinct = whole case")
ASSUMPTIONS = [
    "the fields of one history have different dtypes (int64 for single fields, float64, "
    "complex128; small multiples of 1/2, so int -> float -> complex casts are exact). A stored frame "
    "keeps the values it had when appended, whatever was stored before (storage.data[i] is compared "
    "by value in every state; the dtype in which a frame is kept is not asserted); a field read "
    "(storage[i], slices, iteration, items(), view_field, and therefore copy/apply) is the frame "
    "assigned into a copy of the template of "
    "the last successful start_writing, so it has that template's dtype. On the unchanged tree "
    "this round-trips exactly whenever the frame's dtype casts safely to the template's dtype "
    "(same dtype; narrower field appended in a wider session; later session - after clear(), "
    "clear(clear_data_shape=True), in 'truncate' mode or on top of the old frames in 'append' "
    "mode - whose template is wider): these reads are held to the stored values",
    "what stays excluded because it loses information on the unchanged tree: a frame read through "
    "a NARROWER template (complex frame/real template discards the imaginary part with NumPy's "
    "ComplexWarning, float frame/int template truncates). It arises from a wider field appended "
    "inside a session started with a narrower one (fields 'like the example given to "
    "start_writing' is taken as the documented precondition of append), from an 'append'-mode "
    "session with a narrower template on top of wider frames, and from apply(f + t) on an int "
    "storage with mixed int/float time stamps. These are generated rarely (the storage accepts "
    "them); for such a frame only storage.data[i], times, class, grid, labels and dtype of the read "
    "are asserted, not the values of the read, and copy/apply/view_field are not generated for a "
    "storage while it holds such a frame",
    "collections of int fields are not generated (FieldCollection converts integer members to "
    "float64 unless a dtype is forced); the tracker sub-check uses one dtype per case",
    "append is only generated inside a writing session (between a successful start_writing and "
    "end_writing) or on a storage whose data shape is unset (documented rejection); append on a "
    "closed or read-only storage is not documented either way",
    "clear() is not generated for read-only storages (not documented either way)",
    "extract_time_range is only generated for non-decreasing time stamps (it uses a sorted "
    "search), and with an open end (None) only on non-empty storages (the code raises IndexError "
    "on an empty one)",
    "fields returned by view_field are not modified (its docstring says such writes modify the "
    "storage, the property says reads never do - neither is asserted)",
    "extract_time_range results are documented as possible views: storages related by it are "
    "never written to in place (storage.data[k][...] = x)",
    "labels/class/dtype of all fields read are those of the current template (the storage keeps "
    "one template; start_writing replaces it)",
]

CLS = {"scalar": "ScalarField", "vector": "VectorField", "tensor": "Tensor2Field",
       "coll": "FieldCollection"}
RANK = {"scalar": 0, "vector": 1, "tensor": 2}
KIND_OF_RANK = {0: "scalar", 1: "vector", 2: "tensor"}
FIELD_CLS = {"scalar": ScalarField, "vector": VectorField, "tensor": Tensor2Field}
MODES = ["truncate_once", "truncate", "append", "readonly"]
ANY = "<any>"


# =====================================================================================
# plain-data field specifications
# =====================================================================================
DTYPES = {"f8": "float64", "c16": "complex128", "i8": "int64"}


def np_dtype(code):
    return np.dtype(DTYPES[code])


def exact_cast(src, dst):
    """values of dtype ``src`` survive the assignment into an array of dtype ``dst``"""
    return bool(np.can_cast(src, dst, "safe"))


def spec_members(spec):
    """list of (kind, label) of the members (a single field is its own only member)"""
    if spec["kind"] == "coll":
        return [(KIND_OF_RANK[r], lab) for r, lab in zip(spec["ranks"], spec["labels"])]
    return [(spec["kind"], spec["label"])]


def spec_rows(spec, dim):
    """row ranges of the members in the flattened component layout"""
    rows, start = [], 0
    for kind, _ in spec_members(spec):
        n = dim ** RANK[kind]
        rows.append((start, start + n))
        start += n
    return rows


def spec_shape(spec, gspec):
    dim = gen_grids.dim_of(gspec)
    shape = tuple(gspec["shape"])
    if spec["kind"] == "coll":
        return (sum(dim ** r for r in spec["ranks"]),) + shape
    return (dim,) * RANK[spec["kind"]] + shape


def member_shape(kind, gspec):
    return (gen_grids.dim_of(gspec),) * RANK[kind] + tuple(gspec["shape"])


class Template:
    """Model description of a template field (written from the case, not from py-pde)."""

    def __init__(self, cls, gidx, label, dtype, members, shape):
        self.cls = cls  # class name
        self.gidx = gidx
        self.label = label
        self.dtype = dtype  # numpy dtype
        self.members = members  # list of dict(cls, label, rows, shape) for collections else None
        self.shape = tuple(shape)

    @property
    def is_coll(self):
        return self.cls == "FieldCollection"

    @property
    def kind(self):
        return {v: k for k, v in CLS.items()}[self.cls]

    def member(self, i, label=None):
        """template of member ``i`` (with ``label`` when a non-empty one is given)"""
        m = self.members[i]
        return Template(m["cls"], self.gidx, label if label else m["label"], self.dtype, None, m["shape"])

    def with_labels(self, label, member_label):
        mem = None if self.members is None else [dict(m, label=member_label) for m in self.members]
        return Template(self.cls, self.gidx, label, self.dtype, mem, self.shape)

    def with_dtype(self, dtype):
        return Template(self.cls, self.gidx, self.label, np.dtype(dtype), self.members, self.shape)


def grid_signature(gspec):
    """two specs describe equal grids iff the signatures agree (unit grids are Cartesian
    grids with bounds (0, n))"""
    fam = "cart" if gspec["cls"] in ("unit", "cart") else gspec["cls"]
    return (fam, tuple(gspec["shape"]), tuple(gen_grids.axes_bounds(gspec)),
            tuple(bool(p) for p in gspec["periodic"]))


def template_of(spec, gspecs, dtype):
    gspec = gspecs[spec["grid"]]
    dim = gen_grids.dim_of(gspec)
    members = None
    if spec["kind"] == "coll":
        members = [
            {"cls": CLS[kind], "label": lab, "rows": rows, "shape": member_shape(kind, gspec)}
            for (kind, lab), rows in zip(spec_members(spec), spec_rows(spec, dim))]
    return Template(CLS[spec["kind"]], spec["grid"], spec["label"], np_dtype(dtype), members,
                    spec_shape(spec, gspec))


def spec_array(spec, gspecs, dtype, seed=None):
    """small integers (int64) or multiples of 1/2 (float64, complex128: real and imaginary
    part), so that casts to a wider dtype are exact and casts to a narrower one are not"""
    shape = spec_shape(spec, gspecs[spec["grid"]])
    return np.array(gen_grids.rng_array(spec["seed"] if seed is None else seed, shape, dtype, dist="int",
                                        scale=1.0 if dtype == "i8" else 0.5), dtype=np_dtype(dtype))


def build_field(spec, grids, arr, dtype):
    """py-pde field from the spec and a data array (valid cells)"""
    grid = grids[spec["grid"]]
    dt = np_dtype(dtype)
    if spec["kind"] != "coll":
        return FIELD_CLS[spec["kind"]](grid, data=np.array(arr), label=spec["label"], dtype=dt)
    dim = grid.dim
    fields = []
    for (kind, lab), (a, b) in zip(spec_members(spec), spec_rows(spec, dim)):
        sub = np.array(arr[a:b]).reshape((dim,) * RANK[kind] + grid.shape)
        fields.append(FIELD_CLS[kind](grid, data=sub, label=lab, dtype=dt))
    return FieldCollection(fields, label=spec["label"])


# =====================================================================================
# strategies
# =====================================================================================
LABELS = [None, "a", "b", "a", "c"]


@st.composite
def field_specs(draw, primary=None):
    """a field spec; with ``primary`` given mostly a variation of it (same shape class)"""
    if primary is not None and draw(st.integers(0, 9)) < 6:
        spec = dict(primary)
        spec["seed"] = draw(st.integers(0, 10**6))
        spec["grid"] = draw(st.sampled_from([0, 0, 0, 1]))
        if draw(st.booleans()):
            spec["label"] = draw(st.sampled_from(LABELS))
            if spec["kind"] == "coll" and draw(st.booleans()):
                spec["labels"] = [draw(st.sampled_from(LABELS)) for _ in spec["ranks"]]
        return spec
    kind = draw(st.sampled_from(["scalar", "scalar", "vector", "tensor", "coll", "coll", "coll"]))
    spec = {"grid": draw(st.sampled_from([0, 0, 0, 1])), "kind": kind,
            "label": draw(st.sampled_from(LABELS)), "seed": draw(st.integers(0, 10**6))}
    if kind == "coll":
        ranks = draw(st.lists(st.sampled_from([0, 0, 0, 1, 1, 2]), min_size=1, max_size=3))
        spec["ranks"] = ranks
        spec["labels"] = [draw(st.sampled_from(LABELS)) for _ in ranks]
    return spec


def grid_variant(gspec):
    """a different grid of the same class and shape (so that data shapes agree)"""
    g = {k: (list(v) if isinstance(v, list) else v) for k, v in gspec.items()}
    if g["cls"] == "unit":
        return {"cls": "cart", "shape": g["shape"], "periodic": g["periodic"],
                "bounds": [[0.5, n + 0.5] for n in g["shape"]]}
    if g["cls"] == "cart":
        g["bounds"] = [[lo, hi + 1.0] for lo, hi in gspec["bounds"]]
    elif g["cls"] in ("polar", "sph"):
        g["radius"] = [gspec["radius"][0], gspec["radius"][1] + 1.0]
    else:
        g["bounds_z"] = [gspec["bounds_z"][0] - 1.0, gspec["bounds_z"][1]]
    return g


def small_grids():
    return gen_grids.grids(max_cells=4, max_axes=2, len_lo=0.5, len_hi=4.0, offset_mag=2.0)


@st.composite
def init_cases(draw):
    g0 = draw(small_grids())
    g1 = draw(st.one_of(small_grids(), st.just(g0), st.just(grid_variant(g0)), st.just(grid_variant(g0))))
    primary = draw(field_specs())
    primary["grid"] = 0
    pool = [primary] + draw(st.lists(field_specs(primary), min_size=2, max_size=5))
    route = draw(st.sampled_from(["plain", "plain", "plain", "from_fields", "from_fields", "context",
                                  "raw_attrs", "raw_guess"]))
    mode = draw(st.sampled_from(MODES[:3] * 4 + (["readonly"] if route != "context" else [])))
    # data types: a base dtype; in most histories about half of the pool deviates from it
    # (init["dtype"] is the dtype of pool[0] and of pool entries without a "dtype" key)
    base = draw(st.sampled_from(["f8", "f8", "f8", "c16", "i8", "i8"]))
    mixed = draw(st.integers(0, 9)) < 7
    for spec in pool:
        dt = base
        if mixed and draw(st.booleans()):
            dt = draw(st.sampled_from(["f8", "c16", "c16", "i8"]))
        if spec["kind"] == "coll" and dt == "i8":
            dt = "f8"  # FieldCollection turns integer members into float64
        spec["dtype"] = dt
    init = {"grids": [g0, g1], "dtype": pool[0]["dtype"], "pool": pool,
            "route": route, "mode": mode}
    if route in ("from_fields", "raw_attrs", "raw_guess"):
        n = draw(st.integers(1 if route != "from_fields" else 0, 4))
        times, t = [], draw(st.sampled_from([0.0, 0.0, -1.0, 0.5]))
        for _ in range(n):
            times.append(t)
            t += draw(st.sampled_from([1.0, 0.5, 0.0, 0.25]))
        init["prefill"] = [[tt, draw(st.integers(0, 10**6))] for tt in times]
    return init


# =====================================================================================
# the reference model of one storage
# =====================================================================================
class Model:
    def __init__(self, mode="truncate_once", template=None, data_shape=None, frames=None,
                 is_open=False):
        self.mode = mode
        self.template = template
        self.data_shape = None if data_shape is None else tuple(data_shape)
        self.frames = [] if frames is None else frames  # list of [time, array]
        self.open = is_open
        self.related = False  # related to another storage by extract_time_range
        self.cleared = False  # clear() was called since the last start_writing

    @property
    def times(self):
        return [fr[0] for fr in self.frames]

    def lossy(self, dtype=None):
        """a frame does not cast safely to the dtype of the template (or to ``dtype``): reading
        it is not held to the stored values (see ASSUMPTIONS)"""
        if dtype is None:
            if self.template is None:
                return False
            dtype = self.template.dtype
        return any(not exact_cast(a.dtype, dtype) for _, a in self.frames)

    # Each method returns None when the call must succeed, or the tuple of acceptable
    # exception types when it must be rejected (and then leaves the model untouched).
    def start(self, template):
        if self.mode == "readonly":
            return (RuntimeError,)
        if self.data_shape is not None and self.data_shape != template.shape:
            return (ValueError,)
        self.data_shape = template.shape
        self.template = template
        if self.mode == "truncate_once":
            self.frames = []
            self.mode = "append"
        elif self.mode == "truncate":
            self.frames = []
        self.open = True
        return None

    def next_default_time(self):
        return 0 if not self.frames else self.frames[-1][0] + 1

    def append(self, arr, time):
        if self.data_shape is None:
            return (RuntimeError, ValueError)
        if arr.shape != self.data_shape:
            return (ValueError,)
        self.frames.append([time, np.array(arr)])
        return None

    def clear(self, clear_shape):
        self.frames = []
        if clear_shape:
            self.data_shape = None


# =====================================================================================
# comparison helpers
# =====================================================================================
def same_array(a, b):
    a, b = np.asarray(a), np.asarray(b)
    return a.shape == b.shape and bool(np.array_equal(a, b))


@contextlib.contextmanager
def quiet_if(flag):
    """silence NumPy's ComplexWarning while a storage that holds a frame wider than its
    template is read (nothing is silenced otherwise)"""
    if not flag:
        yield
        return
    with warnings.catch_warnings():
        warnings.simplefilter("ignore")
        yield


class StorageHistory(History):
    MAX_FRAMES = 10
    MAX_DERIVED = 4
    MAX_READS = 6

    # ---------------------------------------------------------------------------------
    @classmethod
    def init_strategy(cls):
        return init_cases()

    def __init__(self, init):
        super().__init__(init)
        self.ctx = "init"
        self.gspecs = init["grids"]
        self.grids = [gen_grids.build_grid(s) for s in self.gspecs]
        self.dtype = init["dtype"]
        self.pool = init["pool"]
        self.pool_dtype = [s.get("dtype", self.dtype) for s in self.pool]
        self.src_model = [spec_array(s, self.gspecs, dt) for s, dt in zip(self.pool, self.pool_dtype)]
        self.src = [build_field(s, self.grids, a, dt)
                    for s, a, dt in zip(self.pool, self.src_model, self.pool_dtype)]
        self.src_tpl = [template_of(s, self.gspecs, dt) for s, dt in zip(self.pool, self.pool_dtype)]
        self.reads = []  # [field, model array, template, mutated flag]
        self.flags = set()
        self.sessions = 0
        self.max_frames = 0
        self.nops = 0  # invariant evaluations so far (drives the deterministic rule weights)
        self.stores = []  # list of [storage, Model, origin]
        self.make_main(init)

    def make_main(self, init):
        route, mode = init["route"], init["mode"]
        spec0, tpl0, dtype0 = self.pool[0], self.src_tpl[0], self.pool_dtype[0]
        if route == "plain":
            s, m = MemoryStorage(write_mode=mode), Model(mode)
        elif route == "context":
            with get_memory_storage(self.src[0], info={"origin": "context"}) as s:
                pass
            # documented: MemoryStorage() + start_writing + end_writing
            m = Model("truncate_once")
            m.start(tpl0)
            m.open = False
            self.sessions += 1
        else:
            frames = [[t, spec_array(spec0, self.gspecs, dtype0, seed)] for t, seed in init["prefill"]]
            times = [fr[0] for fr in frames]
            if route == "from_fields":
                if frames:
                    fields = [build_field(spec0, self.grids, fr[1], dtype0) for fr in frames]
                    s = MemoryStorage.from_fields(times, fields, write_mode=mode)
                    m = Model(mode, tpl0, tpl0.shape, frames)
                else:
                    s = MemoryStorage.from_fields(write_mode=mode)
                    m = Model(mode)
            elif route == "raw_attrs":
                # the route used when a storage is re-created from serialized attributes
                attrs = self.src[0].attributes_serialized
                s = MemoryStorage(times, [np.array(fr[1]) for fr in frames],
                                  info={"field_attributes": attrs}, write_mode=mode)
                m = Model(mode, tpl0, tpl0.shape, frames)
            else:  # raw_guess: no attributes; the class is deduced from the data shape
                s = MemoryStorage(times, [np.array(fr[1]) for fr in frames], write_mode=mode)
                s._grid = self.grids[0]  # documented in the error message of _init_field
                if spec0["kind"] == "coll":
                    # a collection cannot be deduced: the documented heuristic yields a
                    # single field (or a RuntimeError) - use the attribute route instead
                    s.info["field_attributes"] = self.src[0].attributes_serialized
                    tpl = tpl0
                else:
                    tpl = tpl0.with_labels(None, None)
                m = Model(mode, tpl, tpl0.shape, frames)
        self.stores.append([s, m, "main:" + route])

    # ---------------------------------------------------------------------------------
    def fail(self, what, detail, si=None):
        origin = "" if si is None else self.stores[si][2].split(":")[0]
        raise Violation(f"[{self.ctx}] {what}: {detail} (init route={self.init['route']} "
                        f"mode={self.init['mode']})", key=f"{self.ctx}:{origin}:{what}")

    def check_field(self, fld, tpl, arr, what, si=None):
        """a field read from a storage against template description and model data"""
        if type(fld).__name__ != tpl.cls:
            self.fail("class", f"{what}: read {type(fld).__name__}, expected {tpl.cls}", si)
        if fld.grid != self.grids[tpl.gidx]:
            self.fail("grid", f"{what}: grid {fld.grid} expected {self.grids[tpl.gidx]}", si)
        if tpl.label != ANY and fld.label != tpl.label:
            self.fail("label", f"{what}: label {fld.label!r} expected {tpl.label!r}", si)
        if fld.dtype != tpl.dtype or fld.data.dtype != tpl.dtype:
            self.fail("dtype", f"{what}: dtype {fld.dtype}/{fld.data.dtype} expected {tpl.dtype}", si)
        # values: only when the stored dtype casts safely to the template's (see ASSUMPTIONS)
        stored_dtype = arr.dtype
        exact = exact_cast(stored_dtype, tpl.dtype)
        if exact:
            arr = arr.astype(tpl.dtype)
        if exact and not same_array(fld.data, arr):
            self.fail("data", f"{what}: data {np.asarray(fld.data).tolist()} expected {arr.tolist()} "
                      f"(frame appended as {stored_dtype}, template dtype {tpl.dtype})", si)
        if tpl.members is not None:
            if len(fld) != len(tpl.members):
                self.fail("members", f"{what}: {len(fld)} members, expected {len(tpl.members)}", si)
            for k, m in enumerate(tpl.members):
                sub = fld[k]
                if type(sub).__name__ != m["cls"]:
                    self.fail("class", f"{what}: member {k} is {type(sub).__name__}, expected {m['cls']}", si)
                if m["label"] != ANY and sub.label != m["label"]:
                    self.fail("label", f"{what}: member {k} label {sub.label!r} expected {m['label']!r}", si)
                if sub.dtype != tpl.dtype:
                    self.fail("dtype", f"{what}: member {k} dtype {sub.dtype} expected {tpl.dtype}", si)
                want = arr[m["rows"][0]:m["rows"][1]].reshape(m["shape"])
                if exact and not same_array(sub.data, want):
                    self.fail("member-data", f"{what}: member {k} data {sub.data.tolist()} expected "
                              f"{want.tolist()}", si)

    def check_store(self, si):
        s, m, origin = self.stores[si]
        n = len(m.frames)
        if len(s) != n:
            self.fail("len", f"{origin}: len {len(s)} expected {n}", si)
        times = list(s.times)
        if len(times) != n or any(a != b for a, b in zip(times, m.times)):
            self.fail("times", f"{origin}: times {times} expected {m.times}", si)
        shape = None if m.data_shape is None else (n,) + m.data_shape
        if s.shape != shape:
            self.fail("shape", f"{origin}: shape {s.shape} expected {shape}", si)
        if s.write_mode != m.mode:
            self.fail("write_mode", f"{origin}: write_mode {s.write_mode!r} expected {m.mode!r}", si)
        if m.template is not None:
            if s.has_collection != m.template.is_coll:
                self.fail("has_collection", f"{origin}: {s.has_collection}", si)
            if s.grid != self.grids[m.template.gidx]:
                self.fail("grid", f"{origin}: storage.grid {s.grid}", si)
        elif n == 0:
            expect_rejection((RuntimeError,), lambda: s.has_collection,
                             "has_collection of an empty storage without template",
                             f"{self.ctx}:has_collection-empty")
        if len(s.data) != n:
            self.fail("len", f"{origin}: len(data) {len(s.data)} expected {n}", si)
        # the stored frames themselves have the values of the appended field, whatever the
        # template is (compared by value: the dtype in which a frame is kept is not prescribed)
        for i in range(n):
            raw, want = np.asarray(s.data[i]), m.frames[i][1]
            if not same_array(raw, want):
                self.fail("stored-data", f"{origin}: storage.data[{i}] is {raw.tolist()} ({raw.dtype}), the "
                          f"appended data was {want.tolist()} ({want.dtype})", si)
        got = []
        with quiet_if(m.lossy()):
            for i in range(n):
                f = s[i]
                self.check_field(f, m.template, m.frames[i][1], f"{origin}[{i}]", si)
                got.append(f)
        # fresh objects: not the stored arrays, not each other, not the template
        for i, f in enumerate(got):
            if np.shares_memory(f._data_full, s.data[i]):
                self.fail("fresh", f"{origin}[{i}] shares memory with the stored frame", si)
            if s._field is not None and (f is s._field or np.shares_memory(f._data_full, s._field._data_full)):
                self.fail("fresh", f"{origin}[{i}] shares memory with the template field", si)
            for j in range(i):
                if f is got[j] or np.shares_memory(f._data_full, got[j]._data_full):
                    self.fail("fresh", f"{origin}[{i}] and [{j}] share memory", si)
            for src in self.src:
                if np.shares_memory(s.data[i], src._data_full):
                    self.fail("stored-aliases-source", f"{origin}: frame {i} aliases a source field", si)
        return got

    def invariant(self):
        self.nops += 1
        self.max_frames = max([self.max_frames] + [len(m.frames) for _, m, _ in self.stores])
        for si in range(len(self.stores)):
            self.check_store(si)
            if self.stores[si][1].lossy():
                self.flags.add("frame-wider-than-template")
        # independence of storages (copies) - by memory
        for a in range(len(self.stores)):
            for b in range(a):
                sa, ma, _ = self.stores[a]
                sb, mb, _ = self.stores[b]
                if ma.related and mb.related:
                    continue
                if any(np.shares_memory(x, y) for x in sa.data for y in sb.data):
                    self.fail("derived-aliases", f"{self.stores[a][2]} shares frame memory with "
                              f"{self.stores[b][2]}")
        # source fields are never modified by the storage
        for k, (f, a) in enumerate(zip(self.src, self.src_model)):
            if not same_array(f.data, a):
                self.fail("source-modified", f"source field {k}: {f.data.tolist()} expected {a.tolist()}")
        # fields read back earlier keep their values
        for k, (f, a, tpl, _) in enumerate(self.reads):
            if not same_array(f.data, a):
                self.fail("read-modified", f"field read earlier (#{k}) changed: {f.data.tolist()} "
                          f"expected {a.tolist()}")

    # ---------------------------------------------------------------------------------
    # strategies of the operations
    # ---------------------------------------------------------------------------------
    def _si(self):
        n = len(self.stores)
        return st.sampled_from([0, 0, 0] + list(range(n)))

    def _store(self, si):
        si %= len(self.stores)
        return si, self.stores[si][0], self.stores[si][1]

    def b_start(self):
        return st.fixed_dictionaries({"si": self._si(), "fi": st.integers(0, len(self.pool) - 1),
                                      "info": st.booleans(), "lossy": self._rarely()})

    @staticmethod
    def _rarely():
        """flag that admits an operation after which a frame is wider than the template"""
        return st.integers(0, 11).map(lambda v: v == 0)

    def b_append(self):
        # inside a session; now and then on a storage without data shape (documented rejection)
        ok = [i for i, (_, m, _) in enumerate(self.stores) if m.open and len(m.frames) < self.MAX_FRAMES]
        if not ok or self.nops % 8 == 7:
            ok += [i for i, (_, m, _) in enumerate(self.stores) if m.data_shape is None and m.mode != "readonly"]
        if not ok:
            return None
        time = st.one_of(
            st.just({"k": "none"}),
            st.fixed_dictionaries({"k": st.just("rel"), "dt": st.sampled_from([1.0, 0.5, 0.0, 0.25, 2.0])}),
            st.fixed_dictionaries({"k": st.just("rel"), "dt": st.sampled_from([1.0, 0.5, 0.0, 0.25, 2.0])}),
            st.fixed_dictionaries({"k": st.just("abs"), "t": st.one_of(
                st.sampled_from([0.0, 1.0, -1.0, 2.5]), st.floats(-10, 10))}))
        return st.fixed_dictionaries({"si": st.sampled_from(ok), "fi": st.integers(0, len(self.pool) - 1),
                                      "compatible": st.integers(0, 9).map(lambda v: v < 8), "time": time,
                                      "lossy": self._rarely()})

    def b_end(self):
        ok = [i for i, (_, m, _) in enumerate(self.stores) if m.open]
        return st.fixed_dictionaries({"si": st.sampled_from(ok)}) if ok else None

    def b_clear(self):
        ok = [i for i, (_, m, _) in enumerate(self.stores)
              if m.mode != "readonly" and (len(m.frames) >= 2 or (self.nops % 4 == 3 and m.data_shape is not None))]
        if not ok:
            return None
        return st.fixed_dictionaries({"si": st.sampled_from(ok),
                                      "shape": st.sampled_from([None, False, False, True])})

    def b_mutate_src(self):
        return st.fixed_dictionaries({"fi": st.integers(0, len(self.pool) - 1),
                                      "how": st.sampled_from(["scale", "fill", "cell", "assign", "full"]),
                                      "v": st.integers(-9, 9)})

    def b_read(self):
        ok = [i for i, (_, m, _) in enumerate(self.stores) if m.frames]
        if not ok:
            return None
        return st.fixed_dictionaries({"si": st.sampled_from(ok), "i": st.integers(-12, 12),
                                      "how": st.sampled_from(["index", "index", "slice", "iter", "items"]),
                                      "j": st.integers(-12, 12), "step": st.sampled_from([None, 1, 2, -1])})

    def b_mutate_read(self):
        if not self.reads:
            return None
        return st.fixed_dictionaries({"ri": st.integers(0, len(self.reads) - 1),
                                      "how": st.sampled_from(["scale", "fill", "cell", "member", "full"]),
                                      "v": st.integers(-9, 9)})

    def _coll_stores(self):
        return [i for i, (_, m, _) in enumerate(self.stores) if m.template is not None and m.template.is_coll]

    def _field_id(self):
        return st.one_of(st.integers(-3, 5), st.sampled_from(["a", "b", "c", "zz"]))

    def b_extract_field(self):
        if len(self.stores) > self.MAX_DERIVED:
            return None
        stores = [i for i, (_, m, _) in enumerate(self.stores) if m.template is not None]
        if not stores:
            return None
        coll = self._coll_stores()
        return st.fixed_dictionaries({"si": st.sampled_from(coll + coll + stores), "fid": self._field_id(),
                                      "label": st.sampled_from([None, None, "new", ""])})

    def b_view_field(self):
        stores = [i for i, (_, m, _) in enumerate(self.stores) if m.template is not None]
        if not stores:
            return None
        coll = self._coll_stores()
        return st.fixed_dictionaries({"si": st.sampled_from(coll + coll + stores), "fid": self._field_id()})

    def b_extract_range(self):
        if len(self.stores) > self.MAX_DERIVED:
            return None
        ok = [i for i, (_, m, _) in enumerate(self.stores)
              if all(a <= b for a, b in zip(m.times, m.times[1:]))]
        if not ok:
            return None
        bound = st.one_of(st.none(), st.fixed_dictionaries({
            "i": st.integers(0, 12), "off": st.sampled_from([0.0, 0.0, -0.125, 0.125, -0.125, 0.125, -100.0, 100.0])}))
        return st.fixed_dictionaries({"si": st.sampled_from(ok), "form": st.sampled_from(["single", "pair", "none"]),
                                      "lo": bound, "hi": bound})

    def b_apply(self):
        if len(self.stores) > self.MAX_DERIVED:
            return None
        return st.fixed_dictionaries({
            "si": self._si(),
            "func": st.sampled_from(["copy", "copy", "identity", "double", "add_time", "member0", "const"]),
            "out": st.sampled_from([None, None, None, "truncate_once", "truncate", "append", "readonly"])})

    def b_scribble(self):
        ok = [i for i, (_, m, _) in enumerate(self.stores) if m.frames and not m.related]
        if not ok:
            return None
        return st.fixed_dictionaries({"si": st.sampled_from(ok), "k": st.integers(0, 12), "v": st.integers(-9, 9)})

    def b_drop(self):
        if len(self.stores) <= 2:
            return None
        return st.fixed_dictionaries({"si": st.integers(1, len(self.stores) - 1)})

    def _late(builder):
        """rule that is not offered in the first steps while the main storage was never started"""
        def gated(self):
            m = self.stores[0][1]
            if m.template is None and m.mode != "readonly" and self.nops <= 3:
                return None
            return builder(self)
        return gated

    b_end, b_clear, b_mutate_src, b_read, b_mutate_read, b_extract_field, b_view_field, b_extract_range, \
        b_apply, b_scribble, b_drop = map(_late, (
            b_end, b_clear, b_mutate_src, b_read, b_mutate_read, b_extract_field, b_view_field,
            b_extract_range, b_apply, b_scribble, b_drop))

    OPS = {"start": b_start, "append": b_append, "end": b_end, "clear": b_clear,
           "mutate_src": b_mutate_src, "read": b_read, "mutate_read": b_mutate_read,
           "extract_field": b_extract_field, "view_field": b_view_field,
           "extract_range": b_extract_range, "apply": b_apply, "scribble": b_scribble,
           "drop": b_drop}
    # appends are the most useful operation: offer the rule several times
    OPS.update({"append2": b_append, "append3": b_append, "append4": b_append, "append5": b_append,
                "append6": b_append, "start2": b_start})

    # ---------------------------------------------------------------------------------
    # operations
    # ---------------------------------------------------------------------------------
    def op_start(self, si, fi, info, lossy=False):
        self.ctx = "start_writing"
        si, s, m = self._store(si)
        fi %= len(self.pool)
        tpl = self.src_tpl[fi]
        if (not lossy and m.mode == "append" and m.frames and tpl.shape == m.data_shape
                and m.lossy(tpl.dtype)):
            # the session would keep frames that are wider than its template (see ASSUMPTIONS):
            # use a pool field of the same data shape with a wide enough dtype instead
            alt = [j for j, t in enumerate(self.src_tpl)
                   if t.shape == m.data_shape and not m.lossy(t.dtype)]
            if not alt:
                self.flags.add("skip:start:narrower-template")
                return
            fi = alt[fi % len(alt)]
            tpl = self.src_tpl[fi]
        had = len(m.frames)
        mode_before = m.mode
        prev_tpl = m.template
        rej = m.start(tpl)
        call = (lambda: s.start_writing(self.src[fi], info={"note": fi})) if info else \
            (lambda: s.start_writing(self.src[fi]))
        if rej is not None:
            expect_rejection(rej, call, f"start_writing in mode {m.mode} with data shape {tpl.shape} "
                             f"(storage shape {m.data_shape})", f"start_writing:not-rejected:{mode_before}")
            self.flags.add("reject:start:" + ("readonly" if m.mode == "readonly" else "shape"))
            return
        call()
        self.sessions += 1
        self.flags.add("start:" + mode_before + (":nonempty" if had else ":empty"))
        if had and m.frames:
            self.flags.add("session-appended-to-existing")
        if prev_tpl is not None and prev_tpl.dtype != tpl.dtype:
            self.flags.add("session:" + ("wider" if exact_cast(prev_tpl.dtype, tpl.dtype) else "narrower")
                           + "-dtype-than-previous")
            if m.frames:
                self.flags.add("session:dtype-change-on-kept-frames")
            if m.cleared:
                self.flags.add("session:dtype-change-after-clear")
        m.cleared = False

    op_start2 = op_start

    def _compatible(self, m):
        """pool indices with the data shape and grid of the storage"""
        if m.template is None:
            return list(range(len(self.pool)))
        return [i for i, t in enumerate(self.src_tpl)
                if t.shape == m.data_shape
                and grid_signature(self.gspecs[t.gidx]) == grid_signature(self.gspecs[m.template.gidx])]

    def op_append(self, si, fi, compatible, time, lossy=False):
        self.ctx = "append"
        si, s, m = self._store(si)
        fi %= len(self.pool)
        ok = self._compatible(m)
        if not lossy and m.template is not None:
            # a field that is wider than the template of the session is only appended when
            # ``lossy`` admits it (see ASSUMPTIONS)
            exact = [i for i in ok if exact_cast(self.src_tpl[i].dtype, m.template.dtype)]
            if exact:
                compatible = compatible or (fi in ok and fi not in exact)
                ok = exact
        if compatible and ok:
            fi = ok[fi % len(ok)]
        tpl = self.src_tpl[fi]
        if time["k"] == "none":
            t_arg, t_model = None, m.next_default_time()
        elif time["k"] == "rel":
            t_model = t_arg = (m.frames[-1][0] if m.frames else 0.0) + time["dt"]
        else:
            t_model = t_arg = time["t"]
        call = (lambda: s.append(self.src[fi])) if t_arg is None else (lambda: s.append(self.src[fi], t_arg))
        # documented rejections: unset data shape, other grid, other data shape
        why = None
        if m.data_shape is None:
            # (a rejected append on a storage without grid remembers the grid of the rejected
            # field, so the next rejection may name the grid instead of the data shape)
            why, rej = "no-shape", (RuntimeError, ValueError)
        elif m.template is not None and grid_signature(self.gspecs[tpl.gidx]) != grid_signature(
                self.gspecs[m.template.gidx]):
            why, rej = "grid", (ValueError,)
        elif tpl.shape != m.data_shape:
            why, rej = "shape", (ValueError,)
        if why is not None:
            expect_rejection(rej, call, f"append of data shape {tpl.shape} on grid #{tpl.gidx} to a storage "
                             f"with data shape {m.data_shape} on grid "
                             f"#{None if m.template is None else m.template.gidx}", "append:not-rejected:" + why)
            self.flags.add("reject:append:" + why)
            return
        m.append(self.src_model[fi], t_model)
        call()
        self.flags.add("append")
        if m.template is not None and tpl.dtype != m.template.dtype:
            self.flags.add("append:" + ("narrower" if exact_cast(tpl.dtype, m.template.dtype) else "wider")
                           + "-dtype-than-template")
        if len(m.frames) >= 2 and m.frames[-1][0] == m.frames[-2][0]:
            self.flags.add("times:equal")
        if len(m.frames) >= 2 and m.frames[-1][0] < m.frames[-2][0]:
            self.flags.add("times:decreasing")
        if time["k"] == "none":
            self.flags.add("times:default")
        self.appended_src = getattr(self, "appended_src", set()) | {fi}

    op_append2 = op_append3 = op_append4 = op_append5 = op_append6 = op_append

    def op_end(self, si):
        self.ctx = "end_writing"
        si, s, m = self._store(si)
        s.end_writing()
        m.open = False

    def op_clear(self, si, shape):
        self.ctx = "clear"
        si, s, m = self._store(si)
        if m.mode == "readonly":
            return
        if m.frames:
            self.flags.add("clear:nonempty")
        if shape is None:
            s.clear()
        else:
            s.clear(clear_data_shape=shape)
        m.clear(bool(shape))
        m.cleared = True
        if shape:
            self.flags.add("clear:shape")

    @staticmethod
    def _mutate(field, model, how, v):
        """the same write on a field and on the model array"""
        if how == "scale":
            field.data *= 2
            model *= 2
        elif how == "fill":
            field.data[...] = v
            model[...] = v
        elif how == "assign":
            field.data = v + 0.5
            model[...] = v + 0.5
        elif how == "full":  # through the padded array
            field._data_full[...] = v
            model[...] = v
        else:
            idx = (0,) * model.ndim
            field.data[idx] += v + 1
            model[idx] += v + 1

    def op_mutate_src(self, fi, how, v):
        self.ctx = "mutate_source"
        fi %= len(self.pool)
        self._mutate(self.src[fi], self.src_model[fi], how, v)
        if fi in getattr(self, "appended_src", set()):
            self.flags.add("mutation-after-append")

    def op_read(self, si, i, how, j, step):
        self.ctx = "read:" + how
        si, s, m = self._store(si)
        n = len(m.frames)
        if n == 0:
            return
        with quiet_if(m.lossy()):
            out = self._read(si, s, m, n, i, how, j, step)
        for a in range(len(out)):
            for b in range(a):
                if out[a][1] is out[b][1] or np.shares_memory(out[a][1]._data_full, out[b][1]._data_full):
                    self.fail("fresh", f"fields returned by one {how} read share memory", si)
        for k, f in out[-2:]:
            if exact_cast(m.frames[k][1].dtype, m.template.dtype):
                # (a read field has the dtype of the template)
                self.reads.append([f, m.frames[k][1].astype(m.template.dtype), m.template, False])
        del self.reads[:-self.MAX_READS]

    def _read(self, si, s, m, n, i, how, j, step):
        out = []
        if how == "index":
            if -n <= i < n:
                out = [(i % n, s[i])]
                self.flags.add("read:negative" if i < 0 else "read:index")
            else:
                try:
                    s[i]
                except IndexError:
                    self.flags.add("read:out-of-range")
                else:
                    self.fail("index-error", f"storage[{i}] with {n} frames did not raise IndexError", si)
        elif how == "slice":
            sl = slice(i, j, step)
            got = s[sl]
            idx = list(range(n))[sl]
            if not isinstance(got, list) or len(got) != len(idx):
                self.fail("slice", f"storage[{sl}] returned {len(got)} fields, expected {len(idx)}", si)
            out = list(zip(idx, got))
            self.flags.add("read:slice")
        elif how == "iter":
            got = list(s)
            if len(got) != n:
                self.fail("iter", f"iteration yields {len(got)} fields, expected {n}", si)
            out = list(enumerate(got))
        else:
            got = list(s.items())
            if len(got) != n:
                self.fail("items", f"items() yields {len(got)} pairs, expected {n}", si)
            for k, (t, _) in enumerate(got):
                if t != m.frames[k][0]:
                    self.fail("items", f"items()[{k}] has time {t}, expected {m.frames[k][0]}", si)
            out = [(k, f) for k, (_, f) in enumerate(got)]
        for k, f in out:
            self.check_field(f, m.template, m.frames[k][1], f"{how} -> frame {k}", si)
        return out

    def op_mutate_read(self, ri, how, v):
        self.ctx = "mutate_read"
        ri %= len(self.reads)
        f, a, tpl, _ = self.reads[ri]
        if how == "member":
            if isinstance(f, FieldCollection):
                k = v % len(f)
                f[k].data[...] = v
                rows = tpl.members[k]["rows"]
                a[rows[0]:rows[1]] = v
            else:
                how = "fill"
        if how != "member":
            self._mutate(f, a, how, v)
        self.reads[ri][3] = True
        self.flags.add("mutation-of-read-back")

    # -- derived storages ---------------------------------------------------------------
    def _resolve_member(self, tpl, fid):
        """index of the member addressed by ``fid`` (None: must be rejected)"""
        n = len(tpl.members)
        if isinstance(fid, str):
            for k, mm in enumerate(tpl.members):
                if mm["label"] == fid:
                    return k  # documented: the first field with this label
            return None
        return fid % n if -n <= fid < n else None

    def op_extract_field(self, si, fid, label):
        self.ctx = "extract_field"
        si, s, m = self._store(si)
        if m.template is None:
            return
        call = (lambda: s.extract_field(fid)) if label is None else (lambda: s.extract_field(fid, label=label))
        if not m.template.is_coll:
            expect_rejection((TypeError,), call, "extract_field on a storage of single fields",
                             "extract_field:not-rejected:single")
            self.flags.add("reject:extract_field:single")
            return
        if isinstance(fid, str) and any(mm["label"] == ANY for mm in m.template.members):
            return  # labels of arithmetic results are not documented
        k = self._resolve_member(m.template, fid)
        if k is None:
            if isinstance(fid, str):
                expect_rejection((ValueError, KeyError), call, f"extract_field({fid!r}) without such a label",
                                 "extract_field:not-rejected:label")
                self.flags.add("reject:extract_field:label")
            return  # integer out of range: IndexError, not a documented case
        child = call()
        mm = m.template.members[k]
        frames = [[t, np.array(a[mm["rows"][0]:mm["rows"][1]].reshape(mm["shape"]))] for t, a in m.frames]
        tpl = m.template.member(k, label=label)
        if not isinstance(child, MemoryStorage):
            self.fail("class", f"extract_field returned {type(child)}", si)
        cm = Model("truncate_once", tpl, tpl.shape, frames)  # default mode of a new MemoryStorage
        self.stores.append([child, cm, f"extract_field:{'label' if isinstance(fid, str) else 'index'}"])
        self.flags.add("extract_field:" + ("label" if isinstance(fid, str) else "index")
                       + (":relabel" if label else ""))
        if sum(1 for x in m.template.members if x["label"] == fid) > 1:
            self.flags.add("extract_field:duplicate-label")

    def op_view_field(self, si, fid):
        self.ctx = "view_field"
        si, s, m = self._store(si)
        if m.template is None:
            return
        if not m.template.is_coll:
            expect_rejection((RuntimeError, TypeError), lambda: s.view_field(fid),
                             "view_field on a storage of single fields", "view_field:not-rejected:single")
            self.flags.add("reject:view_field:single")
            return
        if isinstance(fid, str) and any(mm["label"] == ANY for mm in m.template.members):
            return  # labels of arithmetic results are not documented
        if m.lossy():
            return  # reads through a narrower template are not held to the values (ASSUMPTIONS)
        k = self._resolve_member(m.template, fid)
        if k is None:
            if isinstance(fid, str):
                expect_rejection((ValueError, KeyError), lambda: s.view_field(fid),
                                 f"view_field({fid!r}) without such a label", "view_field:not-rejected:label")
            return
        view = s.view_field(fid)
        mm = m.template.members[k]
        tpl = m.template.member(k)
        n = len(m.frames)
        if len(view) != n or list(view.times) != m.times:
            self.fail("view-times", f"view has len {len(view)} times {list(view.times)}; expected {m.times}", si)
        if view.has_collection:
            self.fail("view-has_collection", "view reports a collection", si)
        if view.grid != self.grids[tpl.gidx]:
            self.fail("grid", "view.grid differs", si)
        want = [a[mm["rows"][0]:mm["rows"][1]].reshape(mm["shape"]) for _, a in m.frames]
        for i in range(n):
            self.check_field(view[i], tpl, want[i], f"view[{i}]", si)
        it = list(view)
        items = list(view.items())
        if len(it) != n or len(items) != n:
            self.fail("view-iter", f"view iteration yields {len(it)}/{len(items)} entries, expected {n}", si)
        for i in range(n):
            self.check_field(it[i], tpl, want[i], f"iter(view)[{i}]", si)
            if items[i][0] != m.frames[i][0]:
                self.fail("view-times", f"view.items()[{i}] time {items[i][0]}", si)
            self.check_field(items[i][1], tpl, want[i], f"view.items()[{i}]", si)
        self.flags.add("view_field:" + ("label" if isinstance(fid, str) else "index"))

    def op_extract_range(self, si, form, lo, hi):
        self.ctx = "extract_time_range"
        si, s, m = self._store(si)
        times = m.times
        if any(a > b for a, b in zip(times, times[1:])):
            return

        def value(b):
            if b is None:
                return None
            base = times[b["i"] % len(times)] if times else 0.0
            return base + b["off"]

        lo_v, hi_v = value(lo), value(hi)
        if form == "single":
            if hi_v is None:
                form = "none"
            lo_v = None
        if form == "none":
            lo_v = hi_v = None
        if not times and (lo_v is None or hi_v is None):
            return  # precondition: open ends need a non-empty storage
        if form == "none":
            child = s.extract_time_range()
        elif form == "single":
            child = s.extract_time_range(hi_v)
        else:
            child = s.extract_time_range((lo_v, hi_v))
        frames = [[t, np.array(a)] for t, a in m.frames
                  if (lo_v is None or t >= lo_v) and (hi_v is None or t <= hi_v)]
        tpl = m.template
        shape = tpl.shape if tpl is not None else (frames[0][1].shape if frames else None)
        cm = Model("truncate_once", tpl, shape, frames)
        cm.related = m.related = True
        self.stores.append([child, cm, "extract_time_range"])
        self.flags.add("extract_time_range:" + form)
        if 0 < len(frames) < len(m.frames):
            self.flags.add("extract_time_range:proper-subset")
        if len(set(times)) < len(times):
            self.flags.add("extract_time_range:equal-times")

    def op_apply(self, si, func, out):
        self.ctx = "copy" if func == "copy" else "apply:" + func
        si, s, m = self._store(si)
        tpl = m.template
        if m.lossy():
            self.flags.add("skip:apply:frame-wider-than-template")
            return  # the fields handed to the function are not held to the values (ASSUMPTIONS)
        const_field = build_field(self.pool[0], self.grids, self.src_model[0], self.pool_dtype[0])
        if func == "member0" and (tpl is None or not tpl.is_coll):
            func = "identity"
        funcs = {
            "identity": lambda f: f,
            "double": lambda f: 2 * f,
            "add_time": lambda f, t: f + t,
            "member0": lambda f: f[0],
            "const": lambda: const_field,
        }
        out_s = out_m = None
        if out is not None:
            out_s, out_m = MemoryStorage(write_mode=out), Model(out)
        if func == "copy":
            call = (lambda: s.copy()) if out is None else (lambda: s.copy(out=out_s))
        else:
            call = (lambda: s.apply(funcs[func])) if out is None else (lambda: s.apply(funcs[func], out=out_s))
        # model of the transformation: the function sees every frame as a field of the template's
        # dtype; the first result is the template of the output, every result keeps its own dtype
        seen = [] if tpl is None else [[t, a.astype(tpl.dtype)] for t, a in m.frames]
        if not m.frames:
            new_tpl, frames = None, []
        elif func in ("copy", "identity"):
            new_tpl, frames = tpl, seen
        elif func == "double":
            frames = [[t, 2 * a] for t, a in seen]
            new_tpl = tpl.with_labels(ANY, ANY).with_dtype(frames[0][1].dtype)
        elif func == "add_time":
            frames = [[t, a + t] for t, a in seen]
            new_tpl = tpl.with_labels(ANY, ANY).with_dtype(frames[0][1].dtype)
        elif func == "member0":
            mm = tpl.members[0]
            new_tpl = tpl.member(0)
            frames = [[t, np.array(a[mm["rows"][0]:mm["rows"][1]].reshape(mm["shape"]))] for t, a in seen]
        else:
            new_tpl = self.src_tpl[0]
            frames = [[t, np.array(self.src_model[0])] for t, _ in m.frames]
        if out is None:
            if not m.frames:
                cm = Model("truncate_once")
            else:
                # documented: a new MemoryStorage (truncate_once) that is written to once
                cm = Model("append", new_tpl, new_tpl.shape, frames)
        else:
            cm = out_m
            if m.frames:
                rej = cm.start(new_tpl)
                if rej is not None:
                    expect_rejection(rej, call, "apply/copy into a read-only storage", "apply:not-rejected:readonly")
                    self.flags.add("reject:apply:readonly-out")
                    return
                cm.frames = cm.frames + frames
                cm.open = False
        with warnings.catch_warnings():
            warnings.simplefilter("ignore")
            child = call()
        if out is not None and child is not out_s:
            self.fail("out", "apply/copy did not return the storage given as `out`", si)
        if not isinstance(child, MemoryStorage):
            self.fail("class", f"apply/copy returned {type(child)}", si)
        if tpl is not None and new_tpl is not None and tpl.dtype != new_tpl.dtype:
            self.flags.add("apply:dtype-change")
        self.stores.append([child, cm, self.ctx])
        self.flags.add(self.ctx + ("" if out is None else ":out"))
        if m.frames:
            self.flags.add("derived-nonempty:" + self.ctx.split(":")[0])

    def op_scribble(self, si, k, v):
        """write into a stored frame of a storage in place (public ``data`` attribute);
        all other storages, sources and earlier reads must be unaffected"""
        self.ctx = "write-into-storage.data"
        si, s, m = self._store(si)
        if not m.frames or m.related:
            return
        k %= len(m.frames)
        s.data[k][...] = v
        m.frames[k][1][...] = v
        self.flags.add("scribble:" + self.stores[si][2].split(":")[0])

    def op_drop(self, si):
        self.ctx = "drop"
        if len(self.stores) <= 2:
            return
        si = 1 + (si - 1) % (len(self.stores) - 1)
        del self.stores[si]

    # ---------------------------------------------------------------------------------
    KEEP = ["mutation-after-append", "clear:nonempty", "mutation-of-read-back", "times:equal",
            "times:decreasing", "session-appended-to-existing", "reject:start:shape",
            "reject:start:readonly", "reject:append:no-shape", "reject:append:grid",
            "reject:append:shape", "extract_field:duplicate-label", "extract_time_range:proper-subset",
            "extract_time_range:equal-times", "read:slice",
            "session:wider-dtype-than-previous", "session:narrower-dtype-than-previous",
            "session:dtype-change-on-kept-frames", "session:dtype-change-after-clear",
            "append:narrower-dtype-than-template", "append:wider-dtype-than-template",
            "frame-wider-than-template", "apply:dtype-change"]

    def record(self):
        f = self.flags
        m = self.stores[0][1]
        labels = ["route:" + self.init["route"], "mode:" + self.init["mode"], "dtype:" + self.dtype,
                  "pool-dtypes:" + ("mixed" if len(set(self.pool_dtype)) > 1 else "single"),
                  "template:" + (m.template.kind if m.template is not None else "none")]
        labels += [x for x in self.KEEP if x in f]
        for short in ("extract_field", "view_field", "copy", "apply"):
            if any(x.startswith(short + ":") or x == short for x in f if not x.startswith("reject")):
                labels.append(short)
        if any(x.endswith(":out") for x in f):
            labels.append("out-storage")
        if any(x.startswith("scribble:") and x != "scribble:main" for x in f):
            labels.append("write-into-derived-storage")
        if "scribble:main" in f:
            labels.append("write-into-main-storage")
        if self.sessions >= 2:
            labels.append("sessions>=2")
        nframes = max(len(mm.frames) for _, mm, _ in self.stores)
        nmax = max(self.max_frames, nframes)
        labels.append("frames>=3" if nmax >= 3 else "frames<3")
        nt = (self.sessions >= 2 or "mutation-after-append" in f or "clear:nonempty" in f) and "append" in f
        return {"nt": bool(nt), "labels": labels}


# a documented validation error where the model expects success is a violation
guard_class(StorageHistory, extra=("make_main",))


# =====================================================================================
# tracker-driven storage
# =====================================================================================
class DecayPDE(pde.PDEBase):
    """du/dt = -k u, implemented with NumPy only (works for every field class)"""

    check_implementation = False

    def __init__(self, k=1.0):
        super().__init__()
        self.k = k

    def evolution_rate(self, state, t=0):
        return -self.k * state


TRANSFORMS = {
    None: None,
    "double": (lambda f: 2 * f, lambda a, t: 2 * a),
    "add_time": (lambda f, t: f + t, lambda a, t: a + t),
    "copy": (lambda f: f.copy(), lambda a, t: a),
}


@st.composite
def tracker_cases(draw):
    gspec = draw(small_grids())
    spec = draw(field_specs())
    spec["grid"] = 0
    nsolve = draw(st.integers(1, 3))
    solves = []
    for _ in range(nsolve):
        dt = draw(st.sampled_from([0.125, 0.25, 0.5, 0.1]))
        kind = draw(st.sampled_from(["const", "const", "fixed", "geom"]))
        if kind == "const":
            interrupts = draw(st.sampled_from([0.25, 0.5, 1.0, 0.3, 1, 0.125]))
        elif kind == "fixed":
            pts = sorted(set(draw(st.lists(st.sampled_from([0.0, 0.25, 0.5, 0.75, 1.0, 1.3, 1.5, 2.0, 5.0]),
                                           min_size=1, max_size=5))))
            interrupts = pts
        else:
            interrupts = "geometric(0.25, 2)"
        solves.append({
            "t_start": draw(st.sampled_from([0.0, 0.0, 1.0, -0.5])),
            "duration": draw(st.sampled_from([0.5, 1.0, 2.0, 0.25])),
            "dt": dt, "interrupts": interrupts,
            "transform": draw(st.sampled_from([None, None, "double", "add_time", "copy"])),
            "solver": draw(st.sampled_from(["euler", "euler", "runge-kutta"])),
            "reuse_tracker": draw(st.booleans()),
            "mutate_after": draw(st.booleans()),
        })
    return {"grid": gspec, "field": spec, "dtype": draw(st.sampled_from(["f8", "f8", "c16"])),
            "mode": draw(st.sampled_from(MODES[:3])),
            "prefill": draw(st.integers(0, 2)), "solves": solves}


def check_tracker(case):
    gspecs = [case["grid"]]
    grids = [gen_grids.build_grid(case["grid"])]
    spec, dtype = case["field"], case["dtype"]
    tpl = template_of(spec, gspecs, dtype)
    arr0 = spec_array(spec, gspecs, dtype)
    storage = MemoryStorage(write_mode=case["mode"])
    model = Model(case["mode"])
    labels = ["mode:" + case["mode"], "template:" + spec["kind"], "dtype:" + dtype,
              "grid:" + gen_grids.grid_label(case["grid"]), f"solves={len(case['solves'])}"]
    # an earlier manual session
    if case["prefill"]:
        f = build_field(spec, grids, arr0, dtype)
        storage.start_writing(f)
        model.start(tpl)
        for k in range(case["prefill"]):
            storage.append(f, -10.0 + k)
            model.append(arr0, -10.0 + k)
            f.data *= 2  # later changes of the source must not matter
            arr0 = arr0 * 2
        storage.end_writing()
        model.open = False
        labels.append("prefilled")
    eq = DecayPDE()
    tracker = None
    sessions = 1 if case["prefill"] else 0
    for k, sv in enumerate(case["solves"]):
        state = build_field(spec, grids, arr0, dtype)
        if tracker is None or not sv["reuse_tracker"]:
            cur_name = sv["transform"]
            cur_tr = TRANSFORMS[cur_name]
            cur_int = sv["interrupts"]
            tracker = storage.tracker(cur_int, transformation=None if cur_tr is None else cur_tr[0])
            recorded = []

            def make_cb(rec):
                def cb(st_, t):
                    rec.append((t, np.array(st_.data)))
                return cb

            # independent observer with the same interrupt specification; when the storage
            # tracker is used for a second solve, so is the observer
            cbt = pde.CallbackTracker(make_cb(recorded), interrupts=cur_int)
        else:
            labels.append("tracker-reused")
        del recorded[:]
        t0 = sv["t_start"]
        with warnings.catch_warnings():
            warnings.simplefilter("ignore")
            final = eq.solve(state, t_range=(t0, t0 + sv["duration"]), dt=sv["dt"], solver=sv["solver"],
                             backend="numpy", tracker=[tracker, cbt])
        # model: one session with the recorded frames (transformed)
        rej = model.start(tpl)
        if rej is not None:
            raise AssertionError("model rejected a session")
        sessions += 1
        for t, a in recorded:
            model.append(a if cur_tr is None else cur_tr[1](a, t), t)
        model.open = False
        if sv["mutate_after"]:
            final.data[...] = 77
            state.data[...] = -77
            labels.append("state-mutated-after-solve")
        labels.append("interrupts:" + ("const" if isinstance(cur_int, (int, float)) else
                                       "fixed" if isinstance(cur_int, list) else "geometric"))
        labels.append("transform:" + str(cur_name))
        labels.append(f"frames-in-session:{min(len(recorded), 3)}{'+' if len(recorded) >= 3 else ''}")
        # compare after every solve
        key = f"tracker:{case['mode']}"
        if len(storage) != len(model.frames) or list(storage.times) != model.times:
            raise Violation(f"after solve #{k}: times {list(storage.times)} expected {model.times} "
                            f"(mode {case['mode']})", key=key + ":times")
        if storage.write_mode != model.mode:
            raise Violation(f"write_mode {storage.write_mode} expected {model.mode}", key=key + ":write_mode")
        # labels survive the identity and copy(); arithmetic results are not held to labels
        want_tpl = tpl if cur_name in (None, "copy") else tpl.with_labels(ANY, ANY)
        seen = []
        for i, (t, a) in enumerate(model.frames):
            f = storage[i]
            if type(f).__name__ != want_tpl.cls or f.grid != grids[0]:
                raise Violation(f"frame {i}: class {type(f).__name__} expected {want_tpl.cls}", key=key + ":class")
            if want_tpl.label != ANY and f.label != want_tpl.label:
                raise Violation(f"frame {i}: label {f.label!r} expected {want_tpl.label!r}", key=key + ":label")
            if f.data.dtype != np_dtype(dtype):
                raise Violation(f"frame {i}: dtype {f.data.dtype}", key=key + ":dtype")
            if not same_array(f.data, a):
                raise Violation(f"after solve #{k}: frame {i} (t={t}) is {f.data.tolist()}, the state handed "
                                f"to the tracker was {a.tolist()}", key=key + ":data")
            if np.shares_memory(f._data_full, storage.data[i]) or any(
                    np.shares_memory(f._data_full, g._data_full) for g in seen):
                raise Violation(f"frame {i}: read is not a fresh object", key=key + ":fresh")
            if np.shares_memory(storage.data[i], state._data_full) or np.shares_memory(
                    storage.data[i], final._data_full):
                raise Violation(f"frame {i} aliases the simulation state", key=key + ":alias-state")
            seen.append(f)
        arr0 = np.array(recorded[-1][1]) if recorded else arr0
        if arr0.dtype != np_dtype(dtype):
            arr0 = arr0.astype(np_dtype(dtype))
    nframes = len(model.frames)
    labels.append("sessions>=2" if sessions >= 2 else "sessions=1")
    return {"nt": nframes >= 2 and sessions >= 1, "labels": labels}


SUBCHECKS = [
    SubCheck(
        name="StorageMachine", history=StorageHistory, mode="pure",
        budget={"quick": 4000, "thorough": 80000}, shards={"quick": 12, "thorough": 16},
        steps={"quick": 30, "thorough": 50},
        rule="non-trivial = history with an append and (>= 2 writing sessions or a mutation of a source "
             "field after it was appended or a clear of a non-empty storage)"),
    SubCheck(
        name="tracker_driven_storage", strategy=tracker_cases, check=check_tracker, mode="pure",
        budget={"quick": 1200, "thorough": 20000}, shards={"quick": 3, "thorough": 8},
        rule="non-trivial = at least two stored frames after the last solve"),
]
