"""C18 - Poisson/Laplace solvers return solutions of the discrete problem.

Generated: grid (all classes, >= 2 cells per axis, with/without hole), complete semantic
boundary-condition assignment of constant first/second-order kinds (value, derivative, mixed,
curvature; scalar, array-valued and coordinate-expression values; periodic / anti-periodic on
periodic axes) rendered in one of the accepted formats, and a right-hand side from one of the
families

* ``random``       arbitrary data (any assignment),
* ``compatible``   ``rhs := laplace_bc(u*)`` for a random ``u*`` - solvable by construction,
  also for pure Neumann/periodic (singular) assignments,
* ``incompatible`` zero-flux type assignment (derivative / periodic / Robin with gamma = 0 on
  every side that matters) and ``rhs := laplace_bc(u*) + c`` with ``|c|`` far above the
  tolerance - no solution exists because the cell volumes are a left null vector,
* ``laplace``      ``solve_laplace_equation(grid, bc)`` (rhs = 0, inhomogeneous conditions).

Oracle (the same for every family): whenever a field is returned, ``field.laplace(bc)`` - the
operator route (ghost cells from the conditions + the registered default Laplacian, i.e. the
conservative one on spherical grids) - must reproduce the right-hand side to the solver's own
documented acceptance (``rtol = atol = 1e-5``, here with a factor 10) plus a condition-aware
round-off term.  Problems without a solution must therefore end in ``RuntimeError``.  An
independent dense reference of the discrete operator (documented stencils from
``vlib.ref_stencils`` + documented ghost-cell semantics from ``vlib.gen_bcs``) classifies every
case (regular / singular-compatible / singular-incompatible, condition number); it is used for
the labels, for the non-triviality rule and for the clause "a regular, well-conditioned problem
must be solved, not rejected".
"""

from __future__ import annotations

import warnings

import numpy as np
from hypothesis import strategies as st

from vlib import env

env.setup()

import pde  # noqa: E402

from vlib import gen_bcs as gb  # noqa: E402
from vlib import gen_fields as gf  # noqa: E402
from vlib import ref_stencils as rs  # noqa: E402
from vlib.core import HarnessError, Rejected, SubCheck, Violation  # noqa: E402
from vlib.gen_grids import axes_bounds, build_grid, grid_label, grids, rng_array  # noqa: E402

PROPERTY = "C18"
RULE = ("cases = (grid, semantic BC assignment + rendering style, rhs family, data seed, distribution, "
        "scale, solver method); distinct = whole case")
ASSUMPTIONS = [
    "real-valued right-hand sides (the solver returns a real field)",
    "only constant first/second-order conditions (value, derivative, mixed, curvature, periodic, "
    "anti-periodic) - the kinds that implement the sparse-matrix data; no normal_*/expression kinds",
    "Robin conditions keep |2 + gamma*dx| >= 0.1 by construction (the condition itself is singular at 0)",
    "'solver accuracy' = the solver's own acceptance test |L u - f| <= 1e-5 + 1e-5 |f| (element-wise), "
    "judged with a factor 10 and a round-off allowance 1e-11 * sum|w| * max|u| (ghost cells included)",
    "a RuntimeError counts as a violation only for regular problems whose reference condition number "
    "guarantees that a backward-stable solve meets the acceptance test with a margin of 100; "
    "errors on singular-but-compatible or ill-conditioned problems are counted, not judged",
    "grid lengths 1e-2...1e2 per axis (the absolute part 1e-5 of the acceptance test makes the check "
    "blind when the right-hand side is tiny; such cases are labelled 'weak' and never count as non-trivial)",
]

EPS = float(np.finfo(float).eps)
KINDS = ("value", "derivative", "mixed", "curvature")
STYLES = ("sides", "sides", "axis", "named", "wildcard", "single", "objects", "auto_neumann",
          "auto_dirichlet", "mixed_keys")


# ----------------------------------------------------------------------------------------
# generator
# ----------------------------------------------------------------------------------------
def relevant_sides(gspec):
    """(axis, key) of all non-periodic sides whose ghost cells enter the Laplacian: the inner side
    of a hole-free polar/spherical/cylindrical grid has stencil weight zero (r - dr/2 = 0)."""
    out = []
    for a, per in enumerate(gspec["periodic"]):
        if per:
            continue
        for key in ("low", "high"):
            if a == 0 and key == "low" and gspec["cls"] in ("polar", "sph", "cyl") \
                    and gspec["radius"][0] == 0:
                continue
            out.append((a, key))
    return out


def _num(x):
    return {"t": "num", "x": float(x)}


def fix_bc(bc, gspec, gamma_mode, flux_only=False, seed=0, bump=False):
    """Post-process a drawn assignment (pure function of its arguments).

    * Robin coefficients: |2 + gamma dx| >= 0.1 by construction; ``gamma_mode`` 'pos' makes scalar
      coefficients non-negative (regular problems by the M-matrix argument), 'zero' makes them 0;
    * ``flux_only``: every side that matters becomes a flux condition (derivative, or Robin with
      gamma = 0) and anti-periodic axes become periodic -> the cell volumes are a left null vector;
    * ``bump``: scalar data of magnitude < 0.5 are moved away from zero (Laplace problems are driven by
      the boundary data alone).
    """
    bc = {**bc, "axes": [ax if isinstance(ax, str) else {k: dict(v) for k, v in ax.items()}
                         for ax in bc["axes"]]}
    rel = set(relevant_sides(gspec))
    for a, ax in enumerate(bc["axes"]):
        if isinstance(ax, str):
            if flux_only:
                bc["axes"][a] = "periodic"
            continue
        dx = gb.spacing(gspec, a)
        for key in ("low", "high"):
            s = ax[key]
            if flux_only and (a, key) in rel and s["kind"] in ("value", "curvature"):
                s["kind"] = "derivative"
            if bump:
                d = s["c"] if s["kind"] == "mixed" else s["v"]
                if d["t"] == "num" and abs(d["x"]) < 0.5:
                    d = _num(d["x"] + (1.0 if (seed + 2 * a + (key == "high")) % 3 else -1.5))
                    s["c" if s["kind"] == "mixed" else "v"] = d
            if s["kind"] == "mixed":
                g = s["v"]
                if flux_only and (a, key) in rel or gamma_mode == "zero":
                    if g["t"] == "num":
                        s["v"] = _num(0.0)
                    else:  # array-valued Robin pair -> keep the shape class, gamma = 0 via 'derivative'
                        s["kind"] = "derivative"
                        s["v"] = s.pop("c")
                        s["typed"] = bool((seed + a) % 2)
                    continue
                if g["t"] == "num":
                    x = float(g["x"])
                    if gamma_mode == "pos" or abs(2 + x * dx) < 0.1:
                        x = abs(x)
                    s["v"] = _num(x)
                elif 3.0 * dx > 1.8:
                    # array-valued gamma in (-3, 3): 2 + gamma dx could vanish -> scalar instead
                    s["v"] = _num(1.0 / dx)
                    if s["c"]["t"] == "field":
                        s["c"] = _num(0.5)
    if bc["style"] in ("auto_neumann", "auto_dirichlet"):
        # the automatic styles carry their own kinds; keep the semantic description in line
        kind = "derivative" if bc["style"] == "auto_neumann" else "value"
        ok = all(isinstance(ax, str) or all(ax[k]["kind"] == kind and ax[k]["v"] == {"t": "num", "x": 0.0}
                                            for k in ("low", "high")) for ax in bc["axes"])
        if not ok or (flux_only and kind == "value"):
            bc["style"] = "sides"
    if bc["style"] == "single" and bump:
        bc["style"] = "sides"
    if bc["style"] == "single":
        first = next((ax for ax in bc["axes"] if not isinstance(ax, str)), None)
        if first is None or any(isinstance(ax, str) or ax["low"] != first["low"] or ax["high"] != first["low"]
                                for ax in bc["axes"]):
            bc["style"] = "sides"
    if bc["style"] == "axis" and any(not isinstance(ax, str) and ax["low"] != ax["high"]
                                     for ax in bc["axes"]):
        bc["style"] = "sides"
    return bc


@st.composite
def cases(draw, family=None, max_cells=8, max_total=512, jit=False):
    fam = family or draw(st.sampled_from(["random", "random", "compatible", "compatible", "compatible"]))
    gspec = draw(grids(min_cells=2, max_cells=max_cells, max_total=max_total, len_lo=1e-2,
                       len_hi=1e1 if fam == "laplace" else 1e2, offset_mag=1e2))
    bc = draw(gb.bc_assignments(gspec, rank=0, dtype="f8", kinds=KINDS, allow_normal=False,
                                allow_expr=False, styles=STYLES,
                                allow_antiperiodic=(fam != "incompatible")))
    seed = draw(st.integers(0, 2**31))
    if fam == "incompatible":
        gamma_mode = "zero"
    elif fam == "laplace":
        gamma_mode = draw(st.sampled_from(["pos", "pos", "pos", "any"]))
    else:
        gamma_mode = draw(st.sampled_from(["pos", "pos", "any", "zero"]))
    bc = fix_bc(bc, gspec, gamma_mode, flux_only=(fam == "incompatible"), seed=seed,
                bump=(fam == "laplace"))
    if fam == "compatible" and draw(st.integers(0, 3)) == 0:
        # make sure the singular zero-flux class is frequent in the solvable family as well
        bc = fix_bc(bc, gspec, "zero", flux_only=True, seed=seed)
    if fam == "laplace" and draw(st.integers(0, 3)) > 0:
        # mostly regular problems: one side that matters imposes the value
        rel = relevant_sides(gspec)
        if rel:
            a, key = rel[draw(st.integers(0, len(rel) - 1))]
            s = bc["axes"][a][key]
            if s["kind"] != "value":
                vs = s["v"] if s["kind"] != "mixed" else s["c"]
                s.pop("c", None)
                s["kind"], s["v"] = "value", vs
                if bc["style"] in ("axis", "single", "auto_neumann", "wildcard"):
                    bc["style"] = "sides"
    case = {"grid": gspec, "bc": bc, "family": fam, "seed": seed,
            "dist": draw(st.sampled_from(["normal", "uniform", "int"])),
            "scale": draw(st.sampled_from([1.0, 1.0, 10.0, 100.0, 0.1])),
            "method": draw(st.sampled_from([None, None, "auto", "scipy"]))}
    if fam == "random":
        # right-hand side field of another real dtype (after missed seed C18-7: the result field took the dtype
        # of the right-hand side, so the float64 solution was rounded to single precision / truncated to integers)
        case["rhs_dtype"] = draw(st.sampled_from([None, None, "f4", "i8"]))
    if fam == "incompatible":
        case["shift"] = draw(st.sampled_from([1.0, -1.0, 0.05, -0.3, 7.0]))
    return case


# ----------------------------------------------------------------------------------------
# independent reference of the discrete operator (classification)
# ----------------------------------------------------------------------------------------
def reference_affine(gspec, bc):
    """dense (M, v) with laplace_bc(u) = M u + v from the documented stencils and conditions"""
    shape = tuple(int(n) for n in gspec["shape"])
    n = int(np.prod(shape))
    nax = len(shape)
    full = np.zeros((n + 1,) + tuple(s + 2 for s in shape))
    valid = (slice(None),) + (slice(1, -1),) * nax
    full[valid][:n] = np.eye(n).reshape((n,) + shape)
    gb.apply_reference(bc, gspec, full, "f8", 0.0)
    val, _ = rs.apply(gspec, "laplace", {}, full)
    val = val.reshape(n + 1, n)
    v = val[n].copy()
    M = (val[:n] - v).T.copy()
    return M, v


def cell_volumes(gspec):
    """exact cell volumes (up to the common angular factor) from the spec"""
    bnds = axes_bounds(gspec)
    w = []
    for a, ((lo, hi), n) in enumerate(zip(bnds, gspec["shape"])):
        edges = lo + (hi - lo) * np.arange(n + 1) / n
        if a == 0 and gspec["cls"] in ("polar", "cyl"):
            w.append((edges[1:] ** 2 - edges[:-1] ** 2) / 2)
        elif a == 0 and gspec["cls"] == "sph":
            w.append((edges[1:] ** 3 - edges[:-1] ** 3) / 3)
        else:
            w.append(np.diff(edges))
    vol = w[0]
    for x in w[1:]:
        vol = np.multiply.outer(vol, x)
    return vol


def classify(M, v, rhs, wbound):
    """Class of the reference problem ``M u = rhs - v``: ('regular' | 'singular-compatible' |
    'singular-incompatible' | 'unclear', condition number of the regular part).

    Singular values <= 1e-13 smax count as zero (round-off of the assembly), those >= 1e-10 smax as
    non-zero; anything in between, or a projection of the right-hand side on the left null space
    between 1e-9 and 1e-6 of the data scale, is 'unclear' (judged by the residual clause only).
    ``wbound`` = bound of sum_j |M_ij|, the scale below which the whole matrix is round-off."""
    b = rhs.ravel() - v
    scale = float(np.linalg.norm(rhs) + np.linalg.norm(v))
    U, s, _ = np.linalg.svd(M)
    smax = float(s[0])
    if smax <= 1e-12 * wbound:
        zero = np.ones(s.shape, bool)
        smax = 0.0
    else:
        zero = s <= 1e-13 * smax
        if np.any(~zero & (s < 1e-10 * smax)):
            return "unclear", np.inf
    if not zero.any():
        return "regular", smax / float(s[-1])
    comp = float(np.linalg.norm(U[:, zero].T @ b))
    cond = smax / float(s[~zero][-1]) if (~zero).any() else 1.0
    if comp <= 1e-9 * scale:
        return "singular-compatible", cond
    if comp >= 1e-6 * scale:
        return "singular-incompatible", cond
    return "unclear", cond


# ----------------------------------------------------------------------------------------
# check
# ----------------------------------------------------------------------------------------
def kinds_key(case):
    gspec, bc = case["grid"], case["bc"]
    rel = set(relevant_sides(gspec))
    out = []
    for a, ax in enumerate(bc["axes"]):
        if isinstance(ax, str):
            out.append(ax)
        else:
            out.append([ax[k]["kind"] + ":" + ax[k]["v"]["t"] + ("" if (a, k) in rel else ":origin")
                        for k in ("low", "high")])
    return out


def bucket(case):
    gspec, bc = case["grid"], case["bc"]
    hole = "radius" in gspec and gspec["radius"][0] > 0
    kinds = sorted({("periodic" if isinstance(ax, str) else ax[k]["kind"])
                    for ax in bc["axes"] for k in ("low", "high")})
    return f"{gspec['cls']}{len(gspec['shape'])}d{'+hole' if hole else ''}:{'+'.join(kinds)}"


def check_solver(case):
    gspec, bc, fam = case["grid"], case["bc"], case["family"]
    if gb.robin_denominators(bc, gspec, "f8", 0.0) < 0.1:
        raise HarnessError("generator produced a singular Robin condition")
    grid = build_grid(gspec)
    shape = tuple(gspec["shape"])
    with warnings.catch_warnings():
        warnings.simplefilter("ignore", DeprecationWarning)
        bc_obj, style = gb.render_bc(bc, gspec, grid, "f8")
    M, v = reference_affine(gspec, bc)

    # ---- right-hand side ---------------------------------------------------------------
    dxs = [gb.spacing(gspec, a) for a in range(len(shape))]
    if fam == "laplace":
        rhs_data = np.zeros(shape)
    elif fam == "random":
        rhs_data = rng_array(case["seed"], shape, "f8", case["dist"], case["scale"])
    else:
        # u* scaled such that the stencil part of laplace(u*) is O(scale)
        ustar = rng_array(case["seed"], shape, "f8", case["dist"], case["scale"] * min(dxs) ** 2)
        with warnings.catch_warnings():
            warnings.simplefilter("ignore", DeprecationWarning)
            rhs_data = pde.ScalarField(grid, ustar).laplace(bc_obj).data.copy()
        if fam == "incompatible":
            w = cell_volumes(gspec).ravel()
            null = np.abs(w @ M).max() / (np.abs(w) @ np.abs(M)).max()
            if null > 1e-9:
                raise HarnessError(f"volumes are not a left null vector of the reference operator ({null:.3g})")
            rhs_data = rhs_data + case["shift"] * (1.0 + np.abs(rhs_data).max())
    rhs_dtype = case.get("rhs_dtype")
    if rhs_dtype == "f4":
        rhs_data = rhs_data.astype(np.float32).astype(float)  # values that a float32 field holds exactly
    elif rhs_dtype == "i8":
        rhs_data = np.rint(rhs_data)
    if not np.all(np.isfinite(rhs_data)):
        raise HarnessError("non-finite right-hand side")
    kind, cond = classify(M, v, rhs_data, gf.weight_bound(gspec, 2))
    if fam == "incompatible" and kind in ("regular", "singular-compatible"):
        raise HarnessError(f"incompatible family produced a {kind} reference problem")
    if fam == "compatible" and kind == "singular-incompatible":
        # the right-hand side came from the operator route but is outside the range of the reference
        # operator: operator route and reference disagree (not this property's business) -> not judged
        kind = "reference-disagrees-with-operator-route"

    # exclusion by construction (counted as rejected): curvature conditions on EVERY side of a grid with two or
    # more axes give an exactly singular system on which scipy's SuperLU (sparse.linalg.spsolve) dies with
    # SIGSEGV now and then - a native crash of the third-party library, reproduced outside the harness with
    # UnitGrid([4, 7]) and {"curvature": -1}; a dead worker cannot report anything, so these cases are not run
    if fam != "laplace" and len(shape) >= 2:
        kinds_all = [ax[k]["kind"] for ax in bc["axes"] if not isinstance(ax, str) for k in ("low", "high")]
        if kinds_all and all(kd == "curvature" for kd in kinds_all):
            raise Rejected("curvature conditions on every side (>= 2 axes): scipy's SuperLU can crash on this singular "
                           "system")
    # ---- code under test ---------------------------------------------------------------
    kwargs = {} if case["method"] is None else {"method": case["method"]}
    error = None
    with warnings.catch_warnings():
        warnings.simplefilter("ignore", DeprecationWarning)
        try:
            if fam == "laplace":
                u = pde.solve_laplace_equation(grid, bc_obj)
            else:
                np_dtype = {None: float, "f4": np.float32, "i8": np.int64}[rhs_dtype]
                if kind != "regular":
                    # singular problems go through the fall-back solvers of scipy; with an integer right-hand
                    # side a worker process died there with SIGSEGV (2 in 40000 thorough cases, not reproducible
                    # from the case alone: native code of the third-party library) - only regular problems get
                    # the other dtypes, the values stay the rounded ones
                    np_dtype = float
                rhs_field = pde.ScalarField(grid, rhs_data.astype(np_dtype), dtype=np_dtype)
                u = pde.solve_poisson_equation(rhs_field, bc_obj, **kwargs)
        except RuntimeError as e:
            if type(e) is not RuntimeError:  # e.g. NotImplementedError: not the documented report
                raise
            error = e

    hole = "radius" in gspec and gspec["radius"][0] > 0
    labels = [f"grid:{gspec['cls']}{len(shape)}d", f"family:{fam}", f"style:{style}"]
    if case.get("rhs_dtype"):
        labels.append(f"rhs-dtype:{case['rhs_dtype']}")
    if hole:
        labels.append("grid:annular")
    if any(gspec["periodic"]):
        labels.append("grid:periodic-axis")
    if M.shape[0] > 128:
        labels.append("cells>128")
    rel = set(relevant_sides(gspec))
    for a, ax in enumerate(bc["axes"]):
        if isinstance(ax, str):
            labels.append(f"kind:{ax}")
            continue
        for k in ("low", "high"):
            s = ax[k]
            if (a, k) not in rel:
                labels.append("kind:any@origin(weight 0)")
                continue
            labels.append(f"kind:{s['kind']}")
            labels.append(f"value:{s['v']['t']}")
            if hole and a == 0 and k == "low":
                labels.append(f"annulus-inner:{s['kind']}")
    rhs_max = float(np.abs(rhs_data).max())

    if error is not None:
        labels.append(f"outcome:error:{kind}")
        b = rhs_data.ravel() - v
        if kind == "regular" and 100 * EPS * cond * float(np.abs(b).max()) * np.sqrt(b.size) < 1e-5:
            raise Violation(
                f"{'solve_laplace_equation' if fam == 'laplace' else 'solve_poisson_equation'} rejected a "
                f"regular problem (reference condition number {cond:.3g}, max|rhs|={rhs_max:.3g}) on "
                f"{grid_label(gspec)} {shape} with bc={kinds_key(case)}: {error}",
                key=f"rejected-regular:{bucket(case)}")
        return {"nt": fam == "incompatible", "labels": sorted(set(labels))}

    # ---- a field was returned: residual through the operator route ---------------------
    if not isinstance(u, pde.ScalarField) or u.grid is not grid and u.grid != grid:
        raise Violation(f"solver returned {type(u).__name__} on another grid", key="return-type")
    if u.data.shape != shape or not np.all(np.isfinite(u.data)):
        raise Violation(f"solver returned a non-finite field or wrong shape {u.data.shape}", key="non-finite")
    work = u.copy()
    with warnings.catch_warnings():
        warnings.simplefilter("ignore", DeprecationWarning)
        lap = work.laplace(bc_obj).data
    rough = gf.op_tolerance(gspec, "laplace", work._data_full, rel=1e-11)
    res = np.abs(lap - rhs_data)
    tol = 1e-4 + 1e-4 * np.abs(rhs_data) + rough
    bad = ~(res <= tol)
    labels.append(f"outcome:solved:{kind}")
    weak = rough > 1e-4 * (1 + rhs_max) or (fam == "laplace" and float(np.abs(v).max()) < 1e-2)
    if weak:
        labels.append("weak:roundoff-dominated-or-tiny-data")
    if np.any(bad):
        i = np.unravel_index(int(np.argmax(np.where(bad, res / tol, 0))), shape)
        what = "incompatible problem answered with a field" if fam == "incompatible" else "returned field is not a solution"
        raise Violation(
            f"{what}: |laplace(u, bc) - rhs| = {res[i]:.3g} > tol {tol[i]:.3g} at cell {tuple(int(k) for k in i)} "
            f"(rhs={rhs_data[i]!r}, laplace={lap[i]!r}, max|rhs|={rhs_max:.3g}, max|u|={np.abs(u.data).max():.3g}) on "
            f"{grid_label(gspec)} {shape}, family={fam}, class={kind}, bc={kinds_key(case)}, style={style}",
            key=f"residual:{bucket(case)}")
    # second, independent route (documented stencils + documented ghost cells)
    res_ref = np.abs((M @ u.data.ravel() + v).reshape(shape) - rhs_data)
    if np.any(~(res_ref <= tol)):
        labels.append("reference-route-disagrees")
    nondirichlet = any(isinstance(ax, str) or any(ax[k]["kind"] != "value" for k in ("low", "high") if (a, k) in rel)
                       for a, ax in enumerate(bc["axes"]))
    nt = (nondirichlet or hole) and not weak and float(np.abs(u.data).max()) > 0
    return {"nt": bool(nt), "labels": sorted(set(labels))}


RULE_NT = ("non-trivial = a field was returned and judged, some side that matters carries a non-Dirichlet "
           "condition or the grid is annular, the solution is non-zero and the tolerance is not dominated by "
           "round-off; incompatible family: the solver answered with the documented RuntimeError")

# ---------------------------------------------------------------------------------------
# sub-check: the same boundary-condition *object* is solved with, changed in place and solved
# with again.  Added after the independently seeded change C18-2 (sparse boundary data
# cached on the condition object and never invalidated) was missed by single-solve cases.
# ---------------------------------------------------------------------------------------
@st.composite
def reuse_cases(draw):
    gspec = draw(grids(min_cells=2, max_cells=6, max_total=64, len_lo=0.5, len_hi=8.0, offset_mag=5.0,
                       allow_periodic=True))
    sides = []
    for a, per in enumerate(gspec["periodic"]):
        if per:
            sides.append("periodic")
        else:
            kinds = ["value", "value", "derivative", "mixed"]
            sides.append([{"kind": draw(st.sampled_from(kinds)), "x": draw(st.integers(-8, 8)) / 4,
                           "c": draw(st.integers(-8, 8)) / 4} for _ in range(2)])
    nonper = [a for a, s_ in enumerate(sides) if s_ != "periodic"]
    if not nonper:
        gspec = dict(gspec, periodic=[False] + list(gspec["periodic"][1:]))
        sides[0] = [{"kind": "value", "x": 1.0, "c": 0.0}, {"kind": "value", "x": -0.5, "c": 0.0}]
        nonper = [0]
    # keep the problem regular: one Dirichlet side that is never changed into another kind
    a0 = nonper[0]
    sides[a0][1]["kind"] = "value"
    for a in nonper:
        for s_ in sides[a]:
            if s_["kind"] == "mixed":
                s_["x"] = abs(s_["x"])  # gamma >= 0
    changes = draw(st.lists(st.tuples(st.sampled_from(nonper), st.booleans(), st.integers(-12, 12).map(lambda k: k / 4),
                                      st.sampled_from(["value", "const"])), min_size=1, max_size=3))
    return {"grid": gspec, "sides": sides, "changes": [list(c) for c in changes],
            "seed": draw(st.integers(0, 2**31))}


def check_reuse(case):
    gspec = case["grid"]
    grid = build_grid(gspec)
    names = gb.axis_names(gspec)
    spec = {}
    for a, s_ in enumerate(case["sides"]):
        if s_ == "periodic":
            spec[names[a]] = "periodic"
            continue
        for upper, sd in zip((False, True), s_):
            key = names[a] + "-+"[upper]
            if sd["kind"] == "mixed":
                spec[key] = {"type": "mixed", "value": sd["x"], "const": sd["c"]}
            else:
                spec[key] = {sd["kind"]: sd["x"]}
    bcs = grid.get_boundary_conditions(spec)
    rhs = pde.ScalarField(grid, rng_array(case["seed"], tuple(gspec["shape"]), "f8", "uniform", 1.0))
    labels = [f"grid:{gspec['cls']}{len(gspec['shape'])}d"]

    def solve_and_judge(stage):
        try:
            u = pde.solve_poisson_equation(rhs.copy(), bcs)
        except RuntimeError as e:
            if type(e) is not RuntimeError:
                raise
            labels.append(f"{stage}:error")
            return False
        lap = u.copy().laplace(bcs).data
        rough = gf.op_tolerance(gspec, "laplace", u._data_full, rel=1e-11)
        res = np.abs(lap - rhs.data)
        tol = 1e-4 + 1e-4 * np.abs(rhs.data) + rough
        if np.any(~(res <= tol)):
            i = np.unravel_index(int(np.argmax(res / tol)), res.shape)
            raise Violation(
                f"{stage}: field returned by solve_poisson_equation is not a solution for the *current* "
                f"conditions of the reused BoundariesList: residual {res[i]:.3g} > {tol[i]:.3g} at {tuple(map(int, i))} "
                f"on {grid_label(gspec)}; bc={bcs!s}", key=f"reuse:{stage.split('#')[0]}:{gspec['cls']}")
        return True

    ok = solve_and_judge("first-solve")
    changed = 0
    for k, (a, upper, val, what) in enumerate(case["changes"]):
        side = bcs[a].high if upper else bcs[a].low
        if what == "const" and hasattr(side, "const"):
            side.const = val
        else:
            if type(side).__name__ == "MixedBC":
                val = abs(val)
            side.value = val
        changed += 1
        ok = solve_and_judge(f"after-change#{k}") and ok
    labels.append(f"changes:{changed}")
    return {"nt": ok and changed >= 1, "labels": labels}


SUBCHECKS = [
    SubCheck("poisson_residual", strategy=cases, check=check_solver, mode="nojit",
             budget={"quick": 2400, "thorough": 40000}, shards={"quick": 6, "thorough": 16}, rule=RULE_NT),
    SubCheck("laplace_residual", strategy=lambda: cases(family="laplace"), check=check_solver, mode="nojit",
             budget={"quick": 800, "thorough": 12000}, shards={"quick": 3, "thorough": 8}, rule=RULE_NT),
    SubCheck("incompatible_rejected_or_valid", strategy=lambda: cases(family="incompatible"),
             check=check_solver, mode="nojit",
             budget={"quick": 600, "thorough": 10000}, shards={"quick": 3, "thorough": 8}, rule=RULE_NT),
    SubCheck("bc_object_reused", strategy=reuse_cases, check=check_reuse, mode="nojit",
             budget={"quick": 400, "thorough": 8000}, shards={"quick": 2, "thorough": 6},
             rule="non-trivial = all solves returned a field and >= 1 in-place change of a condition"),
    SubCheck("poisson_residual_jit", strategy=lambda: cases(max_cells=6, max_total=150, jit=True),
             check=check_solver, mode="jit",
             budget={"quick": 90, "thorough": 1500}, shards={"quick": 3, "thorough": 12},
             time_limit={"quick": 120, "thorough": 1500}, rule=RULE_NT),
]
