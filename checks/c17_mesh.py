"""C17 - splitting a grid into sub-grids changes nothing.

Only the serial, deterministic part of :class:`pde.grids._mesh.GridMesh` is exercised (no MPI in
this environment): ``GridMesh.from_grid(grid, decomposition)`` and the methods that take an
explicit ``node_id``.  Sub-checks

* ``tiling``               geometry of the sub-grids (shapes, bounds, periodic flags, cell centres,
  cell volumes, total volume) against the cell edges of the base grid computed from the spec;
* ``split_combine``        ``combine_field_data([extract_field_data(d, i)])`` is the identity with
  and without ghost cells for arrays of rank 0-2 and collections; ``extract_subfield`` keeps class,
  label, dtype and data;
* ``neighbours``           ``get_neighbor`` against an independent model (C-order ids, wrap-around
  iff the base axis is periodic), symmetry, ``_id2idx``/``_idx2id``, ``_MPIBC`` bookkeeping,
  message flags, ``extract_boundary_conditions`` of node 0;
* ``operator_equivalence`` serial ghost-cell exchange executed by the harness through the package's
  own ``_MPIBC._idx_read/_idx_write`` index sets, outer faces through ``bc.to_subgrid(subgrid)``,
  raw operator of each sub-grid (``make_operator_no_bc``), ``combine_field_data`` - must equal the
  operator on the whole grid;
* ``inadmissible_decompositions`` decompositions that the package documents as rejected
  (more chunks than cells, radial split of a cylinder, hollow cylinders, ``-1`` without enough
  nodes, non-positive counts): "documented error, or a mesh that tiles the grid".
"""

from __future__ import annotations

import warnings

import numpy as np
from hypothesis import strategies as st

from vlib import env

env.setup()

import pde  # noqa: E402
from pde.grids._mesh import GridMesh, MPIFlags  # noqa: E402
from pde.grids.boundaries.local import _MPIBC  # noqa: E402

from vlib import gen_bcs as gb  # noqa: E402
from vlib import gen_fields as gf  # noqa: E402
from vlib.core import HarnessError, Rejected, SubCheck, Violation  # noqa: E402
from vlib.gen_grids import axes_bounds, build_grid, dim_of, grid_label, grids, rng_array  # noqa: E402

PROPERTY = "C17"
RULE = ("cases = (grid, decomposition + the format it is passed in, field rank/dtype/contents or "
        "operator + BC assignment); distinct = whole case")
ASSUMPTIONS = [
    "only serial methods with explicit node_id are called (MPI is absent); the ghost-cell exchange "
    "between nodes is executed by the harness with the index sets of the package's _MPIBC objects",
    "boundary conditions of the operator clause are the constant kinds with a value that is uniform "
    "along the face (what BCBase.to_subgrid documents as transferable); curvature conditions only "
    "where every chunk of the axis has >= 2 cells (the condition needs two support points)",
    "cylinders: only the axial direction of hole-free cylinders can be split (radial splits and "
    "hollow cylinders raise the documented NotImplementedError and live in their own sub-check)",
    "anti-periodic conditions only on axes that are not split (see the sub-check "
    "antiperiodic_split_axis for the split case)",
    "geometric quantities are compared with a tolerance of a few ulp of the coordinate magnitude "
    "(sub-grid bounds come from np.linspace, the base grid's from lo + i*dx)",
]
EPS = float(np.finfo(float).eps)


# ----------------------------------------------------------------------------------------
# generator
# ----------------------------------------------------------------------------------------
def _fix_cylinder(gspec):
    """hollow cylinders cannot be subdivided (documented NotImplementedError): remove the hole"""
    if gspec["cls"] == "cyl" and gspec["radius"][0] != 0:
        r_in, r_out = gspec["radius"]
        gspec = dict(gspec, radius=[0.0, r_out - r_in if r_out - r_in > 0 else r_out])
    return gspec


@st.composite
def decompositions(draw, gspec, max_nodes=512, allow_radial_cyl=False):
    """chunks per axis (1..cells), biased to the extremes, product <= max_nodes"""
    chunks = []
    for a, n in enumerate(gspec["shape"]):
        if gspec["cls"] == "cyl" and a == 0 and not allow_radial_cyl:
            chunks.append(1)
            continue
        c = draw(st.one_of(st.sampled_from([1, 2, 2, n, n, max(1, n - 1), max(1, (n + 1) // 2), 3]),
                           st.integers(1, n), st.integers(min(2, n), n)))
        chunks.append(min(c, n))
    splittable = [a for a, n in enumerate(gspec["shape"])
                  if n >= 2 and not (gspec["cls"] == "cyl" and a == 0 and not allow_radial_cyl)]
    if all(c == 1 for c in chunks) and splittable and draw(st.integers(0, 4)) > 0:
        # the undivided mesh is a legitimate but uninformative case: keep it to ~1/5 of its natural share
        a = splittable[draw(st.integers(0, len(splittable) - 1))]
        chunks[a] = draw(st.integers(2, gspec["shape"][a]))
    while int(np.prod(chunks)) > max_nodes:
        i = int(np.argmax(chunks))
        chunks[i] = max(1, chunks[i] // 2)
    return chunks


def render_decomposition(chunks, fmt):
    """the object handed to GridMesh.from_grid; falls back to the plain list"""
    chunks = [int(c) for c in chunks]
    if fmt == "tuple":
        return tuple(chunks), fmt
    if fmt == "npint":
        return [np.int64(c) for c in chunks], fmt
    if fmt == "short":
        k = len(chunks)
        while k > 1 and chunks[k - 1] == 1:
            k -= 1
        if k < len(chunks):
            return chunks[:k], fmt
    if fmt == "int" and all(c == 1 for c in chunks[1:]):
        return chunks[0], fmt
    if fmt == "minus1" and all(c == 1 for c in chunks):
        # a single process: the unknown dimension resolves to 1
        return [-1] + chunks[1:], fmt
    if fmt == "auto" and all(c == 1 for c in chunks):
        return "auto", fmt
    return list(chunks), "list"


FORMATS = ["list", "list", "tuple", "npint", "short", "int", "minus1", "auto"]


@st.composite
def mesh_cases(draw, max_cells=8, max_total=512, max_nodes=512, min_cells=1):
    gspec = _fix_cylinder(draw(grids(min_cells=min_cells, max_cells=max_cells, max_total=max_total,
                                     len_lo=1e-2, len_hi=1e2, offset_mag=1e2)))
    chunks = draw(decompositions(gspec, max_nodes=max_nodes))
    return {"grid": gspec, "chunks": chunks, "format": draw(st.sampled_from(FORMATS))}


@st.composite
def long_axis_cases(draw, max_cells=200):
    """one long axis cut into many chunks (after missed seed C17-5: chunk sizes computed with floating-point
    arithmetic lost a cell for pairs such as 15 cells / 11 chunks - none below 15 cells)"""
    n = draw(st.one_of(st.integers(9, max_cells), st.integers(9, 64)))
    c = draw(st.one_of(st.integers(2, n), st.integers(max(2, n // 2), n)))
    cls = draw(st.sampled_from(["unit", "cart", "cart", "cyl"]))
    per = draw(st.booleans())
    if cls == "unit":
        gspec = {"cls": "unit", "shape": [n], "periodic": [per]}
        chunks = [c]
    elif cls == "cart":
        lo = draw(st.sampled_from([0.0, -1.0, 2.5]))
        gspec = {"cls": "cart", "shape": [n, 2], "bounds": [[lo, lo + draw(st.sampled_from([1.0, 3.0, 0.7]))], [0.0, 1.0]],
                 "periodic": [per, False]}
        chunks = [c, draw(st.sampled_from([1, 1, 2]))]
    else:  # the axial direction of a full cylinder
        gspec = {"cls": "cyl", "shape": [2, n], "radius": [0.0, 1.5], "bounds_z": [-1.0, 2.0], "periodic": [False, per]}
        chunks = [1, c]
    return {"grid": gspec, "chunks": chunks, "format": draw(st.sampled_from(["list", "tuple", "npint"]))}


def make_mesh(case):
    grid = build_grid(case["grid"])
    obj, fmt = render_decomposition(case["chunks"], case.get("format", "list"))
    mesh = GridMesh.from_grid(grid, obj)
    return grid, mesh, fmt


# ----------------------------------------------------------------------------------------
# independent model of the decomposition
# ----------------------------------------------------------------------------------------
def edges_of(gspec):
    """documented cell edges per axis: lo + i * (hi - lo) / n"""
    return [lo + (hi - lo) * np.arange(n + 1) / n for (lo, hi), n in zip(axes_bounds(gspec), gspec["shape"])]


def coord_tol(gspec, a, factor=16.0):
    lo, hi = axes_bounds(gspec)[a]
    return factor * EPS * max(abs(lo), abs(hi))


def kappa(gspec):
    """how many ulp of relative uncertainty the cell size of a one-cell chunk can carry"""
    k = 0.0
    for (lo, hi), n in zip(axes_bounds(gspec), gspec["shape"]):
        k = max(k, max(abs(lo), abs(hi)) / ((hi - lo) / n))
    return k


def chunk_sizes(mesh, a):
    idx = [0] * mesh.num_axes
    sizes = []
    for k in range(mesh.shape[a]):
        idx[a] = k
        sizes.append(int(mesh.subgrids[tuple(idx)].shape[a]))
    return sizes


def mesh_labels(case, mesh, fmt):
    gspec, chunks = case["grid"], case["chunks"]
    labels = [f"grid:{gspec['cls']}{len(gspec['shape'])}d", f"format:{fmt}",
              f"split-axes:{sum(c > 1 for c in chunks)}",
              "nodes:" + ("1" if len(mesh) == 1 else "2-4" if len(mesh) <= 4 else "5-16" if len(mesh) <= 16 else ">16")]
    uneven = single = per_split = False
    for a, c in enumerate(chunks):
        if c > 1:
            sizes = chunk_sizes(mesh, a)
            uneven |= len(set(sizes)) > 1
            single |= 1 in sizes
            per_split |= bool(gspec["periodic"][a])
    for flag, name in ((uneven, "uneven-chunks"), (single, "single-cell-chunk"), (per_split, "periodic-axis-split")):
        if flag:
            labels.append(name)
    if "radius" in gspec and gspec["radius"][0] > 0:
        labels.append("grid:annular")
    nt = uneven or single or per_split or sum(c > 1 for c in chunks) >= 2
    return labels, bool(nt)


def check_decomposition_shape(case, mesh):
    chunks = [int(c) for c in case["chunks"]]
    if tuple(mesh.shape) != tuple(chunks) or len(mesh) != int(np.prod(chunks)):
        raise Violation(f"mesh shape {mesh.shape} / size {len(mesh)} for requested decomposition {chunks}",
                        key="tiling:mesh-shape")


# ----------------------------------------------------------------------------------------
# tiling
# ----------------------------------------------------------------------------------------
def judge_tiling(case, grid, mesh):
    gspec = case["grid"]
    cls = gspec["cls"]
    edges = edges_of(gspec)
    nax = len(gspec["shape"])
    want_cls = pde.CartesianGrid if cls in ("unit", "cart") else type(grid)
    starts = []
    for a in range(nax):
        sizes = chunk_sizes(mesh, a)
        if len(sizes) != case["chunks"][a] or sum(sizes) != gspec["shape"][a] or min(sizes) < 1:
            raise Violation(f"chunk sizes {sizes} along axis {a} do not partition {gspec['shape'][a]} cells "
                            f"into {case['chunks'][a]} non-empty chunks", key=f"tiling:{cls}:sizes")
        starts.append(np.concatenate([[0], np.cumsum(sizes)]))
    ktol = 64 * EPS * (1 + kappa(gspec))
    vol_sum = 0.0
    base_cv = np.broadcast_to(grid.cell_volumes, grid.shape)
    for idx in np.ndindex(*mesh.shape):
        sub = mesh.subgrids[idx]
        if not isinstance(sub, want_cls) or (cls not in ("unit", "cart") and type(sub) is not type(grid)):
            raise Violation(f"sub-grid {idx} has class {type(sub).__name__}", key=f"tiling:{cls}:class")
        if sub.num_axes != nax:
            raise Violation(f"sub-grid {idx} has {sub.num_axes} axes", key=f"tiling:{cls}:class")
        block = []
        for a in range(nax):
            s, e = int(starts[a][idx[a]]), int(starts[a][idx[a] + 1])
            block.append(slice(s, e))
            if sub.shape[a] != e - s:
                raise Violation(f"sub-grid {idx}: {sub.shape[a]} cells along axis {a}, the mesh row has {e - s}",
                                key=f"tiling:{cls}:shape")
            lo, hi = (float(x) for x in sub.axes_bounds[a])
            tol = coord_tol(gspec, a)
            if abs(lo - edges[a][s]) > tol or abs(hi - edges[a][e]) > tol:
                raise Violation(
                    f"sub-grid {idx} axis {a}: bounds ({lo!r}, {hi!r}) but cells {s}..{e} of the base grid span "
                    f"({edges[a][s]!r}, {edges[a][e]!r})", key=f"tiling:{cls}:bounds")
            want_per = bool(gspec["periodic"][a]) and case["chunks"][a] == 1
            if bool(sub.periodic[a]) != want_per:
                raise Violation(f"sub-grid {idx} axis {a}: periodic={sub.periodic[a]} (base {gspec['periodic'][a]}, "
                                f"{case['chunks'][a]} chunks)", key=f"tiling:{cls}:periodic")
            ref = edges[a][s:e] + (edges[a][s + 1:e + 1] - edges[a][s:e]) / 2
            got = np.asarray(sub.axes_coords[a], float)
            if got.shape != ref.shape or np.any(np.abs(got - ref) > 2 * tol) or \
                    np.any(np.abs(got - np.asarray(grid.axes_coords[a])[s:e]) > 2 * tol):
                raise Violation(f"sub-grid {idx} axis {a}: cell centres {got!r} differ from the base grid's {ref!r}",
                                key=f"tiling:{cls}:cell-coords")
            dx = (axes_bounds(gspec)[a][1] - axes_bounds(gspec)[a][0]) / gspec["shape"][a]
            if abs(float(sub.discretization[a]) - dx) > ktol * dx:
                raise Violation(f"sub-grid {idx} axis {a}: cell size {sub.discretization[a]!r} vs {dx!r}",
                                key=f"tiling:{cls}:discretization")
        cv = np.broadcast_to(sub.cell_volumes, sub.shape)
        ref_cv = base_cv[tuple(block)]
        if cv.shape != ref_cv.shape or np.any(np.abs(cv - ref_cv) > ktol * np.abs(ref_cv)):
            raise Violation(f"sub-grid {idx}: cell volumes differ from the base grid's block (max rel "
                            f"{np.max(np.abs(cv - ref_cv) / np.abs(ref_cv)):.3g})", key=f"tiling:{cls}:cell-volumes")
        vol_sum += float(sub.volume)
        if sub._mesh is not mesh:
            raise Violation(f"sub-grid {idx} is not linked to its mesh", key=f"tiling:{cls}:link")
    if abs(vol_sum - float(grid.volume)) > ktol * len(mesh) * abs(float(grid.volume)):
        raise Violation(f"volumes of the sub-grids sum to {vol_sum!r}, base grid has {float(grid.volume)!r}",
                        key=f"tiling:{cls}:volume")
    if mesh.basegrid is not grid or grid._mesh is not None:
        raise Violation("base grid was modified / replaced by from_grid", key=f"tiling:{cls}:basegrid")


def check_tiling(case):
    grid, mesh, fmt = make_mesh(case)
    check_decomposition_shape(case, mesh)
    judge_tiling(case, grid, mesh)
    labels, nt = mesh_labels(case, mesh, fmt)
    return {"nt": nt, "labels": labels}


# ----------------------------------------------------------------------------------------
# split / combine
# ----------------------------------------------------------------------------------------
@st.composite
def field_cases(draw):
    case = draw(mesh_cases(max_total=256, max_nodes=128))
    kind = draw(st.sampled_from(["scalar", "vector", "tensor", "collection", "array"]))
    case.update({"kind": kind, "dtype": draw(st.sampled_from(["f8", "f8", "c16"])),
                 "seed": draw(st.integers(0, 2**31)),
                 "members": draw(st.lists(st.sampled_from([0, 0, 1, 2]), min_size=1, max_size=3)),
                 "lead": draw(st.sampled_from([[], [2], [3, 2], [1]])),
                 "label": draw(st.sampled_from([None, "a", "field ψ"])), "out": draw(st.booleans())})
    return case


FIELD_CLASSES = {"scalar": (pde.ScalarField, 0), "vector": (pde.VectorField, 1), "tensor": (pde.Tensor2Field, 2)}


def _same(a, b):
    return a.shape == b.shape and a.dtype == b.dtype and np.array_equal(a, b)


def check_split_combine(case):
    grid, mesh, fmt = make_mesh(case)
    check_decomposition_shape(case, mesh)
    gspec = case["grid"]
    nax, d = len(gspec["shape"]), dim_of(gspec)
    cls = gspec["cls"]
    kind, dtype, seed = case["kind"], case["dtype"], case["seed"]
    shape_full = tuple(n + 2 for n in gspec["shape"])
    valid = (Ellipsis,) + (slice(1, -1),) * nax
    # the object and its padded data
    if kind == "array":
        full = rng_array(seed, tuple(case["lead"]) + shape_full, dtype, "normal")
        field = None
    elif kind == "collection":
        members = []
        for k, r in enumerate(case["members"]):
            fc = [pde.ScalarField, pde.VectorField, pde.Tensor2Field][r]
            f = fc(grid, dtype=complex if dtype == "c16" else float, label=f"m{k}" if k % 2 == 0 else None)
            f._data_full[...] = rng_array(seed + k, (d,) * r + shape_full, dtype, "normal")
            members.append(f)
        field = pde.FieldCollection(members, label=case["label"])
        full = field._data_full
    else:
        fc, r = FIELD_CLASSES[kind]
        field = fc(grid, dtype=complex if dtype == "c16" else float, label=case["label"])
        field._data_full[...] = rng_array(seed, (d,) * r + shape_full, dtype, "normal")
        full = field._data_full
    full = np.array(full)  # private copy used as the reference
    data = full[valid]

    for ghosts, arr in ((False, data), (True, full)):
        tag = "with ghost cells" if ghosts else "valid cells"
        before = arr.copy()
        parts = [mesh.extract_field_data(arr, i, with_ghost_cells=ghosts) for i in range(len(mesh))]
        for i, p in enumerate(parts):
            sub = mesh[i]
            want = arr.shape[: arr.ndim - nax] + (tuple(sub._shape_full) if ghosts else tuple(sub.shape))
            if p.shape != want:
                raise Violation(f"extract_field_data ({tag}) of node {i}: shape {p.shape}, sub-grid needs {want}",
                                key=f"split:{cls}:part-shape")
        out = np.full(arr.shape, np.nan, dtype=arr.dtype) if case["out"] else None
        parts_c = [p.copy() for p in parts]
        res = mesh.combine_field_data(parts_c, out=out, with_ghost_cells=ghosts)
        if case["out"] and res is not out:
            raise Violation("combine_field_data did not return the `out` array", key=f"split:{cls}:out")
        if not _same(res, before):
            bad = np.argwhere(~(res == before))
            raise Violation(f"combine(extract(d)) != d ({tag}) at index {bad[0].tolist() if len(bad) else '?'} "
                            f"(shape {res.shape} vs {before.shape}, dtype {res.dtype} vs {before.dtype})",
                            key=f"split:{cls}:{'ghost' if ghosts else 'valid'}-identity")
        if not np.array_equal(arr, before):
            raise Violation(f"extract/combine modified its input ({tag})", key=f"split:{cls}:input-modified")
        if ghosts:
            # the valid part of a ghost-padded piece is the piece extracted without ghost cells
            for i, p in enumerate(parts):
                q = mesh.extract_field_data(data, i, with_ghost_cells=False)
                if not _same(p[valid], q):
                    raise Violation(f"node {i}: valid part of the padded piece differs from the piece of the "
                                    f"valid data", key=f"split:{cls}:ghost-vs-valid")

    if field is not None:
        for ghosts in (False, True):
            for i in range(len(mesh)):
                sf = mesh.extract_subfield(field, i, with_ghost_cells=ghosts)
                where = f"extract_subfield(node {i}, with_ghost_cells={ghosts})"
                if type(sf) is not type(field):
                    raise Violation(f"{where}: class {type(sf).__name__}", key=f"split:{cls}:subfield-class")
                if sf.grid is not mesh[i]:
                    raise Violation(f"{where}: field is not on the node's sub-grid", key=f"split:{cls}:subfield-grid")
                if sf.label != field.label or sf.dtype != field.dtype:
                    raise Violation(f"{where}: label/dtype {sf.label!r}/{sf.dtype} vs {field.label!r}/{field.dtype}",
                                    key=f"split:{cls}:subfield-attrs")
                if kind == "collection":
                    if len(sf) != len(field) or [type(f) for f in sf] != [type(f) for f in field] \
                            or list(sf.labels) != list(field.labels):
                        raise Violation(f"{where}: members {[type(f).__name__ for f in sf]} labels {list(sf.labels)}",
                                        key=f"split:{cls}:subfield-members")
                want = mesh.extract_field_data(data, i)
                if not _same(np.asarray(sf.data), want):
                    raise Violation(f"{where}: data differ from extract_field_data", key=f"split:{cls}:subfield-data")
                if ghosts:
                    want_full = mesh.extract_field_data(full, i, with_ghost_cells=True)
                    if not _same(np.asarray(sf._data_full), want_full):
                        raise Violation(f"{where}: padded data differ from extract_field_data",
                                        key=f"split:{cls}:subfield-ghost-data")
    labels, nt = mesh_labels(case, mesh, fmt)
    labels += [f"object:{kind}", f"dtype:{dtype}"]
    return {"nt": nt, "labels": labels}


# ----------------------------------------------------------------------------------------
# neighbours
# ----------------------------------------------------------------------------------------
def model_neighbor(chunks, periodic, idx, a, upper):
    """index of the neighbouring node or None (independent re-statement)"""
    size = chunks[a]
    if size == 1:
        return None
    k = idx[a] + (1 if upper else -1)
    if 0 <= k < size:
        pass
    elif periodic[a]:
        k %= size
    else:
        return None
    return idx[:a] + (k,) + idx[a + 1:]


def check_neighbours(case):
    grid, mesh, fmt = make_mesh(case)
    check_decomposition_shape(case, mesh)
    gspec = case["grid"]
    cls = gspec["cls"]
    chunks = [int(c) for c in case["chunks"]]
    nax = len(chunks)
    edges = edges_of(gspec)
    ids = {}
    for i, idx in enumerate(np.ndindex(*chunks)):  # C order
        ids[idx] = i
    wraps = 0
    for idx, i in ids.items():
        got = tuple(int(k) for k in mesh._id2idx(i))
        if got != idx or int(mesh._idx2id(idx)) != i or mesh[i] is not mesh.subgrids[idx]:
            raise Violation(f"node id {i}: _id2idx={got}, _idx2id({idx})={mesh._idx2id(idx)}",
                            key=f"neighbours:{cls}:id-index")
        sub = mesh[i]
        arr = np.zeros(sub._shape_full)
        for a in range(nax):
            for upper in (False, True):
                want_idx = model_neighbor(chunks, gspec["periodic"], idx, a, upper)
                want = None if want_idx is None else ids[want_idx]
                got = mesh.get_neighbor(a, upper, node_id=i)
                if got is not None:
                    got = int(got)
                side = f"axis {a} {'upper' if upper else 'lower'}"
                if got != want:
                    raise Violation(
                        f"get_neighbor({side}, node {i} at {idx}) = {got}, expected {want} "
                        f"(decomposition {chunks}, periodic {gspec['periodic']})",
                        key=f"neighbours:{cls}:{'wrap' if want_idx is not None and abs(want_idx[a] - idx[a]) != 1 or (want is None and got is not None) else 'id'}")
                if want is None:
                    try:
                        _MPIBC(mesh, a, upper, node_id=i)
                    except RuntimeError:
                        pass
                    else:
                        raise Violation(f"_MPIBC could be created for {side} of node {i} which has no neighbour",
                                        key=f"neighbours:{cls}:mpibc-no-neighbour")
                    continue
                back = mesh.get_neighbor(a, not upper, node_id=want)
                if back is None or int(back) != i:
                    raise Violation(f"node {i} --{side}--> {want}, but the opposite neighbour of {want} is {back}",
                                    key=f"neighbours:{cls}:asymmetric")
                other = mesh[want]
                wrap = (idx[a] == chunks[a] - 1) if upper else (idx[a] == 0)
                wraps += wrap
                # geometric adjacency: my face coincides with the neighbour's opposite face
                mine = float(sub.axes_bounds[a][1 if upper else 0])
                theirs = float(other.axes_bounds[a][0 if upper else 1])
                if wrap:
                    lo, hi = edges[a][0], edges[a][-1]
                    ok = abs(mine - (hi if upper else lo)) <= coord_tol(gspec, a) and \
                        abs(theirs - (lo if upper else hi)) <= coord_tol(gspec, a)
                else:
                    ok = abs(mine - theirs) <= coord_tol(gspec, a)
                if not ok:
                    raise Violation(f"node {i} {side}: face at {mine!r}, neighbour {want} has its opposite face at "
                                    f"{theirs!r} (wrap-around={wrap})", key=f"neighbours:{cls}:adjacency")
                for b in range(nax):
                    if b != a and other.shape[b] != sub.shape[b]:
                        raise Violation(f"node {i} and its neighbour {want} have different extents along axis {b}",
                                        key=f"neighbours:{cls}:face-shape")
                bc = _MPIBC(mesh, a, upper, node_id=i)
                bc_o = _MPIBC(mesh, a, not upper, node_id=want)
                if bc._neighbor_id != want or bc.grid is not sub or bc.axis != a or bool(bc.upper) != upper:
                    raise Violation(f"_MPIBC({side}, node {i}): neighbour {bc._neighbor_id}, axis {bc.axis}, "
                                    f"upper {bc.upper}", key=f"neighbours:{cls}:mpibc")
                if arr[bc._idx_write].shape != np.zeros(other._shape_full)[bc_o._idx_read].shape:
                    raise Violation(f"_MPIBC index sets of node {i} ({side}) and node {want} have different shapes",
                                    key=f"neighbours:{cls}:mpibc-shape")
                f_mine = MPIFlags.boundary_upper(i, want) if upper else MPIFlags.boundary_lower(i, want)
                f_theirs = MPIFlags.boundary_lower(want, i) if upper else MPIFlags.boundary_upper(want, i)
                if f_mine != f_theirs:
                    raise Violation(f"message flags of the connection {i} <-> {want} differ: {f_mine} vs {f_theirs}",
                                    key=f"neighbours:{cls}:flags")
                f_other_side = MPIFlags.boundary_lower(i, want) if upper else MPIFlags.boundary_upper(i, want)
                if f_other_side == f_mine:
                    raise Violation(f"both sides of node {i} use the same message flag towards node {want}",
                                    key=f"neighbours:{cls}:flags")
    # the package's own extraction of boundary conditions (possible for node 0 = current node)
    with warnings.catch_warnings():
        warnings.simplefilter("ignore", DeprecationWarning)
        try:
            bcs0 = mesh[0].get_boundary_conditions("auto_periodic_neumann")
        except (RuntimeError, ValueError) as e:
            raise Violation(f"node 0 cannot build its boundary conditions from 'auto_periodic_neumann' "
                            f"(decomposition {chunks}, periodic {gspec['periodic']}): {type(e).__name__}: {e}",
                            key=f"neighbours:{cls}:extract-bc") from None
    idx0 = (0,) * nax
    for a in range(nax):
        for upper in (False, True):
            has = model_neighbor(chunks, gspec["periodic"], idx0, a, upper) is not None
            b = bcs0[a][upper]
            if isinstance(b, _MPIBC) != has or b.grid is not mesh[0]:
                raise Violation(f"extract_boundary_conditions(node 0): axis {a} upper={upper} gives "
                                f"{type(b).__name__}, neighbour expected: {has}", key=f"neighbours:{cls}:extract-bc")
    labels, nt = mesh_labels(case, mesh, fmt)
    if wraps:
        labels.append("wrap-around-links")
    return {"nt": nt, "labels": labels}


# ----------------------------------------------------------------------------------------
# operator equivalence
# ----------------------------------------------------------------------------------------
def uniform_bc(bc, gspec, chunks, allow_anti_split=False):
    """restrict a drawn assignment to what to_subgrid can transfer (values uniform along the face),
    keep Robin denominators away from zero and curvature conditions to chunks with >= 2 cells"""
    rank = bc["rank"]
    bc = {**bc, "axes": [ax if isinstance(ax, str) else {k: dict(v) for k, v in ax.items()} for ax in bc["axes"]]}
    one_d = len(gspec["shape"]) == 1
    excluded = 0
    for a, ax in enumerate(bc["axes"]):
        if isinstance(ax, str):
            if ax == "anti-periodic" and chunks[a] > 1 and not allow_anti_split:
                bc["axes"][a] = "periodic"  # known finding, see antiperiodic_split_axis
                excluded += 1
            continue
        dx = gb.spacing(gspec, a)
        for key in ("low", "high"):
            s = ax[key]
            vrank = rank - 1 if s["normal"] else rank
            for name in ("v", "c"):
                if name in s and s[name]["t"] in ("field", "cexpr") and not (one_d and s[name]["t"] == "field"):
                    s[name] = {"t": "tensor", "seed": s[name].get("seed", 7)} if vrank >= 1 and \
                        s[name]["t"] == "field" else {"t": "num", "x": 0.75}
            if s["kind"] == "curvature" and chunks[a] > 1 and gspec["shape"][a] // chunks[a] < 2:
                s["kind"] = "derivative"
            if s["kind"] == "mixed":
                g = s["v"]
                if g["t"] == "num":
                    x = g["x"]
                    if not isinstance(x, dict) and abs(2 + x * dx) < 0.1:
                        s["v"] = {"t": "num", "x": abs(x)}
                    elif isinstance(x, dict) and abs(2 + complex(x["re"], x["im"]) * dx) < 0.1:
                        s["v"] = {"t": "num", "x": 1.0}
                elif 4.5 * dx > 1.8:  # tensor/array entries in (-3, 3) (complex: modulus < 4.3)
                    s["v"] = {"t": "num", "x": 0.5}
                    if s["c"]["t"] != "num":
                        s["c"] = {"t": "num", "x": -1.25}
    if bc["style"] == "axis" and any(not isinstance(ax, str) and ax["low"] != ax["high"] for ax in bc["axes"]):
        bc["style"] = "sides"
    if bc["style"] == "single":
        first = next((ax for ax in bc["axes"] if not isinstance(ax, str)), None)
        if first is None or any(isinstance(ax, str) or ax["low"] != first["low"] or ax["high"] != first["low"]
                                for ax in bc["axes"]):
            bc["style"] = "sides"
    return bc, excluded


BC_STYLES = ("sides", "sides", "axis", "named", "wildcard", "single", "objects", "auto_neumann",
             "auto_dirichlet")


@st.composite
def operator_cases(draw, max_cells=8, max_total=200, max_nodes=24, jit=False):
    gspec = _fix_cylinder(draw(grids(min_cells=1, max_cells=max_cells, max_total=max_total, len_lo=1e-1,
                                     len_hi=1e1, offset_mag=10.0, max_axes=2 if jit else 3)))
    chunks = draw(decompositions(gspec, max_nodes=max_nodes))
    op = draw(gf.operators(gspec, with_patterns=not jit))
    rank_in, _, _ = gf.op_info(op["name"])
    dtype = "f8" if jit else draw(st.sampled_from(["f8", "f8", "c16"]))
    allow_normal = op["name"] in ("divergence", "tensor_divergence")
    bc = draw(gb.bc_assignments(gspec, rank=rank_in, dtype=dtype, allow_normal=allow_normal, allow_expr=False,
                                styles=BC_STYLES))
    bc, excluded = uniform_bc(bc, gspec, chunks)
    return {"grid": gspec, "chunks": chunks, "format": draw(st.sampled_from(["list", "tuple", "short"])),
            "op": op, "dtype": dtype, "bc": bc, "seed": draw(st.integers(0, 2**31)),
            "dist": draw(st.sampled_from(["normal", "int", "uniform"])), "excluded_antiperiodic": excluded}


def serial_exchange(mesh, bcs, fulls, rank):
    """Fill the ghost cells of every node: faces with a neighbour through the index sets of the
    package's _MPIBC objects (what send_ghost_cells / set_ghost_cells move via MPI), outer faces
    through the global condition transferred with to_subgrid."""
    nax = mesh.num_axes
    for i in range(len(mesh)):
        sub = mesh[i]
        for a in range(nax):
            for upper in (False, True):
                j = mesh.get_neighbor(a, upper, node_id=i)
                if j is None:
                    bcs[a][upper].to_subgrid(sub).set_ghost_cells(fulls[i])
                else:
                    mine = _MPIBC(mesh, a, upper, rank=rank, node_id=i)
                    theirs = _MPIBC(mesh, a, not upper, rank=rank, node_id=int(j))
                    fulls[i][mine._idx_write] = fulls[int(j)][theirs._idx_read]


def check_operator(case):
    gspec, op, dtype = case["grid"], case["op"], case["dtype"]
    name, opts = op["name"], op["opts"]
    rank_in, rank_out, _ = gf.op_info(name)
    if gb.robin_denominators(case["bc"], gspec, dtype, 0.0) < 0.1:
        raise HarnessError("generator produced a singular Robin condition")
    grid, mesh, fmt = make_mesh(case)
    check_decomposition_shape(case, mesh)
    data = gf.field_data(gspec, rank_in, case["seed"], dtype, case["dist"])
    fcls = [pde.ScalarField, pde.VectorField, pde.Tensor2Field][rank_in]
    field = fcls(grid, data.copy(), dtype=data.dtype)
    with warnings.catch_warnings():
        warnings.simplefilter("ignore", DeprecationWarning)
        bcs, style = gb.make_boundaries(case["bc"], gspec, grid, dtype)
    whole = field.copy()
    ref = whole.apply_operator(name, bcs, **opts).data
    if not np.all(np.isfinite(ref)):
        raise Rejected("non-finite reference result")
    tol = gf.op_tolerance(gspec, name, whole._data_full, rel=1e-12 + 64 * EPS * kappa(gspec))
    # split, exchange, apply, combine
    fulls = []
    for i in range(len(mesh)):
        sf = mesh.extract_subfield(field, i)
        full = np.array(sf._data_full)
        ghost = np.ones(full.shape[full.ndim - grid.num_axes:], bool)
        ghost[(slice(1, -1),) * grid.num_axes] = False
        full[..., ghost] = np.nan  # nothing but the exchange / the conditions may provide these
        fulls.append(full)
    serial_exchange(mesh, bcs, fulls, rank_in)
    outs = []
    d = dim_of(gspec)
    for i in range(len(mesh)):
        sub = mesh[i]
        raw = sub.make_operator_no_bc(name, **opts)
        out = np.full((d,) * rank_out + tuple(sub.shape), np.nan, dtype=data.dtype)
        raw(fulls[i], out)
        outs.append(out)
    combined = mesh.combine_field_data(outs)
    if combined.shape != ref.shape:
        raise Violation(f"combined result has shape {combined.shape}, whole-grid result {ref.shape}",
                        key=f"operator:{gspec['cls']}:{name}:shape")
    bad = ~(np.abs(combined - ref) <= tol)
    if np.any(bad):
        i = np.unravel_index(int(np.argmax(np.where(bad, np.abs(combined - ref), 0))), ref.shape)
        raise Violation(
            f"{name}{opts} on {grid_label(gspec)} {tuple(gspec['shape'])} split into {case['chunks']}: combined "
            f"sub-grid result differs from the whole-grid result by {np.abs(combined - ref)[i]:.3g} > tol {tol:.3g} "
            f"at {tuple(int(k) for k in i)} ({combined[i]!r} vs {ref[i]!r}); bc={gb.bc_kinds_key(case['bc'])}",
            key=f"operator:{gspec['cls']}:{name}")
    labels, nt = mesh_labels(case, mesh, fmt)
    labels += [f"op:{name}", f"dtype:{dtype}", f"style:{style}"]
    if case.get("excluded_antiperiodic"):
        labels.append("excluded:anti-periodic-on-split-axis(known finding)->periodic")
    for ax in case["bc"]["axes"]:
        if isinstance(ax, str):
            labels.append(f"kind:{ax}")
        else:
            labels += [f"kind:{'normal_' if ax[k]['normal'] else ''}{ax[k]['kind']}" for k in ("low", "high")]
    return {"nt": nt and len(mesh) > 1, "labels": sorted(set(labels))}


# ----------------------------------------------------------------------------------------
# anti-periodic axis that is split (dedicated sub-check, see ASSUMPTIONS)
# ----------------------------------------------------------------------------------------
@st.composite
def antiperiodic_cases(draw):
    gspec = draw(grids(classes=("unit", "cart"), min_cells=2, max_cells=6, max_total=100, len_lo=1e-1,
                       len_hi=1e1, offset_mag=10.0, max_axes=2))
    gspec = dict(gspec, periodic=[True] + list(gspec["periodic"][1:]))
    chunks = draw(decompositions(gspec, max_nodes=16))
    chunks[0] = max(2, chunks[0])
    bc = draw(gb.bc_assignments(gspec, rank=0, dtype="f8", allow_normal=False, allow_expr=False,
                                styles=("sides",)))
    bc, _ = uniform_bc(bc, gspec, chunks, allow_anti_split=True)
    bc["axes"][0] = "anti-periodic"
    return {"grid": gspec, "chunks": chunks, "format": "list", "op": {"name": "laplace", "opts": {}},
            "dtype": "f8", "bc": bc, "seed": draw(st.integers(0, 2**31)), "dist": "normal"}


def check_antiperiodic(case):
    try:
        rec = check_operator(case)
    except Violation as v:
        raise Violation(
            "anti-periodic condition on an axis that is split: every node gets a plain _MPIBC on that axis "
            "(extract_boundary_conditions looks only at get_neighbor), so the sign flip of the wrap-around "
            "link is lost and the combined result is the one of periodic conditions. " + v.detail,
            key="C17:extract_boundary_conditions:anti-periodic-split-axis") from None
    return rec


# ----------------------------------------------------------------------------------------
# inadmissible decompositions
# ----------------------------------------------------------------------------------------
@st.composite
def inadmissible_cases(draw):
    why = draw(st.sampled_from(["too-many-chunks", "cyl-radial", "cyl-hollow", "minus1", "zero", "two-unknown"]))
    if why in ("cyl-radial", "cyl-hollow"):
        gspec = draw(grids(classes=("cyl",), min_cells=2, max_cells=6, len_lo=1e-1, len_hi=1e1, offset_mag=10.0,
                           force_hole=(why == "cyl-hollow")))
        chunks = draw(decompositions(gspec, max_nodes=36, allow_radial_cyl=True))
        if why == "cyl-radial":
            chunks[0] = max(2, chunks[0])
        elif all(c == 1 for c in chunks):
            chunks[1] = 2
        return {"grid": gspec, "chunks": chunks, "format": "list", "why": why}
    gspec = _fix_cylinder(draw(grids(min_cells=1, max_cells=5, max_total=60, len_lo=1e-1, len_hi=1e1,
                                     offset_mag=10.0)))
    chunks = draw(decompositions(gspec, max_nodes=60))
    a = draw(st.integers(0, len(chunks) - 1))
    if why == "too-many-chunks":
        chunks[a] = gspec["shape"][a] + draw(st.integers(1, 3))
    elif why == "zero":
        chunks[a] = draw(st.sampled_from([0, -2, -3]))
    elif why == "minus1":
        chunks[a] = -1
        b = (a + 1) % len(chunks)
        if all(c == 1 for i, c in enumerate(chunks) if i != a) and len(chunks) > 1:
            chunks[b] = min(2, gspec["shape"][b]) if gspec["shape"][b] >= 2 else 1
    else:
        if len(chunks) == 1:
            chunks[0] = gspec["shape"][0] + 1
            why = "too-many-chunks"
        else:
            chunks[a] = -1
            chunks[(a + 1) % len(chunks)] = -1
    return {"grid": gspec, "chunks": chunks, "format": "list", "why": why}


def check_inadmissible(case):
    grid = build_grid(case["grid"])
    why = case["why"]
    try:
        mesh = GridMesh.from_grid(grid, [int(c) for c in case["chunks"]])
    except (RuntimeError, ValueError) as e:  # incl. NotImplementedError
        return {"nt": True, "labels": [f"rejected:{why}:{type(e).__name__}", f"grid:{case['grid']['cls']}"]}
    # accepted: then it has to be a proper tiling of the grid
    eff = dict(case, chunks=list(mesh.shape))
    judge_tiling(eff, grid, mesh)
    return {"nt": False, "labels": [f"accepted:{why}", f"grid:{case['grid']['cls']}"]}


RULE_NT = ("non-trivial = uneven chunk sizes, or a single-cell chunk, or >= 2 split axes, or a periodic axis "
           "that is split")

# ---------------------------------------------------------------------------------------
# a mesh built through the documented constructor GridMesh(basegrid, subgrids) with hand-chosen chunk sizes
# (after missed seed C17-7: the slices were recomputed from the equal decomposition instead of being read
# from the sub-grids): split then combine is the identity and every node sees the cells of ITS sub-grid
# ---------------------------------------------------------------------------------------
@st.composite
def handmade_cases(draw):
    sizes = draw(st.lists(st.integers(1, 6), min_size=2, max_size=4))
    cls = draw(st.sampled_from(["cart", "sph", "polar"]))
    lo = draw(st.sampled_from([0.0, 0.5, -2.0])) if cls == "cart" else draw(st.sampled_from([0.0, 0.5]))
    return {"sizes": sizes, "cls": cls, "lo": lo, "dx": draw(st.sampled_from([1.0, 0.25, 0.3])),
            "rank": draw(st.sampled_from([0, 0, 1])), "ghost": draw(st.booleans()), "seed": draw(st.integers(0, 2**31))}


def check_handmade(case):
    import pde

    sizes = [int(k) for k in case["sizes"]]
    n, lo, dx = sum(sizes), float(case["lo"]), float(case["dx"])
    edges = [lo + dx * k for k in np.cumsum([0] + sizes)]
    if case["cls"] == "cart":
        base = pde.CartesianGrid([[edges[0], edges[-1]]], n)
        subs = [pde.CartesianGrid([[a, b]], k) for a, b, k in zip(edges[:-1], edges[1:], sizes)]
    else:
        G = pde.SphericalSymGrid if case["cls"] == "sph" else pde.PolarSymGrid
        base = G((edges[0], edges[-1]), n)
        subs = [G((a, b), k) for a, b, k in zip(edges[:-1], edges[1:], sizes)]
    mesh = GridMesh(base, subs)
    rank = int(case["rank"])
    cls = [pde.ScalarField, pde.VectorField][rank]
    field = cls.random_normal(base, rng=np.random.default_rng(case["seed"]))
    # (the ghost cells of a new field are uninitialised memory - possibly NaN, which compares unequal to itself:
    # false alarm at VERIF_SEED=2 - so the whole padded array gets defined numbers)
    field._data_full[...] = np.random.default_rng(case["seed"] + 1).normal(size=field._data_full.shape)
    ghost = bool(case["ghost"])
    full = field._data_full if ghost else field.data
    starts = np.cumsum([0] + sizes)
    parts = []
    for node, (start, k) in enumerate(zip(starts[:-1], sizes)):
        part = np.asarray(mesh.extract_field_data(full, node_id=node, with_ghost_cells=ghost))
        want = full[..., start:start + k + 2] if ghost else full[..., start:start + k]
        if part.shape != want.shape or not np.array_equal(part, want):
            raise Violation(
                f"hand-made mesh of chunk sizes {sizes} on {type(base).__name__}: node {node} (sub-grid of {k} cells from "
                f"cell {start}) received data of shape {part.shape}, its cells have shape {want.shape}"
                + ("" if part.shape != want.shape else " with other values"), key=f"handmade:{case['cls']}:extract")
        sub = mesh.extract_subfield(field, node_id=node, with_ghost_cells=ghost)
        if sub.grid.shape != (k,) or not np.array_equal(sub.data, field.data[..., start:start + k]):
            raise Violation(f"hand-made mesh {sizes}: extract_subfield of node {node} does not hold the cells of its "
                            f"sub-grid", key=f"handmade:{case['cls']}:subfield")
        parts.append(part)
    back = np.asarray(mesh.combine_field_data(parts, with_ghost_cells=ghost))
    if back.shape != full.shape or not np.array_equal(back[..., 1:-1] if ghost else back, field.data):
        raise Violation(f"hand-made mesh {sizes}: split then combine is not the identity", key=f"handmade:{case['cls']}:combine")
    equal = len(set(sizes)) == 1
    return {"nt": not equal, "labels": [f"grid:{case['cls']}", f"chunks:{len(sizes)}", f"rank:{rank}",
                                        "ghost" if ghost else "valid", "equal-chunks" if equal else "uneven-chunks"],
            "key": [case["cls"], sizes, case["lo"], case["dx"], rank, ghost]}


SUBCHECKS = [
    SubCheck("handmade_mesh", strategy=handmade_cases, check=check_handmade, mode="pure",
             budget={"quick": 600, "thorough": 8000}, shards={"quick": 1, "thorough": 2},
             rule="GridMesh(basegrid, subgrids) with hand-chosen chunk sizes; non-trivial = chunk sizes not all equal"),
    SubCheck("tiling", strategy=mesh_cases, check=check_tiling, mode="pure",
             budget={"quick": 3000, "thorough": 40000}, shards={"quick": 3, "thorough": 8}, rule=RULE_NT),
    SubCheck("tiling_long_axis", strategy=long_axis_cases, check=check_tiling, mode="pure",
             budget={"quick": 1500, "thorough": 30000}, shards={"quick": 2, "thorough": 8},
             rule="9..200 cells along one axis cut into 2..cells chunks; " + RULE_NT),
    SubCheck("split_combine", strategy=field_cases, check=check_split_combine, mode="pure",
             budget={"quick": 2400, "thorough": 40000}, shards={"quick": 3, "thorough": 8}, rule=RULE_NT),
    SubCheck("neighbours", strategy=lambda: mesh_cases(max_total=256, max_nodes=128), check=check_neighbours,
             mode="pure", budget={"quick": 2000, "thorough": 30000}, shards={"quick": 3, "thorough": 8},
             rule=RULE_NT),
    SubCheck("operator_equivalence", strategy=operator_cases, check=check_operator, mode="nojit",
             budget={"quick": 3000, "thorough": 40000}, shards={"quick": 5, "thorough": 16},
             rule=RULE_NT + " and more than one node"),
    SubCheck("operator_equivalence_jit", strategy=lambda: operator_cases(max_cells=6, max_total=40, max_nodes=4,
                                                                         jit=True),
             check=check_operator, mode="jit", budget={"quick": 60, "thorough": 1000},
             shards={"quick": 3, "thorough": 12}, time_limit={"quick": 120, "thorough": 1500},
             rule=RULE_NT + " and more than one node"),
    SubCheck("antiperiodic_split_axis", strategy=antiperiodic_cases, check=check_antiperiodic, mode="nojit",
             budget={"quick": 40, "thorough": 400}, shards={"quick": 1, "thorough": 2},
             rule="non-trivial = an anti-periodic axis is split into >= 2 chunks"),
    SubCheck("inadmissible_decompositions", strategy=inadmissible_cases, check=check_inadmissible, mode="pure",
             budget={"quick": 600, "thorough": 6000}, shards={"quick": 1, "thorough": 2},
             rule="non-trivial = the decomposition was rejected with a documented error type"),
]
