"""C06 - time steppers realise their scheme exactly, on every backend.

Test problem (a regular :class:`pde.PDEBase` subclass, so both backends run py-pde's own
stepper code)::

    du/dt = a*u + b*p((t - tc)/ts)  [+ g*sin(u) in the differential sub-check only]

with ``a`` real or complex, ``p`` a polynomial of degree <= 3, every cell of a small
``UnitGrid`` evolving independently.  Oracles are the textbook one-step maps (Euler,
classical RK4, backward Euler, Crank-Nicolson, two-step Adams-Bashforth with py-pde's
documented start-up ``u_{-1} = u_0 - dt f(u_0, t_0)``, Fehlberg's RKF4(5) table as
rationals), the closed-form multipliers of the property statement for ``b = 0`` and the
quadrature rules the schemes reduce to for ``a = 0`` (which isolate the stage times).

Tolerances are condition-aware: the reference iteration carries a running bound
``E_{k+1} = |R(z)| E_k + delta_k`` where ``delta_k`` collects (i) round-off ``16 eps G
(|u| + dt|b||p|)``, (ii) the conditioning of the forcing with respect to round-off in the
time argument, ``dt |b| |p'| * (few ulp of t)``, and (iii) for the fixed-point schemes the
residual the convergence criterion admits, ``maxerror * sqrt(N) * rho/(1-rho)``.
"""

from __future__ import annotations

import cmath
import math
import signal
from fractions import Fraction as Fr

import numpy as np
from hypothesis import strategies as st

from vlib import env

env.setup()

import pde  # noqa: E402

from vlib.core import HarnessError, Rejected, SubCheck, Violation, cnum  # noqa: E402

PROPERTY = "C06"
RULE = ("non-trivial = n >= 2 steps and (forcing b != 0 or complex rate or t_start != 0) and the "
        "condition-aware tolerance is below 1e-8 of the result (adaptive: >= 2 accepted steps); "
        "distinct = whole case (solver, backend, parameters, state, cuts)")
ASSUMPTIONS = [
    "|a*dt| <= 2 for the explicit schemes, <= 0.5 for the fixed-point schemes (implicit, "
    "Crank-Nicolson) and Adams-Bashforth; maxerror = 1e-13 * max|u| and maxiter = 10^4 so that "
    "'iterations converged' is satisfiable; explicit_fraction in [0, 0.8]",
    "segments are produced by a tracker whose interrupts are whole multiples of dt after t_start "
    "(step accounting for other ranges is property C07)",
    "adaptive clauses: initial dt <= 1e5 * range in the main search (larger ones are counted under the "
    "label 'excluded:...' and judged by the dedicated sub-check adaptive_huge_initial_dt = finding "
    "F-C06a), tracker cuts between 5 % and 95 % of the range (a tracker within 1e-6*dt of t_end makes "
    "the controller stop there - its documented termination tolerance - and is not generated), error "
    "bound only for autonomous linear problems with |arg(-a)| <= 60 degrees, |a|*T <= 5, tolerance "
    "in [1e-6, 1e-3], |u0| in [0.1, 10]; 'ends exactly' = within the code's dt_min = 1e-10 plus 8 ulp",
    "single trial step (rkf45_single_step_polynomial): initial dt >= 1.25 * range so that the first "
    "trial step is the whole range; tolerance a factor 4..100 away from the scheme's own estimate",
    "non-autonomous adaptive Euler runs are not judged (outside the statement)",
    "scipy: methods RK45 / DOP853 (+ Radau for real problems; solve_ivp rejects complex states for "
    "Radau, BDF is not accurate to 100x its tolerance), rtol in [1e-10, 1e-6], atol in [1e-12, 1e-8], "
    "|a|*T <= 5, Re(a)*T <= 1; |u| in the tolerance is the largest magnitude of the component along "
    "the exact trajectory",
    "the milstein solver needs a stochastic equation and is covered by C13, not here",
]

EPS = float(np.finfo(float).eps)
FIXED_SOLVERS = ["euler", "runge-kutta", "implicit", "crank-nicolson", "adams-bashforth"]
FIXED_POINT = ("implicit", "crank-nicolson")
DT_MIN = 1e-10  # documented AdaptiveSolverBase.dt_min
HUGE_DT0 = 1e5  # initial adaptive steps beyond HUGE_DT0 * range are routed to the finding sub-check
KEY_HUGE_DT0 = "C06:controller.run:initial-dt-above-1e6-range-ends-at-start"


# ---------------------------------------------------------------------------------------
# the equation under test
# ---------------------------------------------------------------------------------------
class ForcedLinearODE(pde.PDEBase):
    """``du/dt = a u + g sin(u) + b p((t - tc)/ts)`` in every cell."""

    def __init__(self, a, b, coeffs, tc, ts, g=0.0):
        super().__init__()
        self.a, self.b, self.g = a, b, float(g)
        self.coeffs = tuple(float(c) for c in coeffs)
        self.tc, self.ts = float(tc), float(ts)
        self.complex_valued = isinstance(a, complex) or isinstance(b, complex)
        self.explicit_time_dependence = bool(b != 0)

    def _rate(self):
        a, b, g = self.a, self.b, self.g
        c0, c1, c2, c3 = self.coeffs
        tc, ts = self.tc, self.ts
        if g == 0:
            def rate(state_data, t):
                s = (t - tc) / ts
                return a * state_data + b * (c0 + s * (c1 + s * (c2 + s * c3)))
        else:
            def rate(state_data, t):
                s = (t - tc) / ts
                return (a * state_data + g * np.sin(state_data)
                        + b * (c0 + s * (c1 + s * (c2 + s * c3))))
        return rate

    def evolution_rate(self, state, t=0):
        return pde.ScalarField(state.grid, self._rate()(state.data, t))

    def make_evolution_rate(self, state, backend):
        return self._rate()


# ---------------------------------------------------------------------------------------
# decoding of cases
# ---------------------------------------------------------------------------------------
def enc(x):
    """number -> JSON-able"""
    if isinstance(x, complex):
        return {"re": float(x.real), "im": float(x.imag)}
    return float(x)


def dec(x):
    x = cnum(x)
    return complex(x) if isinstance(x, complex) else float(x)


def ulp(x):
    return float(np.spacing(abs(float(x))))


class Problem:
    """Decoded problem definition shared by all sub-checks."""

    def __init__(self, case):
        self.a = dec(case["a"])
        self.b = dec(case["b"])
        self.g = float(case.get("g", 0.0))
        self.c = [float(v) for v in case["c"]]
        self.tc = float(case["tc"])
        self.ts = float(case["ts"])
        self.u0 = [dec(v) for v in case["u0"]]
        self.complex_state = any(isinstance(v, complex) for v in self.u0)
        self.is_complex = self.complex_state or isinstance(self.a, complex) or isinstance(self.b, complex)
        self.t_start = float(case["t_start"])
        self.shape = [int(k) for k in case.get("shape") or [len(self.u0)]]

    def equation(self):
        return ForcedLinearODE(self.a, self.b, self.c, self.tc, self.ts, self.g)

    def field(self):
        grid = pde.UnitGrid(self.shape)
        dtype = complex if self.complex_state else float
        return pde.ScalarField(grid, np.array(self.u0, dtype=dtype).reshape(self.shape), dtype=dtype)

    def u0_array(self):
        return np.array(self.u0, dtype=complex if self.is_complex else float)

    # -- the forcing and its bounds ------------------------------------------------
    def p(self, t):
        c0, c1, c2, c3 = self.c
        s = (t - self.tc) / self.ts
        return c0 + s * (c1 + s * (c2 + s * c3))

    def force(self, t):
        return self.b * self.p(t)

    def f(self, u, t):
        res = self.a * u + self.b * self.p(t)
        if self.g:
            res = res + self.g * np.sin(u)
        return res

    def p_bounds(self, t_lo, t_hi):
        """(max |p|, max |dp/dt|) over [t_lo, t_hi] (crude upper bounds)"""
        smax = max(abs(t_lo - self.tc), abs(t_hi - self.tc)) / abs(self.ts)
        c = [abs(v) for v in self.c]
        pmax = c[0] + smax * (c[1] + smax * (c[2] + smax * c[3]))
        dmax = (c[1] + smax * (2 * c[2] + smax * 3 * c[3])) / abs(self.ts)
        return pmax, dmax

    def exact(self, t):
        """exact solution of the linear problem (g = 0) at time t with 60 digits"""
        import mpmath as mp

        assert self.g == 0
        with mp.workdps(60):
            a = mp.mpmathify(self.a)
            b = mp.mpmathify(self.b)
            ts, tc, t0 = mp.mpf(self.ts), mp.mpf(self.tc), mp.mpf(self.t_start)
            t = mp.mpf(t)
            c = [mp.mpf(v) for v in self.c]

            def dpoly(k, tt):  # k-th time derivative of p
                s = (tt - tc) / ts
                tot = mp.mpf(0)
                for j in range(k, 4):
                    tot += c[j] * mp.ff(j, k) * s ** (j - k)
                return tot / ts**k

            res = []
            if a == 0:
                def P(tt):  # antiderivative of p
                    s = (tt - tc) / ts
                    return ts * sum(c[j] * s ** (j + 1) / (j + 1) for j in range(4))

                for u0 in self.u0:
                    res.append(mp.mpmathify(u0) + b * (P(t) - P(t0)))
            else:
                def q(tt):  # polynomial particular solution of q' = a q + b p
                    return -b * sum(dpoly(k, tt) / a ** (k + 1) for k in range(4))

                growth = mp.exp(a * (t - t0))
                for u0 in self.u0:
                    res.append(q(t) + (mp.mpmathify(u0) - q(t0)) * growth)
            return np.array([complex(v) for v in res])


# ---------------------------------------------------------------------------------------
# reference schemes (textbook definitions)
# ---------------------------------------------------------------------------------------
def rk4_poly(z):
    return 1 + z + z**2 / 2 + z**3 / 6 + z**4 / 24


def multiplier(solver, z):
    """closed-form one-step multipliers of the property statement (b = 0)"""
    if solver == "euler":
        return 1 + z
    if solver == "runge-kutta":
        return rk4_poly(z)
    if solver == "implicit":
        return 1 / (1 - z)
    if solver == "crank-nicolson":
        return (1 + z / 2) / (1 - z / 2)
    raise ValueError(solver)


def ref_step(solver, prob, u, t, dt):
    """one step of a one-step scheme for du/dt = f(u, t) (linear f for the implicit ones)"""
    f = prob.f
    if solver == "euler":
        return u + dt * f(u, t)
    if solver == "runge-kutta":  # the classical fourth-order scheme
        k1 = f(u, t)
        k2 = f(u + dt / 2 * k1, t + dt / 2)
        k3 = f(u + dt / 2 * k2, t + dt / 2)
        k4 = f(u + dt * k3, t + dt)
        return u + dt / 6 * (k1 + 2 * k2 + 2 * k3 + k4)
    a = prob.a
    assert prob.g == 0
    if solver == "implicit":  # u' = u + dt f(u', t + dt), solved exactly
        return (u + dt * prob.force(t + dt)) / (1 - a * dt)
    if solver == "crank-nicolson":  # u' = u + dt/2 (f(u, t) + f(u', t + dt))
        return (u * (1 + a * dt / 2) + dt / 2 * (prob.force(t) + prob.force(t + dt))) / (1 - a * dt / 2)
    raise ValueError(solver)


def ref_trajectory(solver, prob, dt, n, alpha=0.0, maxerror=0.0, nseg=1):
    """reference states u_0..u_n and running error bounds E_0..E_n"""
    a, b = prob.a, prob.b
    z = a * dt
    az = abs(z)
    t0 = prob.t_start
    ncell = len(prob.u0)
    pmax, dmax = prob.p_bounds(t0 - dt, t0 + n * dt)
    force_scale = dt * abs(b) * pmax
    # allowed round-off in the time arguments of the code under test
    dtime = (8 + 4 * nseg) * ulp(max(abs(t0), abs(t0 + n * dt), abs(t0 - prob.tc), n * dt))
    time_term = dt * abs(b) * dmax * dtime
    if solver in FIXED_POINT:
        rho = az if solver == "implicit" else abs(alpha + (1 - alpha) * z / 2)
        if rho >= 0.95:
            raise Rejected("contraction factor too close to one")
        G = 2 / (1 - rho)
        conv = 2 * maxerror * math.sqrt(ncell) * rho / (1 - rho)
        amp = abs(multiplier(solver, z))
    else:
        G = math.exp(az)
        conv = 0.0
        amp = abs(multiplier(solver, z)) if solver != "adams-bashforth" else None

    us = [prob.u0_array()]
    E = [0.0]
    if solver == "adams-bashforth":
        # u_{k+1} = u_k + dt (3/2 f_k - 1/2 f_{k-1}); documented start-up:
        # the missing previous state is estimated by one backward Euler-type step
        u_prev = us[0] - dt * prob.f(us[0], t0)
        E_prev = 0.0
        for k in range(n):
            t = t0 + k * dt
            u = us[-1]
            new = u + dt * (1.5 * prob.f(u, t) - 0.5 * prob.f(u_prev, t - dt))
            scale = max(np.abs(u).max(), np.abs(new).max(), np.abs(u_prev).max())
            delta = 16 * EPS * G * (scale + force_scale) + 2 * G * time_term
            E_new = abs(1 + 1.5 * z) * E[-1] + abs(0.5 * z) * E_prev + delta
            u_prev, E_prev = u, E[-1]
            us.append(new)
            E.append(E_new)
        return us, E
    for k in range(n):
        t = t0 + k * dt
        u = us[-1]
        new = ref_step(solver, prob, u, t, dt)
        scale = max(np.abs(u).max(), np.abs(new).max())
        delta = 16 * EPS * G * (scale + force_scale) + G * time_term + conv
        us.append(new)
        E.append(amp * E[-1] + delta)
    return us, E


def closed_form(solver, prob, dt, n):
    """independent closed forms for the two special families, or None

    b = 0: powers of the multiplier of the statement; a = 0: the quadrature rule the
    scheme reduces to (exact integral for RK4 = Simpson's rule, p cubic).
    """
    a, b = prob.a, prob.b
    u0 = prob.u0_array()
    t0 = prob.t_start
    if prob.g:
        return None
    if b == 0:
        z = a * dt
        if solver == "adams-bashforth":
            m_prev, m = 1 - z, 1.0
            for _ in range(n):
                m_prev, m = m, (1 + 1.5 * z) * m - 0.5 * z * m_prev
            return m * u0
        return multiplier(solver, z) ** n * u0
    if a == 0:
        p = prob.p
        tk = [t0 + k * dt for k in range(-1, n + 1)]  # tk[k + 1] = t_k
        if solver == "euler":
            q = sum(p(tk[k + 1]) for k in range(n))
        elif solver == "implicit":
            q = sum(p(tk[k + 2]) for k in range(n))
        elif solver == "crank-nicolson":
            q = sum(0.5 * (p(tk[k + 1]) + p(tk[k + 2])) for k in range(n))
        elif solver == "adams-bashforth":
            q = sum(1.5 * p(tk[k + 1]) - 0.5 * p(tk[k]) for k in range(n))
        elif solver == "runge-kutta":
            q = sum((p(tk[k + 1]) + 4 * p(tk[k + 1] + dt / 2) + p(tk[k + 2])) / 6 for k in range(n))
        else:
            return None
        return u0 + dt * b * q
    return None


# Fehlberg's RKF4(5) ("formula 2", NASA TR R-315 table III) as rationals
RKF_A = [Fr(0), Fr(1, 4), Fr(3, 8), Fr(12, 13), Fr(1), Fr(1, 2)]
RKF_B = [
    [],
    [Fr(1, 4)],
    [Fr(3, 32), Fr(9, 32)],
    [Fr(1932, 2197), Fr(-7200, 2197), Fr(7296, 2197)],
    [Fr(439, 216), Fr(-8), Fr(3680, 513), Fr(-845, 4104)],
    [Fr(-8, 27), Fr(2), Fr(-3544, 2565), Fr(1859, 4104), Fr(-11, 40)],
]
RKF_C4 = [Fr(25, 216), Fr(0), Fr(1408, 2565), Fr(2197, 4104), Fr(-1, 5), Fr(0)]
RKF_C5 = [Fr(16, 135), Fr(0), Fr(6656, 12825), Fr(28561, 56430), Fr(-9, 50), Fr(2, 55)]
# self-test of the table (order conditions up to the ones that pin every row sum)
assert sum(RKF_C4) == 1 and sum(RKF_C5) == 1
assert all(sum(row) == a for row, a in zip(RKF_B, RKF_A))
assert sum(c * a for c, a in zip(RKF_C4, RKF_A)) == Fr(1, 2)
assert sum(c * a**2 for c, a in zip(RKF_C4, RKF_A)) == Fr(1, 3)
assert sum(c * a**3 for c, a in zip(RKF_C4, RKF_A)) == Fr(1, 4)
assert sum(c * a**4 for c, a in zip(RKF_C5, RKF_A)) == Fr(1, 5)


def rkf45_step(prob, u, t, dt):
    """(fourth-order result, max-norm of the difference to the fifth-order result)"""
    ks = []
    for i in range(6):
        ui = u
        for j, bij in enumerate(RKF_B[i]):
            ui = ui + float(bij) * dt * ks[j]
        ks.append(prob.f(ui, t + float(RKF_A[i]) * dt))
    u4 = u + dt * sum(float(c) * k for c, k in zip(RKF_C4, ks) if c)
    diff = dt * sum(float(c5 - c4) * k for c4, c5, k in zip(RKF_C4, RKF_C5, ks) if c5 != c4)
    return u4, float(np.abs(diff).max())


def rkf4_poly(z):
    """stability polynomial of the fourth-order formula"""
    return 1 + z + z**2 / 2 + z**3 / 6 + z**4 / 24 + z**5 / 104


# ---------------------------------------------------------------------------------------
# running py-pde
# ---------------------------------------------------------------------------------------
class _Watchdog:
    """Turn a run that does not terminate in reasonable time into a violation.

    Every generated run needs milliseconds (plus compilation in jit mode); a stepper that
    keeps shrinking its step or never reaches t_end would otherwise hang the worker.
    Interpreted loops are interrupted by SIGALRM; compiled loops only when they return.
    """

    def __init__(self, tag):
        import numba

        self.tag = tag
        self.seconds = 30.0 if numba.config.DISABLE_JIT else 240.0

    def _fire(self, signum, frame):
        raise Violation(f"{self.tag}: solve() did not finish within {self.seconds:.0f} s",
                        key=f"{self.tag}:timeout")

    def __enter__(self):
        self.old = signal.signal(signal.SIGALRM, self._fire)
        # periodic, because py-pde's adaptive loops swallow exceptions raised inside the rhs
        signal.setitimer(signal.ITIMER_REAL, self.seconds, 0.5)

    def __exit__(self, *exc):
        signal.setitimer(signal.ITIMER_REAL, 0)
        signal.signal(signal.SIGALRM, self.old)
        return False


def run_solve(prob, case, *, solver, backend, t_end, dt, cut_times=(), **solver_kw):
    """``eq.solve`` with an optional recording tracker; returns (data, info, records)"""
    records = []
    tracker = None
    if len(cut_times):
        def callback(state, t):
            records.append((float(t), np.array(state.data, copy=True).ravel()))

        tracker = [pde.CallbackTracker(callback, interrupts=[float(t) for t in cut_times])]
    eq = prob.equation()
    field = prob.field()
    before = field.data.copy()
    from pde.solvers.base import ConvergenceError

    with _Watchdog(f"{solver}:{backend}"):
        try:
            res, info = eq.solve(field, t_range=(prob.t_start, t_end), dt=dt, solver=solver, backend=backend,
                                 tracker=tracker, ret_info=True, **solver_kw)
        except ConvergenceError as e:
            # documented failure mode of the fixed-point schemes (non-linear rate with dt*L close to 1:
            # thorough tier, implicit Euler with g = -0.5, dt = 1)
            raise Rejected(f"ConvergenceError: {e}") from None
    if not np.array_equal(field.data, before):
        raise Violation("solve() modified the initial state", key=f"{solver}:{backend}:initial-state-modified")
    if res.data.shape != tuple(prob.shape):
        raise Violation(f"result has shape {res.data.shape}, initial state {prob.shape}",
                        key=f"{solver}:{backend}:shape")
    data = np.asarray(res.data).ravel()
    if not np.all(np.isfinite(data)):
        raise Violation(f"non-finite result {data!r} for a bounded problem",
                        key=f"{solver}:{backend}:non-finite")
    return data, info, records


def a_class(a):
    if a == 0:
        return "a=0"
    if isinstance(a, complex) and a.imag != 0:
        if a.real == 0:
            return "a-imag"
        return "a-complex-" + ("diss" if a.real < 0 else "grow")
    return "a-neg" if a.real < 0 else "a-pos"


def ratio_label(r):
    if r <= 1e-2:
        return "err/tol<=1e-2"
    if r <= 1e-1:
        return "err/tol<=1e-1"
    return "err/tol<=1"


# ---------------------------------------------------------------------------------------
# fixed-step sub-checks
# ---------------------------------------------------------------------------------------
def solver_options(case, prob, us):
    """keyword arguments of the solver for a fixed-step case and the maxerror used"""
    solver = case["solver"]
    kw = {}
    maxerror = 0.0
    if solver in FIXED_POINT:
        umax = max(float(np.abs(u).max()) for u in us)
        maxerror = 1e-13 * max(umax, 1e-300)
        kw = {"maxiter": 10000, "maxerror": maxerror}
        if solver == "crank-nicolson" and case.get("alpha") is not None:
            kw["explicit_fraction"] = float(case["alpha"])
    return kw, maxerror


def check_fixed(case):
    """n fixed steps of one solver on one backend against the reference scheme"""
    prob = Problem(case)
    solver, backend = case["solver"], case["backend"]
    dt, n = float(case["dt"]), int(case["n"])
    cuts = [int(m) for m in case.get("cuts", [])]
    alpha = float(case.get("alpha") or 0.0)
    t0 = prob.t_start
    t_end = t0 + n * dt
    z = prob.a * dt
    tag = f"{solver}:{backend}"

    # reference first (its magnitude fixes maxerror), then the tolerance with maxerror
    us, _ = ref_trajectory(solver, prob, dt, n, alpha=alpha, nseg=len(cuts) + 1)
    kw, maxerror = solver_options(case, prob, us)
    us, E = ref_trajectory(solver, prob, dt, n, alpha=alpha, maxerror=maxerror, nseg=len(cuts) + 1)

    data, info, records = run_solve(prob, case, solver=solver, backend=backend, t_end=t_end, dt=dt,
                                    cut_times=[t0 + m * dt for m in cuts], **kw)

    # -- accounting --------------------------------------------------------------
    steps = info["solver"]["steps"]
    if steps != n:
        raise Violation(f"{tag}: {steps} steps reported for a range of exactly n={n} steps "
                        f"(dt={dt!r}, t_start={t0!r}, cuts={cuts})", key=f"{tag}:steps")
    t_final = info["controller"]["t_final"]
    if abs(t_final - t_end) > (4 * n + 8) * ulp(max(abs(t0), abs(t_end))):
        raise Violation(f"{tag}: t_final={t_final!r} but t_start + n*dt = {t_end!r}", key=f"{tag}:t_final")
    if len(records) != len(cuts):
        raise Violation(f"{tag}: tracker with {len(cuts)} interrupts strictly inside the range was "
                        f"called {len(records)} times", key=f"{tag}:segments")

    # -- states --------------------------------------------------------------------
    worst = 0.0

    def compare(got, k, what):
        nonlocal worst
        want, tol = us[k], E[k]
        err = float(np.abs(got - want).max())
        if not err <= tol:
            raise Violation(
                f"{tag}: state after {k} of {n} steps ({what}) differs from the reference scheme: "
                f"got {got!r}, expected {want!r}, |diff|={err:.3e} > tol {tol:.3e}; a={prob.a!r} b={prob.b!r} "
                f"dt={dt!r} z={z!r} t_start={t0!r} cuts={cuts}", key=f"{tag}:{what}")
        worst = max(worst, err / tol if tol > 0 else 0.0)

    for (t_rec, rec), m in zip(records, cuts):
        if abs(t_rec - (t0 + m * dt)) > (4 * m + 8) * ulp(max(abs(t0), abs(t_end))):
            raise Violation(f"{tag}: tracker called at t={t_rec!r}, expected t_start + {m}*dt = "
                            f"{t0 + m * dt!r}", key=f"{tag}:segment-time")
        compare(rec, m, "segment")
    compare(data, n, "scheme")

    cf = closed_form(solver, prob, dt, n)
    if cf is not None:
        err = float(np.abs(data - cf).max())
        if not err <= 2 * E[n]:
            fam = "multiplier" if prob.b == 0 else "quadrature"
            raise Violation(
                f"{tag}: result differs from the closed form ({fam}) of the scheme: got {data!r}, "
                f"expected {cf!r}, |diff|={err:.3e} > {2 * E[n]:.3e}; a={prob.a!r} dt={dt!r} n={n}",
                key=f"{tag}:{fam}")
        if solver == "runge-kutta" and prob.a == 0:
            # Simpson's rule is exact for cubic p: compare with the exact integral
            ex = prob.exact(t_end)
            # (the solver advances by n*dt; the floating-point t_end = t_start + n*dt differs from that by up
            # to an ulp of t - false alarm of the thorough tier at t_start = 80, dt = 0.1)
            slack = abs(prob.b) * prob.p_bounds(t0, t_end)[0] * 2 * ulp(max(abs(t0), abs(t_end)))
            if not float(np.abs(data - ex).max()) <= 2 * E[n] + 8 * EPS * float(np.abs(ex).max()) + slack:
                raise Violation(f"{tag}: RK4 does not integrate the cubic forcing exactly: got {data!r}, "
                                f"exact {ex!r}", key=f"{tag}:quadrature")

    unorm = float(np.abs(us[n]).max())
    sharp = E[n] <= 1e-8 * max(unorm, 1e-300)
    nt = n >= 2 and (prob.b != 0 or isinstance(prob.a, complex) or t0 != 0) and sharp
    labels = [tag, solver, backend, a_class(prob.a), "b!=0" if prob.b != 0 else "b=0",
              "cuts" if cuts else "no-cuts", "t0!=0" if t0 != 0 else "t0=0",
              "complex-state" if prob.is_complex else "real-state",
              "n>=10" if n >= 10 else ("n>=2" if n >= 2 else "n=1"), ratio_label(worst),
              "sharp-tol" if sharp else "weak-tol"]
    if solver == "crank-nicolson":
        labels.append("cn:alpha>0" if alpha > 0 else "cn:alpha=0")
    if len(prob.shape) > 1:
        labels.append("2d-state")
    if cf is not None:
        labels.append("closed-form")
    return {"nt": nt, "labels": labels, "ratio": worst}


# ---------------------------------------------------------------------------------------
# the stepping function is built from an EXAMPLE state and advances the state it is CALLED with
# (after missed seed C06-6: solve()/Controller always pass the very field the stepper was built from)
# ---------------------------------------------------------------------------------------
def check_stepper_reuse(case):
    from pde.solvers.base import SolverBase

    prob = Problem(case)
    solver, backend = case["solver"], case["backend"]
    dt, n = float(case["dt"]), int(case["n"])
    alpha = float(case.get("alpha") or 0.0)
    t0 = prob.t_start
    t_end = t0 + n * dt
    tag = f"{solver}:{backend}:stepper-reuse"
    # second problem: same equation, other initial values (the example the stepper is built from)
    case2 = dict(case, u0=[enc(0.5 * dec(v) + 1.0) for v in case["u0"]])
    prob2 = Problem(case2)
    if prob2.complex_state != prob.complex_state:
        raise HarnessError("example state of another data type")

    us, _ = ref_trajectory(solver, prob, dt, n, alpha=alpha)
    us2, _ = ref_trajectory(solver, prob2, dt, n, alpha=alpha)
    kw, maxerror = solver_options(case, prob, us + us2)
    us, E = ref_trajectory(solver, prob, dt, n, alpha=alpha, maxerror=maxerror)
    us2, E2 = ref_trajectory(solver, prob2, dt, n, alpha=alpha, maxerror=maxerror)

    eq = prob.equation()
    solver_obj = SolverBase.from_name(solver, pde=eq, backend=backend, **kw)

    def field_of(pr):
        f = pr.field()
        # (PDEBase.solve converts a real state for a complex-valued equation; here it is done by hand)
        return f.copy(dtype=complex) if prob.is_complex and not np.iscomplexobj(f.data) else f

    example = field_of(prob2)
    example_before = example.data.copy()
    with _Watchdog(tag):
        stepper = solver_obj.make_stepper(example, dt)
        target = field_of(prob)
        t_last = stepper(target, t0, t_end)
    steps = solver_obj.info["steps"]
    if steps != n:
        raise Violation(f"{tag}: {steps} steps reported for a range of exactly n={n} steps (dt={dt!r}, "
                        f"t_start={t0!r})", key=f"{tag}:steps")
    if abs(t_last - t_end) > (4 * n + 8) * ulp(max(abs(t0), abs(t_end))):
        raise Violation(f"{tag}: stepper returned t={t_last!r}, expected t_start + n*dt = {t_end!r}",
                        key=f"{tag}:t_last")
    if not np.array_equal(example.data, example_before):
        raise Violation(f"{tag}: the stepping function built from an example state and called with ANOTHER "
                        f"field changed the example: {example_before.ravel()!r} -> {example.data.ravel()!r}",
                        key=f"{tag}:example-modified")
    worst = 0.0

    def compare(got, want, tol, what):
        nonlocal worst
        got = np.asarray(got).ravel()
        err = float(np.abs(got - want).max())
        if not err <= tol:
            raise Violation(
                f"{tag}: {what}: field after {n} steps is {got!r}, the reference scheme gives {want!r} "
                f"(|diff|={err:.3e} > tol {tol:.3e}); initial values {prob.u0!r}, example the stepper was built "
                f"from {prob2.u0!r}; a={prob.a!r} b={prob.b!r} dt={dt!r} t_start={t0!r}", key=f"{tag}:{what}")
        worst = max(worst, err / tol if tol > 0 else 0.0)

    compare(target.data, us[n], E[n], "called-with-other-field")
    second = solver != "adams-bashforth"  # (the multi-step history lives in the stepping function)
    if second:
        with _Watchdog(tag):
            target2 = field_of(prob2)
            stepper(target2, t0, t_end)
        compare(target2.data, us2[n], E2[n], "second-call-other-field")
        if not np.array_equal(example.data, example_before):
            raise Violation(f"{tag}: second call changed the example state", key=f"{tag}:example-modified")
    unorm = float(np.abs(us[n]).max())
    sharp = E[n] <= 1e-8 * max(unorm, 1e-300)
    nt = sharp and float(np.abs(us[n] - us2[n]).max()) > 1e3 * (E[n] + E2[n])
    labels = [f"{solver}:{backend}", solver, backend, a_class(prob.a), "b!=0" if prob.b != 0 else "b=0",
              "complex-state" if prob.is_complex else "real-state", "n>=2" if n >= 2 else "n=1",
              ratio_label(worst), "sharp-tol" if sharp else "weak-tol",
              "two-calls" if second else "one-call"]
    return {"nt": nt, "labels": labels, "ratio": worst}


# ---------------------------------------------------------------------------------------
# differential sub-check: numpy backend vs numba backend
# ---------------------------------------------------------------------------------------
def check_agreement(case):
    prob = Problem(case)
    solver = case["solver"]
    t0 = prob.t_start
    if case.get("adaptive"):
        return _agreement_adaptive(case, prob)
    dt, n = float(case["dt"]), int(case["n"])
    cuts = [int(m) for m in case.get("cuts", [])]
    t_end = t0 + n * dt
    kw = {}
    # bounded problem: |u| stays below this crude bound (Gronwall); used for tolerances only
    pmax, dmax = prob.p_bounds(t0 - dt, t_end)
    lip = abs(prob.a) + abs(prob.g)
    growth = math.exp(min(lip * n * dt, 50.0))
    bound = (max(abs(v) for v in prob.u0) + n * dt * abs(prob.b) * pmax) * growth
    if solver in FIXED_POINT:
        kw = {"maxiter": 10000, "maxerror": 1e-13 * max(bound, 1e-300)}
        if solver == "crank-nicolson" and case.get("alpha") is not None:
            kw["explicit_fraction"] = float(case["alpha"])
    out = {}
    for backend in ("numpy", "numba"):
        out[backend] = run_solve(prob, case, solver=solver, backend=backend, t_end=t_end, dt=dt,
                                 cut_times=[t0 + m * dt for m in cuts], **kw)
    (d1, i1, r1), (d2, i2, r2) = out["numpy"], out["numba"]
    tag = f"{solver}:fixed"
    if i1["solver"]["steps"] != i2["solver"]["steps"]:
        raise Violation(f"{tag}: numpy took {i1['solver']['steps']} steps, numba {i2['solver']['steps']} "
                        f"(dt={dt!r}, n={n}, t_start={t0!r}, cuts={cuts})", key=f"{tag}:steps")
    if abs(i1["controller"]["t_final"] - i2["controller"]["t_final"]) > 8 * ulp(max(abs(t0), abs(t_end))):
        raise Violation(f"{tag}: t_final differs: {i1['controller']['t_final']!r} vs "
                        f"{i2['controller']['t_final']!r}", key=f"{tag}:t_final")
    if len(r1) != len(r2):
        raise Violation(f"{tag}: tracker called {len(r1)} (numpy) vs {len(r2)} (numba) times",
                        key=f"{tag}:segments")
    # round-off level: both backends perform the same arithmetic up to reassociation/FMA
    rho = 0.0
    if solver in FIXED_POINT:
        rho = min(0.95, lip * dt)
    tol = (n + 1) * 64 * EPS * growth * bound / (1 - rho) + (n + 1) * 4 * kw.get("maxerror", 0.0) * growth / (1 - rho) ** 2
    # the compiled rate evaluates (t - tc)/ts with fastmath, which may distribute the division (t/ts - tc/ts):
    # the argument of the forcing is then only known to eps*(|t| + |tc|)/|ts| (false alarm of the thorough tier
    # at t = 848, ts = 0.3)
    tol += (n + 1) * dt * abs(prob.b) * dmax * 16 * EPS * (max(abs(t0), abs(t_end)) + abs(prob.tc)) * growth / (1 - rho)
    worst = 0.0
    for (ta, a_), (tb, b_) in list(zip(r1, r2)) + [((t_end, d1), (t_end, d2))]:
        err = float(np.abs(a_ - b_).max())
        if abs(ta - tb) > 8 * ulp(max(abs(t0), abs(t_end))) or not err <= tol:
            raise Violation(
                f"{tag}: numpy and numba backends disagree at t={ta!r}/{tb!r}: {a_!r} vs {b_!r}, "
                f"|diff|={err:.3e} > {tol:.3e}; a={prob.a!r} g={prob.g!r} b={prob.b!r} dt={dt!r} n={n} cuts={cuts}",
                key=f"{tag}:state")
        worst = max(worst, err / tol)
    unorm = float(np.abs(d1).max())
    sharp = tol <= 1e-8 * max(unorm, 1e-300)
    nt = n >= 2 and (prob.b != 0 or isinstance(prob.a, complex) or t0 != 0) and sharp
    labels = [tag, a_class(prob.a), "nonlinear" if prob.g else "linear", "cuts" if cuts else "no-cuts",
              "b!=0" if prob.b != 0 else "b=0", "identical" if worst == 0 else "differs-roundoff",
              "sharp-tol" if sharp else "weak-tol"]
    return {"nt": nt, "labels": labels, "ratio": worst}


def _agreement_adaptive(case, prob):
    solver = case["solver"]
    tol_s = float(case["tolerance"])
    T = float(case["T"])
    t0 = prob.t_start
    t_end = t0 + T
    cut_times = [t0 + float(fr) * T for fr in case.get("cuts", [])]
    dt0 = case.get("dt0")
    if dt0 is not None and float(dt0) > HUGE_DT0 * T:
        # known finding F-C06a (see adaptive_huge_initial_dt): excluded here, counted by the label
        return {"nt": False, "labels": [f"{solver}:adaptive", "excluded:dt0>1e5*T (finding F-C06a)"]}
    out = {}
    for backend in ("numpy", "numba"):
        out[backend] = run_solve(prob, case, solver=solver, backend=backend, t_end=t_end,
                                 dt=None if dt0 is None else float(dt0), cut_times=cut_times,
                                 adaptive=True, tolerance=tol_s)
    (d1, i1, _), (d2, i2, _) = out["numpy"], out["numba"]
    tag = f"{solver}:adaptive"
    s1, s2 = i1["solver"]["steps"], i2["solver"]["steps"]
    for nm, info in (("numpy", i1), ("numba", i2)):
        _check_end_time(tag + ":" + nm, info, t0, t_end)
    bound = 2 * max(s1, s2) * tol_s
    err = float(np.abs(d1 - d2).max())
    if not err <= bound:
        raise Violation(f"{tag}: numpy ({s1} steps) and numba ({s2} steps) results differ by {err:.3e} > "
                        f"2*steps*tolerance = {bound:.3e}: {d1!r} vs {d2!r}; a={prob.a!r} T={T!r} "
                        f"tolerance={tol_s!r} dt0={dt0!r}", key=f"{tag}:state")
    labels = [tag, a_class(prob.a), "same-steps" if s1 == s2 else "different-steps",
              "identical" if err == 0 else "differs", "cuts" if cut_times else "no-cuts"]
    return {"nt": min(s1, s2) >= 2, "labels": labels, "ratio": err / bound}


# ---------------------------------------------------------------------------------------
# adaptive sub-checks
# ---------------------------------------------------------------------------------------
def _check_end_time(tag, info, t0, t_end):
    t_final = info["controller"]["t_final"]
    slack = DT_MIN * (1 + 1e-6) + 8 * ulp(max(abs(t0), abs(t_end)))
    if not abs(t_final - t_end) <= slack:
        raise Violation(f"{tag}: adaptive run ended at t_final={t_final!r}, requested t_end={t_end!r} "
                        f"(difference {t_final - t_end:.3e} > dt_min)", key=f"{tag}:t_final")


def check_adaptive(case):
    prob = Problem(case)
    solver, backend = case["solver"], case["backend"]
    tol_s = float(case["tolerance"])
    T = float(case["T"])
    t0 = prob.t_start
    t_end = t0 + T
    dt0 = case.get("dt0")
    cut_times = [t0 + float(fr) * T for fr in case.get("cuts", [])]
    tag = f"{solver}:{backend}:adaptive"
    huge = dt0 is not None and float(dt0) > HUGE_DT0 * T
    if huge and not case.get("judge_huge_dt0"):
        # known finding F-C06a (see check_huge_initial_dt): excluded from the main search, counted here
        return {"nt": False, "labels": [tag, "excluded:dt0>1e5*T (finding F-C06a)"]}
    kw = {"tolerance": tol_s}
    if dt0 is not None or case.get("explicit_flag", True):
        kw["adaptive"] = True  # with dt=None `solve` enables adaptive stepping by itself
    data, info, records = run_solve(prob, case, solver=solver, backend=backend, t_end=t_end,
                                    dt=None if dt0 is None else float(dt0), cut_times=cut_times, **kw)
    if not info["solver"].get("dt_adaptive"):
        raise Violation(f"{tag}: adaptive stepping was requested but info['dt_adaptive'] is false",
                        key=f"{tag}:not-adaptive")
    if huge:
        t_final = info["controller"]["t_final"]
        if not abs(t_final - t_end) <= DT_MIN * (1 + 1e-6) + 8 * ulp(max(abs(t0), abs(t_end))):
            raise Violation(
                f"{tag}: adaptive run with initial step dt={dt0!r} >= 1e6 * range ended at t_final={t_final!r} "
                f"after {info['solver']['steps']} steps, requested t_end={t_end!r} (t_start={t0!r}); the "
                f"controller's termination tolerance 1e-6*dt exceeds the whole range", key=KEY_HUGE_DT0)
    _check_end_time(tag, info, t0, t_end)
    steps = int(info["solver"]["steps"])
    labels = [tag, a_class(prob.a), "cuts" if cut_times else "no-cuts", "dt0=None" if dt0 is None else
              ("dt0>T" if dt0 > T else "dt0<=T"), "t0!=0" if t0 != 0 else "t0=0"]
    judged = prob.b == 0
    if judged:
        exact = prob.exact(t_end)
        err = float(np.abs(data - exact).max())
        bound = 2 * steps * tol_s + 64 * EPS * steps * max(abs(v) for v in prob.u0)
        if not err <= bound:
            raise Violation(
                f"{tag}: global error {err:.3e} exceeds 2*steps*tolerance = 2*{steps}*{tol_s!r} = {bound:.3e} "
                f"on du/dt = a u, a={prob.a!r}, T={T!r}, dt0={dt0!r}, u0={prob.u0!r}: got {data!r}, "
                f"exact {exact!r}", key=f"{tag}:global-error")
        r = err / (steps * tol_s)
        labels.append("err/(steps*tol)<=0.1" if r <= 0.1 else ("err/(steps*tol)<=0.5" if r <= 0.5 else
                                                                "err/(steps*tol)<=1" if r <= 1 else
                                                                "err/(steps*tol)<=2"))
        labels.append("error-judged")
    else:
        labels.append("end-time-only")
    labels.append("steps>=10" if steps >= 10 else ("steps>=2" if steps >= 2 else "steps=1"))
    if len(prob.shape) > 1:
        labels.append("2d-state")
    return {"nt": steps >= 2, "labels": labels, "ratio": (err / (steps * tol_s)) if judged else 0.0}


def euler_doubling_step(prob, u, t, dt):
    """documented adaptive Euler trial: two half steps, estimate = difference to one full step"""
    full = u + dt * prob.f(u, t)
    half = u + dt / 2 * prob.f(u, t)
    new = half + dt / 2 * prob.f(half, t + dt / 2)
    return new, float(np.abs(full - new).max())


def check_single_step(case):
    """adaptive run whose range is covered by one accepted trial step

    runge-kutta: the result is Fehlberg's fourth-order formula (multiplier
    1+z+z^2/2+z^3/6+z^4/24+z^5/104), the step is accepted iff Fehlberg's error estimate is
    below the tolerance; euler: the documented step-doubling trial (two half steps).
    """
    prob = Problem(case)
    backend = case["backend"]
    solver = case.get("solver", "runge-kutta")
    t0 = prob.t_start
    t_end = t0 + float(case["T"])
    T = t_end - t0  # the requested range (exact difference of the two end points)
    dt0 = float(case["dt0"])  # > T, so the first trial step is the whole range
    if not dt0 > T * (1 + 1e-9):
        raise Rejected("initial step does not exceed the range")
    u0 = prob.u0_array()
    if solver == "runge-kutta":
        want, est = rkf45_step(prob, u0, t0, T)
        name, tag = "Fehlberg's fourth-order formula", f"rkf45:{backend}"
    else:
        want, est = euler_doubling_step(prob, u0, t0, T)
        name, tag = "two Euler half steps", f"euler-doubling:{backend}"
    z = prob.a * T
    pmax, dmax = prob.p_bounds(t0, t_end)
    scale = float(np.abs(u0).max()) + T * abs(prob.b) * pmax
    round_off = 16 * EPS * 10 * math.exp(abs(z)) * scale + 40 * T * abs(prob.b) * dmax * 16 * ulp(
        max(abs(t0), abs(t_end), abs(t0 - prob.tc)))
    mode = case["mode"]
    factor = float(case["factor"])
    if mode == "reject" and not est / factor > 1e3 * round_off:
        mode = "accept"  # estimate too small to be clearly above any sensible tolerance
    if mode == "accept":
        tol_s = max(factor * est, 1e3 * round_off, 1e-300)
    else:  # the estimate exceeds the tolerance clearly: the whole-range step must be rejected
        tol_s = est / factor
    data, info, _ = run_solve(prob, case, solver=solver, backend=backend, t_end=t_end, dt=dt0,
                              adaptive=True, tolerance=tol_s)
    _check_end_time(tag, info, t0, t_end)
    steps = int(info["solver"]["steps"])
    labels = [tag, mode, a_class(prob.a), "b!=0" if prob.b != 0 else "b=0"]
    if mode == "reject":
        if steps < 2:
            raise Violation(
                f"{tag}: a single step of size {T!r} was accepted although the scheme's error estimate "
                f"{est:.3e} is {factor}x the tolerance {tol_s:.3e}; a={prob.a!r} b={prob.b!r}",
                key=f"{tag}:estimate")
        return {"nt": True, "labels": labels}
    if steps != 1:
        raise Violation(
            f"{tag}: {steps} steps taken although the whole range {T!r} is one trial step whose error "
            f"estimate {est:.3e} is below the tolerance {tol_s:.3e}; a={prob.a!r} b={prob.b!r} "
            f"dt0={dt0!r}", key=f"{tag}:estimate")
    err = float(np.abs(data - want).max())
    if not err <= round_off:
        raise Violation(
            f"{tag}: single accepted step differs from {name}: got {data!r}, "
            f"expected {want!r}, |diff|={err:.3e} > {round_off:.3e}; a={prob.a!r} b={prob.b!r} T={T!r} "
            f"t_start={t0!r}", key=f"{tag}:tableau")
    if prob.b == 0:
        poly = rkf4_poly(z) if solver == "runge-kutta" else (1 + z / 2) ** 2
        if not float(np.abs(data - poly * u0).max()) <= round_off:
            raise Violation(f"{tag}: single-step multiplier is not "
                            + ("1+z+z^2/2+z^3/6+z^4/24+z^5/104" if solver == "runge-kutta" else "(1+z/2)^2")
                            + f": got {data!r}, expected {poly * u0!r}, z={z!r}", key=f"{tag}:polynomial")
        labels.append("polynomial")
    if prob.a == 0 and solver == "runge-kutta":
        ex = prob.exact(t_end)
        if not float(np.abs(data - ex).max()) <= round_off + 8 * EPS * float(np.abs(ex).max()):
            raise Violation(f"{tag}: fourth-order step does not integrate cubic forcing exactly: got "
                            f"{data!r}, exact {ex!r}", key=f"{tag}:quadrature")
        labels.append("exact-quadrature")
    sharp = round_off <= 1e-8 * max(float(np.abs(want).max()), 1e-300)
    labels.append("sharp-tol" if sharp else "weak-tol")
    nt = sharp and (prob.b != 0 or isinstance(prob.a, complex) or t0 != 0)
    return {"nt": nt, "labels": labels, "ratio": err / round_off}


# ---------------------------------------------------------------------------------------
# scipy
# ---------------------------------------------------------------------------------------
def check_scipy(case):
    prob = Problem(case)
    backend, method = case["backend"], case["method"]
    rtol, atol = float(case["rtol"]), float(case["atol"])
    T = float(case["T"])
    t0 = prob.t_start
    t_end = t0 + T
    # distinct interrupt times (two fractions one ulp apart collapse onto one time once t_start is added; a
    # schedule with a repeated time is not strictly increasing - thorough tier: the scipy stepper is then called
    # with an empty range and fails with an AttributeError, recorded as an observation in DESIGN.md)
    cut_times = sorted({t0 + float(fr) * T for fr in case.get("cuts", [])})
    dt0 = case.get("dt0")
    tag = f"scipy:{backend}"
    data, info, records = run_solve(prob, case, solver="scipy", backend=backend, t_end=t_end,
                                    dt=None if dt0 is None else float(dt0), cut_times=cut_times,
                                    method=method, rtol=rtol, atol=atol)
    t_final = info["controller"]["t_final"]
    if abs(t_final - t_end) > 4 * ulp(max(abs(t0), abs(t_end))):
        raise Violation(f"{tag}: t_final={t_final!r}, requested {t_end!r}", key=f"{tag}:t_final")
    worst = 0.0
    # the state handed to a tracker must be the solution at the time handed to the tracker
    # (whether that is the scheduled time is property C08)
    points = [(t, got, "segment") for t, got in records] + [(t_end, data, "state")]
    for k, (t, got, what) in enumerate(points):
        if not t0 - 4 * ulp(t0) <= t <= t_end + 4 * ulp(t_end):
            raise Violation(f"{tag}: tracker called at {t!r} outside the range [{t0!r}, {t_end!r}]",
                            key=f"{tag}:segment-time")
        ex = prob.exact(t)
        err = np.abs(got - ex)
        # |u| = largest magnitude of the component on the way (a component that passes through
        # zero keeps the error it collected while it was large)
        size = np.max([np.abs(prob.exact(t0 + (t - t0) * j / 8)) for j in range(9)], axis=0)
        tol = 100 * (rtol * size + atol)
        if not np.all(err <= tol):
            raise Violation(
                f"{tag}: {method} result at t={t!r} differs from the exact solution by {err.max():.3e} > "
                f"100*(rtol*|u|+atol) = {tol.min():.3e}: got {got!r}, exact {ex!r}; "
                f"a={prob.a!r} b={prob.b!r} t_start={t0!r} T={T!r} rtol={rtol!r} atol={atol!r} dt0={dt0!r}",
                key=f"{tag}:{method}:{what}")
        worst = max(worst, float((err / tol).max()))
    labels = [tag, method, a_class(prob.a), "b!=0" if prob.b != 0 else "b=0", "cuts" if cut_times else "no-cuts",
              "dt0=None" if dt0 is None else "dt0", "complex-state" if prob.is_complex else "real-state",
              ratio_label(worst)]
    nt = prob.b != 0 or isinstance(prob.a, complex) or t0 != 0
    return {"nt": nt, "labels": labels, "ratio": worst}


# ---------------------------------------------------------------------------------------
# strategies
# ---------------------------------------------------------------------------------------
def log_float(lo, hi):
    return st.floats(min_value=math.log10(lo), max_value=math.log10(hi)).map(lambda e: float(10.0**e))


def dt_strategy():
    return st.one_of(log_float(1e-4, 1.0), st.sampled_from([0.1, 0.01, 0.25, 0.5, 1.0, 1 / 3, 0.7, 1e-3]))


@st.composite
def z_values(draw, zmax, classes=("neg", "pos", "complex", "imag")):
    cls = draw(st.sampled_from(list(classes)))
    mag = draw(st.one_of(log_float(1e-3, zmax), st.floats(0.05 * zmax, zmax),
                         st.sampled_from([zmax, 0.5 * zmax, 0.1 * zmax])))
    if cls == "neg":
        return -mag
    if cls == "pos":
        return mag
    if cls == "imag":
        return complex(0.0, mag * draw(st.sampled_from([-1, 1])))
    if cls == "diss":  # within 60 degrees of the negative real axis
        phi = draw(st.floats(-math.pi / 3, math.pi / 3))
        z = -mag * cmath.exp(1j * phi)
        return z if z.imag != 0 else z.real
    phi = draw(st.floats(0.0, 2 * math.pi, exclude_max=True))
    z = mag * cmath.exp(1j * phi)
    return z


@st.composite
def amplitudes(draw, complex_ok=True, allow_zero=False):
    mag = draw(st.one_of(log_float(0.1, 10.0), st.sampled_from([1.0, 2.0, 0.5])))
    kinds = ["pos", "neg"] + (["complex"] if complex_ok else []) + (["zero"] if allow_zero else [])
    kind = draw(st.sampled_from(kinds))
    if kind == "zero":
        return 0.0
    if kind == "pos":
        return mag
    if kind == "neg":
        return -mag
    phi = draw(st.floats(0.0, 2 * math.pi, exclude_max=True))
    return mag * cmath.exp(1j * phi)


@st.composite
def states(draw, complex_ok=True):
    ncell = draw(st.integers(1, 6))
    cplx = complex_ok and draw(st.booleans())
    vals = [draw(amplitudes(complex_ok=cplx, allow_zero=(i > 0))) for i in range(ncell)]
    if cplx and not any(isinstance(v, complex) for v in vals):
        vals[0] = complex(vals[0], 0.5)
    return [enc(v) for v in vals]


def shapes(n):
    """grid shapes for a state of n cells (the steppers see arrays of that shape)"""
    opts = [[n], [n]] + [[k, n // k] for k in range(1, n + 1) if n % k == 0 and n > 1]
    return st.sampled_from(opts)


@st.composite
def start_times(draw):
    kind = draw(st.sampled_from(["zero", "zero", "small", "large", "neg"]))
    if kind == "zero":
        return 0.0
    if kind == "small":
        return draw(st.floats(0.01, 10.0))
    if kind == "large":
        return draw(st.floats(10.0, 1e3))
    return -draw(st.floats(0.01, 1e3))


@st.composite
def forcings(draw, span, t_start, mode="any", complex_ok=True):
    """(b, coefficients, tc, ts): p varies by O(1) over the range of the run"""
    if mode == "none" or (mode == "any" and draw(st.integers(0, 3)) == 0):
        return 0.0, [0.0, 0.0, 0.0, 0.0], float(t_start), 1.0
    b = draw(amplitudes(complex_ok=complex_ok))
    deg = draw(st.sampled_from([0, 1, 2, 3, 3, 3]))
    c = [draw(st.floats(-2.0, 2.0)) if k <= deg else 0.0 for k in range(4)]
    if c[deg] == 0:
        c[deg] = 1.0
    ts = float(f"{span * draw(st.floats(0.3, 3.0)):.3g}")
    tc = t_start + draw(st.sampled_from([0.0, 0.0, 0.5, -0.25, 1.0])) * ts
    return b, c, float(tc), ts


@st.composite
def fixed_cases(draw, solvers=FIXED_SOLVERS, backends=("numpy", "numba"), cuts="any", forcing="any",
                rate="any", nmax=40, nonlinear=False):
    solver = draw(st.sampled_from(list(solvers)))
    backend = draw(st.sampled_from(list(backends))) if backends else None
    dt = draw(dt_strategy())
    n = draw(st.one_of(st.integers(1, 6), st.integers(2, nmax)))
    if cuts == "some":
        n = max(n, 2)
    t_start = draw(start_times())
    zmax = 2.0 if solver in ("euler", "runge-kutta") else 0.5
    g = 0.0
    if rate == "zero":
        a = 0.0
    else:
        if nonlinear:
            # real problem with a bounded non-linearity; keep the Lipschitz constant moderate
            zmax = min(zmax, 4.0 / n)
            z = draw(z_values(zmax, classes=("neg", "pos")))
            g = draw(st.sampled_from([0.0, 1.0, -1.0, 0.5])) * abs(z) / dt
        else:
            z = draw(z_values(zmax))
        a = z / dt
    real_only = nonlinear
    b, c, tc, ts = draw(forcings(n * dt, t_start, mode=forcing, complex_ok=not real_only))
    u0 = draw(states(complex_ok=not real_only))
    cut_list = []
    if cuts != "none" and n >= 2:
        k = draw(st.integers(1 if cuts == "some" else 0, min(3, n - 1)))
        cut_list = sorted(draw(st.sets(st.integers(1, n - 1), min_size=k, max_size=k)))
    case = {"solver": solver, "dt": dt, "n": n, "t_start": t_start, "a": enc(a), "b": enc(b), "c": c,
            "tc": tc, "ts": ts, "u0": u0, "shape": draw(shapes(len(u0))), "cuts": cut_list}
    if backend is not None:
        case["backend"] = backend
    if g:
        case["g"] = g
    if solver == "crank-nicolson":
        case["alpha"] = draw(st.one_of(st.just(0.0), st.floats(0.0, 0.8), st.sampled_from([0.5, 0.25])))
    return case


@st.composite
def adaptive_cases(draw, backends=("numpy", "numba"), forcing="mixed", solvers=("euler", "runge-kutta"),
                   tol_lo=1e-6, huge_dt0=False):
    solver = draw(st.sampled_from(list(solvers)))
    backend = draw(st.sampled_from(list(backends))) if backends else None
    T = draw(st.one_of(log_float(1e-2, 10.0), st.sampled_from([1.0, 0.5, 2.0])))
    t_start = draw(start_times())
    # dissipative: |arg(-a)| <= 60 degrees, |a| T <= 5 (cost bound)
    z = draw(z_values(5.0, classes=("neg", "neg", "diss")))
    a = z / T
    if forcing == "mixed" and draw(st.integers(0, 4)) == 0:
        b, c, tc, ts = draw(forcings(T, t_start, mode="only"))
    else:
        b, c, tc, ts = 0.0, [0.0] * 4, float(t_start), 1.0
    tol = draw(st.one_of(log_float(tol_lo, 1e-3), st.sampled_from([1e-4, 1e-3, 1e-5])))
    if huge_dt0:  # finding F-C06a: initial step >= 1e6 * range
        dt0 = T * draw(log_float(1.5e6, 1e9))
    else:
        dt0 = draw(st.one_of(st.none(), log_float(1e-5, 10.0).map(lambda x: x * T),
                             log_float(1e-5, 1e7).map(lambda x: x * T),
                             st.sampled_from([1e-3, 0.1, 1.0]).map(lambda x: min(x, 10 * T))))
    ncut = draw(st.sampled_from([0, 0, 1, 2, 3]))
    cuts = sorted(draw(st.lists(st.floats(0.05, 0.95), min_size=ncut, max_size=ncut, unique=True)))
    u0 = draw(states())
    case = {"solver": solver, "adaptive": True, "T": T, "t_start": t_start, "a": enc(a), "b": enc(b),
            "c": c, "tc": tc, "ts": ts, "u0": u0, "shape": draw(shapes(len(u0))), "tolerance": tol,
            "dt0": dt0, "cuts": cuts,
            "explicit_flag": draw(st.booleans())}
    if backend is not None:
        case["backend"] = backend
    return case


@st.composite
def rkf_cases(draw, backends=("numpy", "numba")):
    backend = draw(st.sampled_from(list(backends)))
    T = draw(st.one_of(log_float(1e-3, 2.0), st.sampled_from([1.0, 0.5, 0.1])))
    t_start = draw(start_times())
    rate = draw(st.sampled_from(["z", "z", "z", "zero"]))
    if rate == "zero":
        a = 0.0
        b, c, tc, ts = draw(forcings(T, t_start, mode="only"))
        mode = "accept"
    else:
        a = draw(z_values(1.5)) / T
        b, c, tc, ts = draw(forcings(T, t_start, mode="any"))
        mode = draw(st.sampled_from(["accept", "accept", "reject"]))
    u0 = draw(states())
    return {"solver": draw(st.sampled_from(["runge-kutta", "runge-kutta", "euler"])),
            "backend": backend, "T": T, "t_start": t_start, "a": enc(a), "b": enc(b), "c": c, "tc": tc,
            "ts": ts, "u0": u0, "shape": draw(shapes(len(u0))), "mode": mode, "factor": draw(st.sampled_from([4.0, 10.0, 10.0, 100.0])),
            "dt0": T * draw(st.sampled_from([1.25, 1.5, 10.0]))}


@st.composite
def scipy_cases(draw, backends=("numpy", "numba")):
    backend = draw(st.sampled_from(list(backends)))
    T = draw(st.one_of(log_float(1e-2, 10.0), st.sampled_from([1.0, 0.5, 2.0])))
    t_start = draw(start_times())
    real = draw(st.booleans())  # Radau needs a real problem
    rate = draw(st.sampled_from(["z", "z", "z", "zero"]))
    if rate == "zero":
        a = 0.0
        b, c, tc, ts = draw(forcings(T, t_start, mode="only", complex_ok=not real))
    else:
        z = draw(z_values(5.0, classes=("neg", "pos") if real else ("neg", "diss", "complex", "imag", "pos")))
        if z.real > 1.0:
            z = z / z.real
        a = z / T
        b, c, tc, ts = draw(forcings(T, t_start, mode="any", complex_ok=not real))
    ncut = draw(st.sampled_from([0, 0, 1, 2]))
    cuts = sorted(draw(st.lists(st.floats(0.05, 0.95), min_size=ncut, max_size=ncut, unique=True)))
    u0 = draw(states(complex_ok=not real))
    is_complex = any(isinstance(v, dict) for v in (enc(a), enc(b), *u0))
    # solve_ivp documents complex support for RK23, RK45, DOP853 and BDF only (BDF does not keep the
    # global error within 100x the local tolerance and is not used)
    method = draw(st.sampled_from(["RK45", "DOP853"] if is_complex else ["RK45", "DOP853", "Radau", "Radau"]))
    return {"backend": backend, "method": method, "T": T, "t_start": t_start, "a": enc(a), "b": enc(b),
            "c": c, "tc": tc, "ts": ts, "u0": u0, "shape": draw(shapes(len(u0))), "cuts": cuts,
            "rtol": draw(log_float(1e-10, 1e-6)), "atol": draw(log_float(1e-12, 1e-8)),
            "dt0": draw(st.one_of(st.none(), log_float(1e-4, 1.0).map(lambda x: x * T)))}


def agreement_cases():
    return st.one_of(
        fixed_cases(backends=None, nonlinear=True, nmax=20),
        fixed_cases(backends=None, nmax=20),
        adaptive_cases(backends=None, forcing="none", tol_lo=1e-5),
    )


# ---------------------------------------------------------------------------------------
FIXED_RULE = ("non-trivial = n >= 2 and (b != 0 or complex a or t_start != 0) and tolerance <= 1e-8 of "
              "the result")

SUBCHECKS = [
    SubCheck("fixed_step_schemes", strategy=lambda: fixed_cases(cuts="none"), check=check_fixed,
             mode="nojit", budget={"quick": 1600, "thorough": 60000}, shards={"quick": 2, "thorough": 8},
             rule=FIXED_RULE),
    SubCheck("stage_times", strategy=lambda: fixed_cases(rate="zero", forcing="only"), check=check_fixed,
             mode="nojit", budget={"quick": 500, "thorough": 16000}, shards={"quick": 1, "thorough": 2},
             rule="state-free du/dt = b p(t): result = quadrature rule of the scheme; " + FIXED_RULE),
    SubCheck("segments_carry_over", strategy=lambda: fixed_cases(cuts="some"), check=check_fixed,
             mode="nojit", budget={"quick": 900, "thorough": 30000}, shards={"quick": 2, "thorough": 4},
             rule="tracker interrupts split the run into several stepper calls; " + FIXED_RULE),
    SubCheck("adaptive_end_time_and_error", strategy=adaptive_cases, check=check_adaptive, mode="nojit",
             budget={"quick": 400, "thorough": 12000}, shards={"quick": 2, "thorough": 4},
             rule="non-trivial = >= 2 accepted steps"),
    SubCheck("rkf45_single_step_polynomial", strategy=rkf_cases, check=check_single_step, mode="nojit",
             budget={"quick": 300, "thorough": 8000}, shards={"quick": 1, "thorough": 2},
             rule="non-trivial = sharp tolerance and (b != 0 or complex a or t_start != 0); reject mode: "
                  "the whole-range trial step must be rejected"),
    SubCheck("backend_agreement", strategy=agreement_cases, check=check_agreement, mode="nojit",
             budget={"quick": 300, "thorough": 10000}, shards={"quick": 1, "thorough": 3},
             rule="numpy vs numba (interpreted source of the numba loops); " + FIXED_RULE),
    SubCheck("scipy_solver", strategy=scipy_cases, check=check_scipy, mode="nojit",
             budget={"quick": 200, "thorough": 6000}, shards={"quick": 1, "thorough": 4},
             rule="non-trivial = b != 0 or complex a or t_start != 0"),
    SubCheck("stepper_applied_to_other_field", strategy=lambda: fixed_cases(cuts="none", nmax=12),
             check=check_stepper_reuse, mode="nojit", budget={"quick": 500, "thorough": 12000},
             shards={"quick": 1, "thorough": 4},
             rule="solver.make_stepper(example, dt) called with other fields than the example; non-trivial = "
                  "sharp tolerance and results for the two initial states differ by > 1000 tolerances"),
    SubCheck("stepper_applied_to_other_field_jit",
             strategy=lambda: fixed_cases(backends=("numba",), cuts="none", nmax=8),
             check=check_stepper_reuse, mode="jit", budget={"quick": 8, "thorough": 200},
             shards={"quick": 2, "thorough": 4},
             rule="compiled stepping function called with other fields than the example"),
    # ---- dedicated sub-check of finding F-C06a ------------------------------------------
    SubCheck("adaptive_huge_initial_dt",
             strategy=lambda: adaptive_cases(huge_dt0=True, forcing="none").map(
                 lambda c: dict(c, judge_huge_dt0=True)),
             check=check_adaptive, mode="nojit", budget={"quick": 40, "thorough": 400},
             shards={"quick": 1, "thorough": 1},
             rule="initial step >= 1.5e6 * range; end-time clause; non-trivial = >= 2 accepted steps"),
    # ---- compiled samples (every case compiles its own stepper: 1-5 s) ---------------
    SubCheck("fixed_step_schemes_jit",
             strategy=lambda: fixed_cases(backends=("numba",), cuts="any", nmax=12), check=check_fixed,
             mode="jit", budget={"quick": 30, "thorough": 800}, shards={"quick": 3, "thorough": 8},
             rule=FIXED_RULE),
    SubCheck("adaptive_jit",
             strategy=lambda: st.one_of(adaptive_cases(backends=("numba",), tol_lo=1e-5),
                                        rkf_cases(backends=("numba",))),
             check=lambda case: check_single_step(case) if "mode" in case else check_adaptive(case),
             mode="jit", budget={"quick": 10, "thorough": 240}, shards={"quick": 1, "thorough": 4},
             rule="non-trivial = >= 2 accepted steps / single-step rule"),
    SubCheck("backend_agreement_jit", strategy=lambda: agreement_cases(), check=check_agreement,
             mode="jit", budget={"quick": 12, "thorough": 240}, shards={"quick": 2, "thorough": 4},
             rule="numpy vs compiled numba; " + FIXED_RULE),
]
