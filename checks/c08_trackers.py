"""C08 - trackers fire exactly once per scheduled time, in order, even when stopping.

Every case is one ``eq.solve(...)`` of the linear test equation ``u' = a u`` (closed-form
reference for the state after n steps of every scheme) with 1-4 recording trackers
(``DataTracker``, ``CallbackTracker``, ``MemoryStorage.tracker``, a user-defined
``TrackerBase`` subclass).  The oracle is an invariant over the recorded history
``(tracker, t, state copy)``, evaluated in units of ``dt`` relative to ``t_start`` with exact
rational arithmetic on the generating numbers (see ``vlib/sim_common.py``).

Sub-checks
    tracker_schedule        ordering, genuine simulation times + states, once-per-schedule
    storage_frame_count     ``len(storage.times) == floor(T/D)+1`` (one more for part steps)
    stop_handling           StopIteration / FinishedSimulation raised by trackers
    adaptive_exact_times    adaptive steppers hit the scheduled times exactly
    adaptive_distinct_schedules   same oracle, always several *different* schedules (a defect of
                            the original tree - trackers called up to dt_opt/2 early whenever
                            another tracker interrupted - was found here and repaired in /repo)

"due" is what the controller documents: in the main loop a tracker fires within half a
step of its interrupt (``tracker_atol = dt/2``); in the final handling at ``t_end`` only
trackers that "requested exactly this time point" fire (``stepper_atol = 1e-6 dt``).
"""

from __future__ import annotations

import math
from fractions import Fraction

import numpy as np
from hypothesis import strategies as st

from vlib import env

env.setup()

import pde  # noqa: E402,F401

from vlib import sim_common as sc  # noqa: E402
from vlib.core import SubCheck, Violation  # noqa: E402

PROPERTY = "C08"
RULE = ("one solve() per case with recording trackers; non-trivial = >= 2 trackers served at the same "
        "step, or a stop request that took effect (adaptive: >= 3 scheduled times inside the range); "
        "distinct = (solver, backend, time axis, tracker kinds + schedules + stop requests)")
ASSUMPTIONS = [
    "|t_start| <= 1e5*dt, dt >= 1e-4, ranges of 0..200 steps (ulp(t) <= 1e-10 dt)",
    "the once-per-schedule clause is judged for constant intervals D >= dt (as stated), also with the "
    "documented ConstantInterrupts(t_start=...) offset; D < dt, fixed lists, logarithmic and geometric "
    "interrupts are judged by ordering / genuine time / genuine state / finalisation only",
    "a scheduled time exactly half-way between two steps may be served by either of them",
    "for a range that is not a whole number of steps one extra call serving the first scheduled time "
    "after t_end is accepted in the last (partial) step: at t_final, or at the last step before t_end "
    "when that scheduled time lies within dt/2 of it (label extra:before-final)",
    "scheduled times within (t_end, t_end + 2e-6 dt] may or may not be served (controller tolerance)",
    "with several simultaneous stop requests any of their messages may be the reported reason",
    "adaptive: autonomous decaying linear problem; 'exactly' = within dt_min (1e-10) + round-off, "
    "written as 2e-10; a call that is early by less than the controller's own comparison tolerance "
    "1e-6*max(dt, 4T) is not judged (it needs two schedules that nearly coincide)",
]

HALF = Fraction(1, 2)
EPS = 1e-9  # slack on the half-step window (ties / round-off of the float schedule)
END_WINDOW = 2e-6  # controller's stepper_atol is 1e-6 dt


# ---------------------------------------------------------------------------------------
# strategies
# ---------------------------------------------------------------------------------------
# (the last four: trackers of the package without a callback, recorded by wrapping their `handle`)
TRACKER_KINDS = ("data", "callback", "storage", "custom", "data", "callback", "custom", "walltime", "print", "consistency",
                 "maxruntime")
SMALL_RHO = st.one_of(
    st.integers(1, 6).map(lambda p: [p, 1]),
    st.sampled_from([[3, 2], [5, 2], [7, 2], [4, 3], [5, 3], [7, 3], [5, 4], [7, 4], [9, 4], [6, 5], [12, 5],
                     [11, 10], [21, 10], [25, 10], [10, 3]]))


@st.composite
def tracker_sets(draw, min_n=1, max_n=4, jit=False):
    pool = draw(st.lists(st.builds(lambda r: {"kind": "const", "rho": r, "ts": None, "route": "num"}, SMALL_RHO),
                         min_size=1, max_size=2))
    n = draw(st.sampled_from([k for k in (1, 2, 2, 3, 3, 4, 4) if min_n <= k <= max_n]))
    general = sc.interrupt_specs(("const", "fixed", "fixed", "log", "geom"), max_x=60.0)
    out = []
    for _ in range(n):
        intr = draw(st.one_of(st.sampled_from(pool), st.sampled_from(pool),
                              sc.interrupt_specs(("const",), rho_ge_1=True), sc.interrupt_specs(("const",)),
                              general, general))
        t = {"kind": draw(st.sampled_from(TRACKER_KINDS)), "intr": intr,
             "func": "copy" if jit else draw(st.sampled_from(["copy", "copy", "stats", "laplace"]))}
        if out and draw(st.integers(0, 7)) == 0:
            # hand the previous tracker's interrupt *object* to this tracker as well
            prev = dict(out[-1]["intr"])
            if prev["kind"] != "geom" or prev.get("route") == "obj":
                if "route" in prev and prev["kind"] != "geom":
                    prev["route"] = "obj"
                out[-1] = dict(out[-1], intr=prev)
                t.update(intr=prev, share=True)
        out.append(t)
    return out


def sim_case(mode, trackers, time=None, theta="any"):
    jit = mode == "jit"

    @st.composite
    def build(draw):
        return {"eq": draw(sc.eq_specs(("lin",))), "state": draw(sc.state_specs()),
                "time": draw(time if time is not None else sc.time_specs(max_n=40 if jit else 200, theta=theta)),
                "solver": draw(sc.solver_specs(mode)), "trackers": draw(trackers)}

    return build()


def schedule_strategy(mode):
    return sim_case(mode, tracker_sets(1, 4, jit=mode == "jit"))


def stop_strategy(mode):
    """Stop requests are aimed at one target time tau (in steps): every chosen tracker stops at its
    scheduled call nearest to (for the end of the range: last before) tau, so that trackers sharing a
    schedule raise together; plain call indices are used for the other interrupt types.  Half of the
    time the range is made a multiple of one of the constant intervals, so that a scheduled time
    coincides with t_end (stop in the controller's final handling).  Near-whole ranges are left out:
    whether the stop falls into the loop or into the final handling is then a matter of 1e-6 dt."""
    jit = mode == "jit"

    @st.composite
    def build(draw):
        trackers = draw(tracker_sets(1, 4, jit=jit))
        tspec = draw(sc.time_specs(max_n=40 if jit else 200, theta="nowhole"))
        consts = [t["intr"] for t in trackers if t["intr"]["kind"] == "const" and isinstance(t["intr"]["rho"], list)
                  and t["intr"]["ts"] is None]
        if consts and draw(st.booleans()):
            p = draw(st.sampled_from(consts))["rho"][0]
            tspec = dict(tspec, N=p * draw(st.integers(1, max(1, (40 if jit else 200) // p))), theta=[0, 1])
        xf = float(sc.times_of(tspec)[3])
        tau = draw(st.one_of(st.just(xf), st.just(xf), st.floats(0.0, max(xf, 1.0)),
                             st.integers(0, max(1, int(xf))).map(float)))
        n = len(trackers)
        order = draw(st.permutations(list(range(n))))
        nstop = min(n, draw(st.sampled_from([1, 1, 2, 2, 3])))
        for i in order[:nstop]:
            t = trackers[i] = dict(trackers[i])
            if t["kind"] == "storage":
                t["kind"] = draw(st.sampled_from(["data", "callback", "custom"]))
            intr = t["intr"]
            if intr["kind"] == "const" and draw(st.integers(0, 5)) > 0:
                first, rho = sc.const_schedule(intr)
                q = (tau - float(first)) / float(rho)
                at = max(0, math.floor(q + 1e-9) if tau == xf else round(q))
            else:
                at = draw(st.one_of(st.integers(0, 3), st.integers(0, 12)))
            t["stop"] = {"at": at, "type": draw(st.sampled_from(["stop", "finished"])),
                         "msg": draw(st.sampled_from(["reason A", "done: steady state", "x", ""]))}
        return {"eq": draw(sc.eq_specs(("lin",))), "state": draw(sc.state_specs()), "time": tspec,
                "solver": draw(sc.solver_specs(mode)), "trackers": trackers}

    return build()


@st.composite
def frame_strategy(draw):
    rho = draw(sc.rho_strategy(lo_ge_1=True))
    tspec = draw(sc.time_specs(max_n=200))
    if isinstance(rho, list) and draw(st.booleans()):
        # T an exact multiple of D: the last frame sits exactly on t_end
        p = rho[0]
        tspec = dict(tspec, N=p * draw(st.integers(1, max(1, 200 // p))))
    main = {"kind": draw(st.sampled_from(["storage", "storage", "data"])),
            "intr": {"kind": "const", "rho": rho, "ts": None, "route": draw(st.sampled_from(["num", "obj"]))},
            "func": "copy"}
    others = draw(st.lists(sc.tracker_specs(TRACKER_KINDS, funcs=False), max_size=2))
    pos = draw(st.integers(0, len(others)))
    trackers = others[:pos] + [main] + others[pos:]
    return {"eq": draw(sc.eq_specs(("lin",))), "state": draw(sc.state_specs()), "time": tspec,
            "solver": draw(sc.solver_specs("nojit")), "trackers": trackers, "main": pos}


def adaptive_strategy(mode, distinct):
    jit = mode == "jit"
    ts = st.one_of(st.none(), st.none(), st.none(), st.sampled_from([[-1, 1], [3, 10], [1, 2], [5, 2]]),
                   st.floats(0.0, 5.0))

    @st.composite
    def build(draw):
        eq = {"kind": "lin", "z": -draw(st.one_of(st.sampled_from([0.5, 0.1, 0.02]), st.floats(0.005, 0.5)))}
        tspec = draw(sc.time_specs(max_n=12 if jit else 40))
        solver = {"name": draw(st.sampled_from(["euler", "runge-kutta"])),
                  "backend": "numba" if jit else draw(st.sampled_from(["numpy", "numba"])),
                  "adaptive": True, "tolerance": draw(st.sampled_from([1e-3, 1e-4, 1e-5]))}
        rho = st.one_of(SMALL_RHO, st.floats(0.25, 12.0), st.sampled_from([[1, 2], [1, 4], [3, 4], [1, 3]]))
        n = draw(st.integers(2 if distinct else 1, 3))
        if distinct:
            rhos = draw(st.lists(rho, min_size=n, max_size=n, unique_by=lambda r: sc.frac(r)))
        else:
            pool = draw(st.lists(rho, min_size=1, max_size=2))
            rhos = [draw(st.one_of(st.sampled_from(pool), rho)) for _ in range(n)]
        trackers = []
        for r in rhos:
            off = draw(ts)
            trackers.append({"kind": draw(st.sampled_from(TRACKER_KINDS)), "func": "copy",
                             "intr": {"kind": "const", "rho": r, "ts": off,
                                      "route": "obj" if off is not None else draw(st.sampled_from(["num", "obj"]))}})
        return {"eq": eq, "state": draw(sc.state_specs(allow_coll=False)), "time": tspec, "solver": solver,
                "trackers": trackers}

    return build()


# ---------------------------------------------------------------------------------------
# oracle pieces
# ---------------------------------------------------------------------------------------
def _vkey(sub, what, case):
    return f"{sub}:{what}:{case['solver']['backend']}"


def _labels(case):
    s = case["solver"]
    labs = [f"solver:{s['name']}", f"backend:{s['backend']}", f"range:{sc.theta_class(case['time'])}",
            f"trackers:{len(case['trackers'])}", "t0:zero" if not case["time"]["t0m"] else "t0:nonzero"]
    for t in case["trackers"]:
        labs.append("intr:" + sc.interrupt_label(t["intr"]))
        labs.append("tracker:" + t["kind"])
        if t.get("share"):
            labs.append("intr:shared-object")
    return labs


def _key(case):
    s = case["solver"]
    return [s, case["time"], [[t["kind"], t["intr"], t.get("stop")] for t in case["trackers"]]]


def _describe(case, recs, t0, dt):
    parts = []
    for t, r in zip(case["trackers"], recs):
        rel = [round((x - t0) / dt, 6) for x in r.times()[:40]]
        parts.append(f"#{r.idx} {t['kind']} {t['intr']} stop={t.get('stop')} called at steps {rel}")
    return "; ".join(parts)


def judge_genuine(sub, case, recs, t0, dt, n_last, ctx):
    """ordering, simulation-time lattice, state of that time, one initialise/finalise.
    Returns the per-tracker lists of step numbers."""
    all_ns = []
    for r in recs:
        times, states = r.times(), r.states()
        if len(times) != len(states):
            raise Violation(f"tracker #{r.idx}: {len(times)} times but {len(states)} data items; {ctx}",
                            key=_vkey(sub, "times-vs-data", case))
        ns = []
        for t, u in zip(times, states):
            try:
                n = sc.step_of(t, t0, dt, who=f"tracker #{r.idx} call")
            except Violation as v:
                raise Violation(v.detail + "; " + ctx, key=_vkey(sub, "not-a-simulation-time", case)) from None
            if ns and not n > ns[-1]:
                raise Violation(f"tracker #{r.idx} called at times that are not strictly increasing "
                                f"(steps {ns[-1]} then {n}); {ctx}", key=_vkey(sub, "not-increasing", case))
            if n < 0 or n > n_last:
                raise Violation(f"tracker #{r.idx} called at step {n} outside the run 0..{n_last}; {ctx}",
                                key=_vkey(sub, "outside-run", case))
            ref, tol = sc.lin_reference(case, n)
            err = float(np.abs(u - ref).max())
            if not err <= tol:
                raise Violation(f"tracker #{r.idx} at t={t!r} (step {n}) saw a state that is not the state "
                                f"after {n} steps: |diff|={err:.3g} > {tol:.3g}; {ctx}",
                                key=_vkey(sub, "state-of-another-time", case))
            ns.append(n)
        if r.n_init != 1 or r.n_final != 1:
            raise Violation(f"tracker #{r.idx}: initialize called {r.n_init}x, finalize called {r.n_final}x; {ctx}",
                            key=_vkey(sub, "finalize", case))
        if r.storage is not None and getattr(r.storage, "_is_writing", False):
            raise Violation(f"storage of tracker #{r.idx} was not closed (end_writing); {ctx}",
                            key=_vkey(sub, "finalize", case))
        all_ns.append(ns)
    return all_ns


def _within_half(n, sigma):
    return abs(float(n - sigma)) <= 0.5 * (1 + EPS) + EPS


def judge_const_schedule(sub, case, idx, ispec, ns, x, n_last, whole, ctx, labels, stop=None):
    """Once-per-schedule clause for one constant-interval tracker with D >= dt.

    ``stop`` is None for a run that reached the end, else ("main" | "final" | "unclear").
    ``n_last`` is the last step of the run (stop: the step of the stop)."""
    first, rho = sc.const_schedule(ispec)
    if rho < 1:
        return

    def sigma(i):
        return first + i * rho

    def fail(what, key):
        raise Violation(f"tracker #{idx} (first={float(first)!r}, interval={float(rho)!r} steps, range "
                        f"X={float(x)!r} steps, last step {n_last}): {what}; {ctx}", key=_vkey(sub, key, case))

    in_final = stop in (None, "final")
    for i, n in enumerate(ns):
        s = sigma(i)
        if _within_half(n, s) and (s <= x or stop is not None and n < n_last):
            continue  # regular service
        if s > x and n >= n_last - 1 and i == len(ns) - 1 and stop in (None, "final", "unclear"):
            # first scheduled time after t_end, served in the last (partial) step
            gap = float(s - x)
            at_final = n == n_last and float(s) <= n + END_WINDOW
            if whole:
                if at_final and gap <= END_WINDOW:
                    labels.append("extra:end-window")
                    continue
                fail(f"call at step {n} serves no scheduled time <= t_end (next scheduled {float(s)!r}) although "
                     f"the range is a whole number of steps", "schedule:extra-call")
            if at_final:
                labels.append("extra:at-final")
                continue
            if _within_half(n, s):
                labels.append("extra:before-final")
                continue
        if s > x and stop == "main" and _within_half(n, s) and n == n_last:
            continue  # don't-care: next time beyond t_end but within half a step of the stop
        if float(n - s) > 0:
            fail(f"scheduled time #{i} = {float(s)!r} was not served within dt/2 (the call after call #{i - 1} "
                 f"came at step {n})", "schedule:late-or-missed")
        fail(f"call #{i} at step {n} is more than dt/2 before its scheduled time {float(s)!r}",
             "schedule:early-or-unscheduled")
    # what should have been served but was not
    s = sigma(len(ns))
    if stop is None or stop == "final":
        if s <= x:
            fail(f"scheduled time #{len(ns)} = {float(s)!r} <= t_end was never served "
                 f"({'stop in the final handling' if stop else 'run completed'})",
                 "stop:due-not-served" if stop else "schedule:late-or-missed")
    elif stop == "main":
        if float(s) + 0.5 * (1 + EPS) + EPS < n_last:
            fail(f"scheduled time #{len(ns)} = {float(s)!r} before the stop was never served",
                 "schedule:late-or-missed")
        if abs(float(s) - n_last) < 0.5 * (1 - EPS) - EPS and s <= x:
            fail(f"tracker was due at the stop (scheduled {float(s)!r}, stop at step {n_last}) but was not served",
                 "stop:due-not-served")


def coincidences(all_ns):
    seen = {}
    for ns in all_ns:
        for n in ns:
            seen[n] = seen.get(n, 0) + 1
    return sum(1 for v in seen.values() if v >= 2)


# ---------------------------------------------------------------------------------------
# tracker_schedule / stop_handling
# ---------------------------------------------------------------------------------------
def check_history(case, sub="sched"):
    dt, t0, t1, x = sc.times_of(case["time"])
    objs, recs = sc.build_trackers(case["trackers"], dt, t0)
    res, info, _ = sc.run_sim(case, objs)
    labels = _labels(case)
    steps = info["solver"]["steps"]
    tf = info["controller"]["t_final"]
    ctrl = info["controller"]
    whole = sc.theta_class(case["time"]) == "whole"
    ctx = f"dt={dt!r} t_range=({t0!r}, {t1!r}) steps={steps} t_final={tf!r}; " + _describe(case, recs, t0, dt)

    raised = [(r.idx,) + ev for r in recs for ev in r.raised]
    stop = None
    if raised:
        t_s = min(ev[1] for ev in raised)
        later = [ev for ev in raised if ev[1] != t_s]
        if later:
            raise Violation(f"a tracker was still called (and raised) at t={later[0][1]!r} after the stop request "
                            f"at t={t_s!r}; {ctx}", key=_vkey(sub, "stop:run-continued", case))
        n_s = sc.step_of(t_s, t0, dt, who="stop")
        if n_s < float(x) - 2e-6:
            stop = "main"
        elif n_s > float(x) - 0.5e-6:
            stop = "final"
        else:
            stop = "unclear"
        labels += [f"stop:{stop}", f"stop:at-step-{min(n_s, 3)}{'+' if n_s > 3 else ''}",
                   f"stop:raisers={len(raised)}"]
        n_last = n_s
    else:
        n_last = steps
        labels.append("stop:none" if any(t.get("stop") for t in case["trackers"]) else "stop:not-requested")

    all_ns = judge_genuine(sub, case, recs, t0, dt, n_last, ctx)

    if raised:
        # the run ended at the time of the stop, with the state of that time
        if tf != t_s:
            raise Violation(f"stop requested at t={t_s!r} but t_final={tf!r}; {ctx}", key=_vkey(sub, "stop:t_final", case))
        if steps != n_s:
            raise Violation(f"stop requested at step {n_s} but {steps} steps were made; {ctx}",
                            key=_vkey(sub, "stop:steps", case))
        for r in recs:
            if r.times() and r.times()[-1] > t_s:
                raise Violation(f"tracker #{r.idx} was called at t={r.times()[-1]!r} after the stop at {t_s!r}; {ctx}",
                                key=_vkey(sub, "stop:run-continued", case))
        seen = [r.calls[-1][1] for r in recs if r.raised]
        if not np.array_equal(res.data, seen[0]):
            raise Violation(f"returned state {res.data.tolist()!r} is not the state at the stop "
                            f"{seen[0].tolist()!r}; {ctx}", key=_vkey(sub, "stop:state", case))
        reason, ok = ctrl.get("stop_reason"), ctrl.get("successful")
        accepted = []
        for _, _, typ, msg in raised:
            accepted.append((msg if msg else None, typ == "finished"))
        if not any((m is None or reason == m) and ok is fin for m, fin in accepted):
            raise Violation(f"stop reason/successful reported as {reason!r}/{ok!r}; requests were "
                            f"{[(ev[2], ev[3]) for ev in raised]!r}; {ctx}", key=_vkey(sub, "stop:reason", case))
        if not isinstance(reason, str) or not reason or reason == "Reached final time":
            raise Violation(f"stop reason reported as {reason!r} although a tracker stopped the run; {ctx}",
                            key=_vkey(sub, "stop:reason", case))
        labels.append("stop:successful" if ok else "stop:aborted")
    else:
        if ctrl.get("successful") is not True:
            raise Violation(f"run without stop request reports successful={ctrl.get('successful')!r}; {ctx}",
                            key=_vkey(sub, "stop:reason", case))
        if not abs(tf - t1) < dt * (1 + 1e-9):
            raise Violation(f"|t_final - t_end| >= dt; {ctx}", key=_vkey(sub, "t_final", case))

    judged = 0
    for t, r, ns in zip(case["trackers"], recs, all_ns):
        if t["intr"]["kind"] == "const" and sc.frac(t["intr"]["rho"]) >= 1:
            judge_const_schedule(sub, case, r.idx, t["intr"], ns, x, n_last, whole, ctx, labels, stop=stop)
            judged += 1
    co = coincidences(all_ns)
    at_stop = sum(1 for ns in all_ns if ns and ns[-1] == n_last) if raised else 0
    if raised:
        labels.append("stop:coincidence" if at_stop >= 2 else "stop:single")
    labels.append("coincidences>=1" if co else "coincidences=0")
    labels.append(f"judged-const:{min(judged, 3)}")
    nt = bool(raised) or co >= 1
    return {"nt": nt, "key": _key(case), "labels": labels}


def check_stop(case):
    return check_history(case, sub="stoprun")


# ---------------------------------------------------------------------------------------
# storage_frame_count
# ---------------------------------------------------------------------------------------
def check_frames(case):
    dt, t0, t1, x = sc.times_of(case["time"])
    objs, recs = sc.build_trackers(case["trackers"], dt, t0)
    res, info, _ = sc.run_sim(case, objs)
    labels = _labels(case)
    main = recs[case["main"]]
    ispec = case["trackers"][case["main"]]["intr"]
    rho = sc.frac(ispec["rho"])
    q = x / rho
    base = math.floor(q) + 1
    nxt = (math.floor(q) + 1) * rho  # first scheduled time after t_end
    cls = sc.theta_class(case["time"])
    if main.storage is not None:
        times = list(main.storage.times)
        if len(main.storage) != len(times) or len(main.storage.data) != len(times):
            raise Violation(f"storage has {len(times)} times but {len(main.storage.data)} frames",
                            key=_vkey("frames", "times-vs-data", case))
    else:
        times = list(main.obj.times)
        if len(main.obj.data) != len(times):
            raise Violation(f"DataTracker has {len(times)} times but {len(main.obj.data)} data items",
                            key=_vkey("frames", "times-vs-data", case))
    allowed = {base}
    if cls != "whole" or float(nxt - x) <= END_WINDOW:
        allowed.add(base + 1)
    exact = q.denominator == 1
    labels += ["T/D:integer" if exact else "T/D:fraction", f"frames:{'base' if len(times) == base else 'base+1'}"]
    ctx = (f"dt={dt!r} t_range=({t0!r}, {t1!r}) = {float(x)!r} steps ({cls}), interval {float(rho)!r} steps, "
           f"T/D={float(q)!r}, frame times (steps) {[round((t - t0) / dt, 6) for t in times[:50]]}")
    if len(times) not in allowed:
        raise Violation(f"{len(times)} frames recorded, expected floor(T/D)+1 = {base}"
                        f"{' (or one more)' if len(allowed) > 1 else ''}; {ctx}",
                        key=_vkey("frames", "count:" + ("missing" if len(times) < base else "surplus"), case))
    if times and times[0] != t0:
        raise Violation(f"first frame at {times[0]!r}, not at t_start; {ctx}", key=_vkey("frames", "first", case))
    if any(b <= a for a, b in zip(times, times[1:])):
        raise Violation(f"frame times not strictly increasing; {ctx}", key=_vkey("frames", "not-increasing", case))
    nt = case["time"]["N"] >= 3 and base >= 2
    return {"nt": nt, "key": _key(case), "labels": labels}


# ---------------------------------------------------------------------------------------
# adaptive steppers
# ---------------------------------------------------------------------------------------
def check_adaptive(case):
    dt, t0, t1, x = sc.times_of(case["time"])
    objs, recs = sc.build_trackers(case["trackers"], dt, t0)
    res, info, _ = sc.run_sim(case, objs)
    labels = _labels(case)
    dt_opt = float(info["solver"]["dt"])
    tmax = max(abs(t0), abs(t1))
    # The controller compares times with stepper_atol = 1e-6 * (current step of the solver); the current
    # step never exceeds max(initial dt, 4 * range).  Within that window "due" is the controller's
    # business: a scheduled time that close after t_end / after another interrupt may be served there.
    atol = 1e-6 * max(dt, 4 * float(x) * dt, dt_opt) + 4e-10
    window = atol / dt
    nsched = 0
    ctx = (f"dt0={dt!r} t_range=({t0!r}, {t1!r}) solver={case['solver']!r} steps={info['solver']['steps']} "
           f"dt_opt(end)={dt_opt!r}; " + "; ".join(
               f"#{r.idx} interval {sc.rho_float(t['intr']) * dt!r} ts={t['intr']['ts']!r} called at {r.times()[:30]!r}"
               for t, r in zip(case["trackers"], recs)))
    schedules = set()
    for t, r in zip(case["trackers"], recs):
        first, rho = sc.const_schedule(t["intr"])
        schedules.add((first, rho))
        times = r.times()
        k_last = math.floor((x - first) / rho) if x >= first else -1
        nsched = max(nsched, k_last + 1)
        if r.n_final != 1 or r.n_init != 1:
            raise Violation(f"tracker #{r.idx} initialize {r.n_init}x / finalize {r.n_final}x; {ctx}",
                            key=_vkey("adaptive", "finalize", case))
        for i, tc in enumerate(times):
            if i and not tc > times[i - 1]:
                raise Violation(f"tracker #{r.idx} times not strictly increasing; {ctx}",
                                key=_vkey("adaptive", "not-increasing", case))
            sig = first + i * rho
            s = t0 + float(sig) * dt
            tol = 2e-10 + (i + 2) * 4 * sc.ulp(tmax)
            if i > k_last:
                if i == k_last + 1 and float(sig - x) <= window and i == len(times) - 1:
                    labels.append("extra:end-window")
                    continue
                raise Violation(f"tracker #{r.idx}: call #{i} at t={tc!r} serves no scheduled time <= t_end "
                                f"(next scheduled {s!r}); {ctx}",
                                key=_vkey("adaptive", "early-call" if tc < s - atol else "extra-call", case))
            if tc < s - tol:
                if tc >= s - atol:
                    labels.append("early-within-controller-atol")
                    continue
                raise Violation(f"tracker #{r.idx}: call #{i} at t={tc!r} comes {s - tc:.6g} BEFORE its scheduled "
                                f"time {s!r} (adaptive stepper, expected to hit it exactly); {ctx}",
                                key=_vkey("adaptive", "early-call", case))
            if tc > s + tol:
                raise Violation(f"tracker #{r.idx}: call #{i} at t={tc!r} comes {tc - s:.6g} after its scheduled "
                                f"time {s!r}; {ctx}", key=_vkey("adaptive", "late-call", case))
        need = k_last + 1
        if len(times) < need and not (len(times) == need - 1 and float(x - (first + k_last * rho)) <= window):
            raise Violation(f"tracker #{r.idx}: {len(times)} calls but {need} scheduled times <= t_end; {ctx}",
                            key=_vkey("adaptive", "missed", case))
        if r.storage is not None and len(r.storage.data) != len(times):
            raise Violation(f"storage #{r.idx}: {len(times)} times but {len(r.storage.data)} frames; {ctx}",
                            key=_vkey("adaptive", "times-vs-data", case))
    labels.append(f"tol:{case['solver']['tolerance']}")
    labels.append(f"schedules:{'distinct' if len(schedules) > 1 else 'one'}")
    labels.append("scheduled>=3" if nsched >= 3 else "scheduled<3")
    return {"nt": nsched >= 3, "key": _key(case), "labels": labels}


# ---------------------------------------------------------------------------------------
def _sub(name, strat, check, mode, quick, thorough, shards_q, rule):
    return SubCheck(name=name, strategy=strat, check=check, mode=mode,
                    budget={"quick": quick, "thorough": thorough},
                    shards={"quick": shards_q, "thorough": 16 if mode == "nojit" else 8},
                    time_limit={"quick": 240 if mode == "jit" else 150, "thorough": 1500}, rule=rule)


R_SCHED = "non-trivial = >= 2 trackers served at the same step at least once"
R_STOP = "non-trivial = a stop request took effect (labels: main loop / final handling, coincidence)"
R_FRAMES = "non-trivial = N >= 3 and >= 2 frames expected"
R_ADAPT = "non-trivial = >= 3 scheduled times inside the range"

SUBCHECKS = [
    _sub("tracker_schedule_nojit", lambda: schedule_strategy("nojit"), check_history, "nojit", 1600, 25000, 5, R_SCHED),
    _sub("storage_frame_count", frame_strategy, check_frames, "nojit", 1200, 15000, 3, R_FRAMES),
    _sub("stop_handling_nojit", lambda: stop_strategy("nojit"), check_stop, "nojit", 1600, 25000, 5, R_STOP),
    _sub("adaptive_exact_times_nojit", lambda: adaptive_strategy("nojit", False), check_adaptive, "nojit",
         400, 5000, 2, R_ADAPT),
    _sub("adaptive_distinct_schedules", lambda: adaptive_strategy("nojit", True), check_adaptive, "nojit",
         300, 4000, 1, R_ADAPT + "; always >= 2 different schedules (regression area of the repaired "
         "controller defect)"),
    _sub("adaptive_exact_times_jit", lambda: adaptive_strategy("jit", False), check_adaptive, "jit", 6, 100, 1,
         R_ADAPT),
    _sub("tracker_schedule_jit", lambda: schedule_strategy("jit"), check_history, "jit", 8, 150, 1, R_SCHED),
    _sub("stop_handling_jit", lambda: stop_strategy("jit"), check_stop, "jit", 8, 150, 1, R_STOP),
]
# jit samples first: they are the long pole, the runner starts jobs in list order
SUBCHECKS.sort(key=lambda sc_: sc_.mode != "jit")
