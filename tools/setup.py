#!/venv/bin/python
"""Offline setup: make sure hypothesis is importable in /venv (installs from the wheelhouse
if missing) and that the repository under test imports."""
import subprocess
import sys

try:
    import hypothesis  # noqa: F401
except ImportError:
    subprocess.check_call([sys.executable, "-m", "pip", "install", "--no-index", "--find-links",
                           "/opt/veriftools/wheels", "hypothesis"])
    import importlib
    importlib.invalidate_caches()
    import hypothesis  # noqa: F401
import os
sys.path.insert(0, os.path.dirname(os.path.dirname(os.path.abspath(__file__))))
from vlib import env
pde = env.import_pde()
print("setup ok: hypothesis", hypothesis.__version__, "pde from", pde.__file__)
