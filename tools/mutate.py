#!/venv/bin/python
"""Sensitivity protocol: apply planted mutations to a scratch copy of the repository and
run a property's check against it (PYPDE_REPO), then remove the copy.

    tools/mutate.py C09 [--tier quick] [--only name,...] [--seed N] [--scale X]

Mutations are listed in mutations/<Cxx>.json: [{"name":..., "file":..., "old":..., "new":...,
"count": 1, "note":...}, ...].  A mutation is *caught* when the check exits 1 and prints a
VIOLATION line.  Results are written to mutations/results/<Cxx>.json.
"""
import argparse
import json
import os
import shutil
import subprocess
import sys
import tempfile
import time

VERIF = os.path.dirname(os.path.dirname(os.path.abspath(__file__)))


def main():
    ap = argparse.ArgumentParser()
    ap.add_argument("prop")
    ap.add_argument("--tier", default="quick")
    ap.add_argument("--only", default=None)
    ap.add_argument("--seed", default="1")
    ap.add_argument("--scale", default="1.0")
    ap.add_argument("--subs", default=None, help="restrict to sub-checks")
    a = ap.parse_args()
    prop = a.prop.upper()
    muts = json.load(open(os.path.join(VERIF, "mutations", prop + ".json")))
    if a.only:
        muts = [m for m in muts if m["name"] in a.only.split(",")]
    resfile = os.path.join(VERIF, "mutations", "results", prop + ".json")
    os.makedirs(os.path.dirname(resfile), exist_ok=True)
    results = json.load(open(resfile)) if os.path.exists(resfile) else {}
    for m in muts:
        scratch = tempfile.mkdtemp(prefix="pypde_mut_")
        try:
            shutil.copytree("/repo/pde", os.path.join(scratch, "pde"),
                            ignore=shutil.ignore_patterns("__pycache__"))
            path = os.path.join(scratch, m["file"])
            src = open(path).read()
            cnt = src.count(m["old"])
            if cnt != m.get("count", 1):
                print(f"[{m['name']}] pattern occurs {cnt}x, expected {m.get('count', 1)} - skipped")
                results[m["name"]] = {"status": "pattern-mismatch"}
                continue
            if m.get("count", 1) == 1 or m.get("all"):
                src = src.replace(m["old"], m["new"])
            open(path, "w").write(src)
            env = dict(os.environ, PYPDE_REPO=scratch, VERIF_SEED=a.seed)
            cmd = [os.path.join(VERIF, "run_check.py"), prop, "--tier", a.tier, "--scale", a.scale]
            if a.subs or m.get("subs"):
                cmd += ["--only", a.subs or m["subs"]]
            t0 = time.time()
            p = subprocess.run(cmd, cwd=VERIF, env=env, capture_output=True, text=True)
            wall = time.time() - t0
            vio = [l for l in p.stdout.splitlines() if l.startswith("VIOLATION")]
            det = [l.strip() for l in p.stdout.splitlines() if l.startswith("  sub-check=")]
            status = "caught" if p.returncode == 1 and vio else ("harness-error" if p.returncode == 2 else "MISSED")
            print(f"[{m['name']}] {status} rc={p.returncode} wall={wall:.0f}s :: " + (det[0][:300] if det else p.stdout[-300:] + p.stderr[-600:]))
            results[m["name"]] = {"status": status, "rc": p.returncode, "wall_s": round(wall, 1),
                                  "tier": a.tier, "seed": a.seed, "file": m["file"], "note": m.get("note", ""),
                                  "first_detail": det[0][:400] if det else ""}
        finally:
            shutil.rmtree(scratch, ignore_errors=True)
        json.dump(results, open(resfile, "w"), indent=1, sort_keys=True)


if __name__ == "__main__":
    main()
