#!/venv/bin/python
"""Confirm a seeded change produced by an independent sub-agent and run the checks on it.

    tools/ingest_seed.py <Cxx> <n> [--src /tmp/seedwork/<Cxx>/seed_out/<n>] [--skip-suite]
                         [--checks Cxx,Cyy] [--tier quick]

Steps (all in a scratch worktree of /repo outside /repo and /verif, removed afterwards):
  1. demo.py on the clean tree must exit 0
  2. `git apply patch.diff`; `import pde` must work; demo.py must exit non-zero
  3. the existing test suite must still pass with the change (no failures/errors)
  4. the registered quick check(s) run against the changed tree (PYPDE_REPO) - caught iff
     exit 1 with a VIOLATION line
The change is kept as /verif/seeded/<Cxx>-<n>/ (patch.diff, demo.py, meta.json) only if 1-3 hold.
"""
import argparse
import json
import os
import re
import shutil
import subprocess
import sys
import time

VERIF = os.path.dirname(os.path.dirname(os.path.abspath(__file__)))
PY = "/venv/bin/python"


def run(cmd, cwd, env=None, timeout=3600):
    e = dict(os.environ)
    e.update(env or {})
    p = subprocess.run(cmd, cwd=cwd, env=e, capture_output=True, text=True, timeout=timeout)
    return p.returncode, p.stdout + p.stderr


def main():
    ap = argparse.ArgumentParser()
    ap.add_argument("prop")
    ap.add_argument("n")
    ap.add_argument("--src", default=None)
    ap.add_argument("--skip-suite", action="store_true")
    ap.add_argument("--checks", default=None)
    ap.add_argument("--tier", default="quick")
    ap.add_argument("--procs", default="12")
    ap.add_argument("--recheck", action="store_true",
                    help="seed already confirmed: only re-run the checks and store the outcome under "
                         "meta['detection_after_strengthening']")
    a = ap.parse_args()
    prop = a.prop.upper()
    sid = f"{prop}-{a.n}"
    dest = os.path.join(VERIF, "seeded", sid)
    src = a.src or (dest if os.path.exists(os.path.join(dest, "patch.diff")) else f"/tmp/seedwork/{prop}/seed_out/{a.n}")
    wt = f"/tmp/seedconfirm_{sid}_{os.getpid()}"
    subprocess.check_call(["git", "-C", "/repo", "worktree", "add", "--detach", "-q", wt, "HEAD"])
    result = {"id": sid, "repo_commit": subprocess.check_output(["git", "-C", "/repo", "rev-parse", "--short", "HEAD"], text=True).strip()}
    try:
        for f in ("patch.diff", "demo.py", "meta.json"):
            shutil.copy(os.path.join(src, f), os.path.join(wt, "_seed_" + f))
        env = {"PYTHONPATH": wt, "NUMBA_NUM_THREADS": "2", "MPLBACKEND": "agg"}
        rc, out = run([PY, "_seed_demo.py"], wt, env, 1800)
        result["demo_clean_rc"] = rc
        if rc != 0:
            result["status"] = "rejected: demo fails on the clean tree"
            result["log"] = out[-1500:]
            return finish(result, dest, wt, None)
        rc, out = run(["git", "apply", "_seed_patch.diff"], wt)
        if rc != 0:
            result["status"] = "rejected: patch does not apply"
            result["log"] = out[-1500:]
            return finish(result, dest, wt, None)
        files = subprocess.check_output(["git", "diff", "--name-only"], cwd=wt, text=True).split()
        result["files"] = files
        if any(not f.startswith("pde/") for f in files):
            result["status"] = "rejected: patch touches files outside pde/"
            return finish(result, dest, wt, None)
        rc, out = run([PY, "-c", "import pde, os; assert os.path.abspath(pde.__file__).startswith(os.getcwd()); print('ok')"], wt, env)
        if rc != 0:
            result["status"] = "rejected: package does not import with the change"
            result["log"] = out[-1500:]
            return finish(result, dest, wt, None)
        rc, out = run([PY, "_seed_demo.py"], wt, env, 1800)
        result["demo_changed_rc"] = rc
        if rc == 0:
            result["status"] = "rejected: demo passes with the change"
            return finish(result, dest, wt, None)
        result["demo_changed_tail"] = out[-600:]
        if not a.skip_suite and not a.recheck:
            t0 = time.time()
            rc, out = run([PY, "-m", "pytest", "-q", "-p", "no:cacheprovider", "--timeout=900", "-n", "10",
                           "--continue-on-collection-errors", "tests"], wt, env, 7200)
            lines = [l for l in out.strip().splitlines() if re.search(r"\d+ (passed|failed|error)", l)]
            tail = lines[-1] if lines else (out.strip().splitlines()[-1] if out.strip() else "")
            result["suite"] = {"rc": rc, "summary": tail, "wall_s": round(time.time() - t0)}
            m_fail = re.search(r"(\d+) failed", tail)
            m_err = re.search(r"(\d+) error", tail)
            if rc != 0 or m_fail or m_err:
                result["status"] = "rejected: existing tests fail with the change"
                result["log"] = "\n".join(l for l in out.splitlines() if l.startswith("FAILED") or l.startswith("ERROR"))[:2000]
                return finish(result, dest, wt, None)
        # run checks
        checks = (a.checks.split(",") if a.checks else [prop])
        det = {}
        for c in checks:
            t0 = time.time()
            rc, out = run([PY, os.path.join(VERIF, "run_check.py"), c, "--tier", a.tier], VERIF,
                          {"PYPDE_REPO": wt, "VERIF_PROCS": a.procs, "VERIF_SEED": "1"}, 7200)
            vio = [l for l in out.splitlines() if l.startswith("VIOLATION")]
            d = [l.strip()[:400] for l in out.splitlines() if l.startswith("  sub-check=")]
            det[c] = {"rc": rc, "caught": rc == 1 and bool(vio), "violations": len(vio), "first": d[:2],
                      "wall_s": round(time.time() - t0)}
            # replays written for the changed tree are not kept
        result["checks"] = det
        result["status"] = "confirmed"
        if a.recheck:
            mp = os.path.join(dest, "meta.json")
            meta = json.load(open(mp))
            meta.setdefault("detection_after_strengthening", {}).update(
                {c: dict(v, verif_commit=subprocess.check_output(["git", "-C", VERIF, "rev-parse", "--short", "HEAD"], text=True).strip())
                 for c, v in det.items()})
            json.dump(meta, open(mp, "w"), indent=1)
            print(json.dumps(det, indent=1))
            return 0
        return finish(result, dest, wt, src)
    finally:
        subprocess.call(["git", "-C", "/repo", "worktree", "remove", "--force", wt])
        shutil.rmtree(wt, ignore_errors=True)


def finish(result, dest, wt, src):
    print(json.dumps(result, indent=1))
    if src is not None:
        os.makedirs(dest, exist_ok=True)
        for f in ("patch.diff", "demo.py"):
            if os.path.abspath(src) != os.path.abspath(dest):
                shutil.copy(os.path.join(src, f), os.path.join(dest, f))
        meta = json.load(open(os.path.join(src, "meta.json")))
        meta["confirmation"] = {k: v for k, v in result.items() if k != "checks"}
        meta["detection"] = result.get("checks", {})
        meta["what_was_run"] = ("tools/ingest_seed.py: demo.py on clean worktree (exit 0), git apply patch.diff, import pde, "
                                "demo.py (exit != 0), full pytest suite in the worktree with the change (no failures), "
                                "run_check.py <property> --tier quick with PYPDE_REPO=<worktree>")
        json.dump(meta, open(os.path.join(dest, "meta.json"), "w"), indent=1)
    else:
        rej = os.path.join(VERIF, "seeded", "_rejected.jsonl")
        os.makedirs(os.path.dirname(rej), exist_ok=True)
        with open(rej, "a") as fh:
            fh.write(json.dumps(result) + "\n")
    return 0


if __name__ == "__main__":
    sys.exit(main())
