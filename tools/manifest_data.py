"""Per-property manifest texts (source of MANIFEST.json, see gen_manifest.py)."""

NOTES = ("All checks are property-based searches (Hypothesis). Exit 0/1/2 = held / violation / harness error. "
         "KNOWN_FINDINGS.txt lists recorded genuine defects (finding:) and repaired ones (fixed:). "
         "VERIF_SEED seeds every shard; PYPDE_REPO selects the repository copy under test (default /repo).")

NOT_APPLICABLE = {}

CHECKS = {
    "C09": {
        "text": "Rule-based state machines over each deterministic interrupt type: initialize + non-decreasing query sequences aimed at exact hits, +-1 ulp, just-before and far-beyond times, judged after every call against reference models of the documented schedules (monotonicity, not-earlier, lattice membership, first-not-passed element, exhaustion). Exploration, not proof: held on all generated histories.",
        "ref": "DESIGN.md section 4, C09",
        "note": "Trusts the reference models written from the docstrings; fixed lists strictly increasing; parameters restricted to where the lattice is resolvable in double precision (dt >= 1e-9*|t|, geometric factor >= 1.001).",
        "technique": "stateful property-based testing against a reference model (Hypothesis RuleBasedStateMachine)",
    },
}
