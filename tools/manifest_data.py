"""Per-property manifest texts (source of MANIFEST.json, see gen_manifest.py)."""

NOTES = ("All checks are property-based searches (Hypothesis). Exit 0/1/2 = held / violation / harness error. "
         "KNOWN_FINDINGS.txt lists recorded genuine defects (finding:) and repaired ones (fixed:). "
         "VERIF_SEED seeds every shard; PYPDE_REPO selects the repository copy under test (default /repo).")

NOT_APPLICABLE = {}

CHECKS = {
    "C09": {
        "text": "Rule-based state machines over each deterministic interrupt type: initialize + non-decreasing query sequences aimed at exact hits, +-1 ulp, just-before and far-beyond times, judged after every call against reference models of the documented schedules (monotonicity, not-earlier, lattice membership, first-not-passed element, exhaustion). Exploration, not proof: held on all generated histories.",
        "ref": "DESIGN.md section 4, C09",
        "note": "Trusts the reference models written from the docstrings; fixed lists strictly increasing; parameters restricted to where the lattice is resolvable in double precision (dt >= 1e-9*|t|, geometric factor >= 1.001).",
        "technique": "stateful property-based testing against a reference model (Hypothesis RuleBasedStateMachine)",
    },
    "C02": {
        "text": "Generated (grid class 1-3 axes, rank 0-2, real/complex data, complete boundary-condition assignment rendered in every accepted format incl. aliases, named sides, wildcard, legacy lists, ready-made objects; constants, tensors, per-face arrays, coordinate expressions, time/state-dependent expression and callable conditions) and judged by the documented condition evaluated on ghost/valid cells from the semantic description (value, outward derivative, Robin, curvature, periodic/anti-periodic; normal-only conditions leave other components bit-identical; valid cells untouched); interpreted setter, compiled setter (interpreted-source breadth + real-JIT sample), get_boundary_values and format parsing round trip. Exploration: held on all generated cases.",
        "ref": "DESIGN.md section 4, C02",
        "note": "Trusts the independent reference semantics in vlib/gen_bcs.py; singular Robin conditions (|2+gamma*dx|<0.1) excluded; corners not judged; NUMBA_DISABLE_JIT breadth executes the same source as the compiled setter, real JIT only for a sample.",
        "technique": "property-based testing with a validity-predicate oracle computed from a semantic input description (Hypothesis)",
    },
}
