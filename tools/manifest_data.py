"""Per-property manifest texts (source of MANIFEST.json, see gen_manifest.py)."""

NOTES = ("All checks are property-based searches (Hypothesis). Exit 0/1/2 = held / violation / harness error. "
         "KNOWN_FINDINGS.txt lists recorded genuine defects (finding:) and repaired ones (fixed:). "
         "VERIF_SEED seeds every shard; PYPDE_REPO selects the repository copy under test (default /repo).")

NOT_APPLICABLE = {}

CHECKS = {
    "C09": {
        "text": "Rule-based state machines over each deterministic interrupt type: initialize + non-decreasing query sequences aimed at exact hits, +-1 ulp, just-before and far-beyond times, judged after every call against reference models of the documented schedules (monotonicity, not-earlier, lattice membership, first-not-passed element, exhaustion). Exploration, not proof: held on all generated histories.",
        "ref": "DESIGN.md section 4, C09",
        "note": "Trusts the reference models written from the docstrings; fixed lists strictly increasing; parameters restricted to where the lattice is resolvable in double precision (dt >= 1e-9*|t|, geometric factor >= 1.001).",
        "technique": "stateful property-based testing against a reference model (Hypothesis RuleBasedStateMachine)",
    },
    "C02": {
        "text": "Generated (grid class 1-3 axes, rank 0-2, real/complex data, complete boundary-condition assignment rendered in every accepted format incl. aliases, named sides, wildcard, legacy lists, ready-made objects; constants, tensors, per-face arrays, coordinate expressions, time/state-dependent expression and callable conditions) and judged by the documented condition evaluated on ghost/valid cells from the semantic description (value, outward derivative, Robin, curvature, periodic/anti-periodic; normal-only conditions leave other components bit-identical; valid cells untouched); interpreted setter, compiled setter (interpreted-source breadth + real-JIT sample), get_boundary_values and format parsing round trip. Exploration: held on all generated cases.",
        "ref": "DESIGN.md section 4, C02",
        "note": "Trusts the independent reference semantics in vlib/gen_bcs.py; singular Robin conditions (|2+gamma*dx|<0.1) excluded; corners not judged; NUMBA_DISABLE_JIT breadth executes the same source as the compiled setter, real JIT only for a sample.",
        "technique": "property-based testing with a validity-predicate oracle computed from a semantic input description (Hypothesis)",
    },
    "C03": {
        "text": "Differential search: for generated (grid, operator with options, boundary-condition assignment in any accepted format, real/complex data, time) the result of field.apply_operator is compared with grid.make_operator on the numba backend (with and without out, out identity), the scipy backend where registered, set_ghost_cells + make_operator_no_bc, compiled vs interpreted ghost-cell setter on the padded array, the sparse-matrix representation of the Laplacian of every grid class (M u + v), and parallel kernels under several thread counts vs serial kernels (parallel target option verified). Interpreted-source breadth plus real-JIT samples (overload bodies, prange). Exploration: held on all generated cases.",
        "ref": "DESIGN.md section 4, C03",
        "note": "Agreement is judged with a condition-aware tolerance 1e-12*max|u|*sum|w|; thread interleavings cannot be controlled (counts and repetitions sampled); normal_* conditions only with rank-reducing operators; matrix route for constant first/second-order conditions.",
        "technique": "differential property-based testing across implementation routes (Hypothesis)",
    },
    "C15": {
        "text": "Rule-based state machine over a population of field handles (fields, collections, component views, copies, slices, append results, arithmetic and operator results) against a shadow-memory reference model: after every operation each handle's padded array equals the model (ghost cells included), np.shares_memory of every pair equals the model's alias relation, data is a view of the padded array, operands are unchanged. Exploration: held on all generated histories.",
        "ref": "DESIGN.md section 4, C15",
        "note": "Trusts the shadow-memory model (aliasing asserted only where documented); stale collections (member re-linked elsewhere, a documented restriction) are retired instead of judged; values of interpolation/smoothing/operator results are adopted (only their memory relations are judged).",
        "technique": "stateful model-based property testing (Hypothesis RuleBasedStateMachine) with a shadow-memory model",
    },
    "C20": {
        "text": "Rule-based state machine over memory storages (all write modes and construction routes; start_writing/append/end_writing/clear/read/mutate/extract_field/extract_time_range/view_field/copy/apply, derived storages tracked too) against a list model of (time, data copy, template); after every rule every storage is read back in full and compared, documented rejections must raise and leave the state unchanged, reads are fresh objects. A second sub-check drives storages through short solves and compares with a parallel callback tracker. Exploration: held on all generated histories.",
        "ref": "DESIGN.md section 4, C20",
        "note": "Trusts the list model written from the documented write-mode semantics; extract_time_range/view_field are documented as possible views, independence is not asserted there; one dtype per history.",
        "technique": "stateful model-based property testing (Hypothesis RuleBasedStateMachine) against a list model",
    },
    "C12": {
        "text": "Generated grids of every class with widened bounds (1e-6..1e6, negative, 1 cell, holes, periodic flags) and points (centres, faces, corners, inside, far outside by up to 1e6 periods, batches) judged by identities with exact rational references: centres/dx, closed-form cell volumes and their sum, integrate(1[, axes]) and projections preserving integral/average, transform round trips cell/grid/cartesian, containment of generated points, normalize_point (periodic and reflect; idempotence in the quotient, moves by whole periods/reflections only), distance/difference_vector (symmetry, period-shift invariance, half-period bound per periodic Cartesian component incl. the cylinder axis, brute-force minimum over mirror images), coordinate-system mappings. Exploration: held on all generated cases.",
        "ref": "DESIGN.md section 4, C12",
        "note": "Tolerances are ulp-based relative to the magnitudes involved; points within 4 ulp*scale of a boundary are excluded from membership assertions; norms below 1e-150 are floored (underflow of hypot).",
        "technique": "property-based testing of geometric identities and invariants with exact rational reference arithmetic (Hypothesis)",
    },
    "C04": {
        "text": "Rule-based state machines over histories of requests (operators with boundary conditions on three routes, raw operators, ghost-cell setters, PDE rates / compiled right-hand sides / short solves with reused equation objects, expression evaluations; fields linked into collections, written and interpolated) drawn from a pool of configurations that coincide in some attributes, with a generator that derives each request from an earlier one by changing exactly one attribute. Oracle: after every step the same request, with the current contents of the fields involved, is evaluated in a pristine fork of a zygote process that imported the package and never evaluated anything; every history itself runs in its own pristine fork. Interpreted-source breadth plus a real-JIT sample. Exploration: held on all generated histories.",
        "ref": "DESIGN.md section 4, C04",
        "note": "Fresh interpreter = fork of a zygote that imported pde, the lazily imported third-party modules and created the (empty) backend singletons; global configuration is never changed inside a history; requests are deterministic.",
        "technique": "stateful property-based testing with a fresh-process differential oracle (Hypothesis RuleBasedStateMachine + fork server)",
    },
    "C05": {
        "text": "Generated grids of every class (anisotropic, with hole), zero-flux boundary assignments (periodic / derivative 0 / auto_periodic_neumann; arbitrary condition at r=0 of hole-free grids) and inputs (dense random and one-hot = every column of the operator matrix, real/complex): the volume-weighted sum of the Laplacian (and of the divergence with vanishing normal boundary component on Cartesian and conservative spherical grids) vanishes within a condition-aware bound, with cell volumes from the harness' own closed forms; simulations of diffusion, Cahn-Hilliard and divergence-form expression equations with every solver, both backends, step sizes 1e-5..1 (incl. unstable) keep the integral at every recorded step; the package's MaterialConservationTracker stays silent on bounded runs. Exploration: held on all generated cases.",
        "ref": "DESIGN.md section 4, C05",
        "note": "Spherical non-conservative stencils and polar/cylindrical divergence are outside the statement; runs are judged while the state is finite; ConvergenceError of implicit solvers counts as rejected.",
        "technique": "property-based testing of an algebraic invariant (Hypothesis), incl. one-hot extraction of operator columns",
    },
    "C06": {
        "text": "A harness-defined PDEBase subclass du/dt = a*u + b*p(t) (real/complex a, cubic p) is solved with every fixed-step solver on both backends (interpreted-source breadth + real-JIT sample) for generated dt, step counts, start times, states and tracker-cut segments and compared with textbook one-step maps (Euler, RK4, backward Euler, Crank-Nicolson, AB2 with documented start-up, RKF45 from Fehlberg's table as rationals) carrying a running round-off/conditioning bound; stage times via quadrature identities; adaptive runs: end time, error bound steps*tolerance*2, single-step accept/reject polynomials; numpy vs numba agreement; scipy against the exact solution. Exploration: held on all generated cases.",
        "ref": "DESIGN.md section 4, C06",
        "note": "Trusts the reference one-step maps (order conditions asserted) and mpmath exact solutions; implicit schemes judged when converged; non-autonomous adaptive Euler judged on end time only (stage-time quirk outside the statement).",
        "technique": "property-based testing against reference models of the numerical schemes (Hypothesis)",
    },
    "C13": {
        "text": "Generated SDEs (built-in classes and harness SDEBase subclasses with additive, multiplicative, per-component and per-field variances), states (scalar/vector/tensor/collections) on grids with non-uniform cell volumes, interpretations, step sizes, step counts and seeds are solved with euler, milstein and the semi-implicit solver on the numpy backend and compared with a reference recursion that uses a parallel numpy Generator (exactly one standard_normal draw of the state's shape per step, documented increment, drift and Milstein correction, cell volumes from the harness); draw accounting (next draw of eq.rng equals the reference's), seed reproducibility bit for bit, zero variance == deterministic run (numpy and numba). Exploration: held on all generated cases.",
        "ref": "DESIGN.md section 4, C13",
        "note": "Trusts the reference recursion written from the documentation; numba backend only for the zero-variance clause (its generator is documented to be numba's own); complex states and make_noise_realization are outside the statement.",
        "technique": "property-based testing against a reference model with a parallel random generator (Hypothesis)",
    },
    "C14": {
        "text": "Generated grids of every class with the full constructor-argument space (holes, numpy-typed radii/shapes/bounds/flags) go through 12 reconstruction routes (from_state dict/JSON, copy, copy.copy, deepcopy incl. containers, pickle) and are compared attribute by attribute (bounds incl. inner radius, shape, periodicity, axes, discretization, cell volumes, volume, ==); fields of all classes/ranks/dtypes/labels and collections through serialised attributes + data; FieldCollection.from_data with and without ghost cells on every grid type; storage field_attributes route. Exploration: held on all generated cases.",
        "ref": "DESIGN.md section 4, C14",
        "note": "Equality is the package's == plus an explicit attribute list; float bounds are compared exactly (the round trip is specified as lossless); float32 radii are not generated.",
        "technique": "round-trip property-based testing (Hypothesis)",
    },
    "C17": {
        "text": "Generated grids of every class and decompositions (any number of chunks per axis up to the number of cells, uneven and single-cell chunks, -1/int/short-list formats): tiling (edges, shapes, volumes, cell coordinates, periodicity of split axes), split/combine identity for arrays, fields of rank 0-2 and collections with and without ghost cells, neighbour relations against an independent model (symmetry, periodic wrap-around, id bookkeeping), and operator equivalence: the harness executes the ghost exchange serially through the package's own _MPIBC index sets and to_subgrid conditions, applies the raw operator per sub-grid and compares the combined result with the operator on the whole grid (interpreted-source breadth + real-JIT sample). Documented rejections are judged by 'documented error or proper tiling'. Exploration: held on all generated cases.",
        "ref": "DESIGN.md section 4, C17",
        "note": "Only serial methods with explicit node_id (no MPI available); face-uniform constant conditions in the operator clause (what to_subgrid documents); known finding C17:extract_boundary_conditions:anti-periodic-split-axis is excluded by construction and confirmed by a dedicated sub-check.",
        "technique": "property-based testing with an independent neighbour/tiling model and a differential whole-grid oracle (Hypothesis)",
    },
    "C18": {
        "text": "Generated grids of every class (hole/no hole, >= 2 cells per axis), boundary assignments per side (value, derivative, mixed, curvature, periodic; constants, per-face arrays, coordinate expressions) and right-hand sides (random; compatible by construction for pure Neumann/periodic problems; an incompatible family): whenever solve_poisson_equation / solve_laplace_equation return a field, feeding it back into the discrete Laplacian with the same conditions must reproduce the right-hand side (tolerance 10x the solver's acceptance plus a round-off term); an independent dense reference (own stencils + own ghost-cell semantics, SVD) classifies problems as regular/singular-compatible/incompatible, so that errors on well-conditioned regular problems and fields returned for incompatible problems are violations. Exploration: held on all generated cases.",
        "ref": "DESIGN.md section 4, C18",
        "note": "Real right-hand sides; Robin coefficients keep |2+gamma*dx| >= 0.1; RuntimeErrors on singular-but-compatible or ill-conditioned problems are counted, not judged; blind cases (tiny right-hand side vs the solver's absolute 1e-5 acceptance) never count as non-trivial.",
        "technique": "property-based testing with a residual oracle through an independent route and a dense reference classification (Hypothesis)",
    },
    "C07": {
        "text": "Generated fixed-step runs (five solvers, both backends as interpreted source + real-JIT sample; dt incl. awkward decimals; ranges of 0-200 steps built as N*dt, as decimal products or non-commensurate; 0-4 read-only trackers of several kinds with constant (real ratios incl. < 1 and x.5), fixed, logarithmic and geometric interrupts; autonomous linear/nonlinear and non-autonomous equations): metamorphic comparison with tracker=None (bit-identical for autonomous equations), step/time accounting with whole-step-ness decided in exact rational arithmetic on the generating integers, final state = steps applications of reference one-step maps, caller's initial state (data, ghost cells, dtype, label) untouched and not aliased. Exploration: held on all generated cases.",
        "ref": "DESIGN.md section 4, C07",
        "note": "Trusts the closed-form reference maps; ranges whose ratio is within 1e-9 of an integer without being constructed as one are judged by the any-range clause only; |t_start| <= 1e5*dt.",
        "technique": "metamorphic and reference-model property-based testing (Hypothesis) with exact rational schedule arithmetic",
    },
    "C08": {
        "text": "Generated runs as in C07 with recording trackers (call times, state copies, finalize calls) and injected stop events (StopIteration / FinishedSimulation at chosen occurrences, coincident trackers, stops at t_start/t_end, main loop vs final handling): per tracker strictly increasing genuine simulation times with the reference state, once-per-schedule clause for constant intervals >= dt within dt/2 (adaptive steppers: at the scheduled time), storage frame counts floor(T/D)+1 in rationals, stop handling (all due trackers served, run ends at that time with that state, stop reason, successful flag, every tracker finalised), adaptive steppers with distinct schedules. Exploration: held on all generated cases.",
        "ref": "DESIGN.md section 4, C08",
        "note": "'Due' follows the controller's own tolerances (dt/2 in the main loop, termination tolerance in the final handling); the once-per-schedule clause is judged for constant intervals >= dt only (as stated); one extra call may fall on the last step before t_end when the next scheduled time lies within dt/2 (documented half-step firing).",
        "technique": "property-based testing of history invariants with fault (stop) injection (Hypothesis)",
    },
    "C16": {
        "text": "Generated grids (1-3 axes, all classes, periodic mixes), fields of rank 0-2 (random, affine, constant; real/complex), points (centres, faces, corners, boundary strips, periodic seams and whole-period shifts, inside, clearly outside, batches), fill values and boundary conditions are interpolated and compared with an independent multilinear interpolant (own ghost-cell semantics with propagated uncertainty), plus the stated consequences (centre values, affine exactness, range, period-shift invariance, DomainError/fill outside, linear approach to the boundary value); interpolate_to_grid; insertion increases the integral by exactly the amount on every grid class (exact cell volumes), touches only the 2^d neighbours, compiled == interpreted (interpreted-source breadth + real-JIT samples). Exploration: held on all generated cases.",
        "ref": "DESIGN.md section 4, C16",
        "note": "Points within the position resolution eps*(|x|+|lo|)/dx of domain boundaries or strip/bulk switches are excluded; interpolation BCs without time dependence/normal/anti-periodic kinds; known finding C16:vector-to-cartesian:fill-value-rotated excluded by construction and confirmed by a dedicated sub-check.",
        "technique": "property-based testing against an independent reference interpolant plus consequence predicates (Hypothesis)",
    },
    "C19": {
        "text": "Generated points and curvilinear grids: bases of all coordinate systems are orthonormal, right-handed and equal to the normalised Jacobian columns (finite-difference Jacobian too); one component order per grid: by-name/by-index access returns the component the operators differentiate (single-component probes against continuum formulas), from_expression order, dot/outer products; conversion of vector fields to Cartesian grids is compared point-wise with an exact reference and must commute with divergence/gradient (threshold 0.15); uniform axial and radial fields. The cylindrical conversion call site is judged by a three-way comparison (correct / characterised wrong / other). Exploration: held on all generated cases.",
        "ref": "DESIGN.md section 4, C19",
        "note": "Known finding C19:cylindrical-vector-to-cartesian:order(r,phi,z) (pinned by an existing test) is reported as KNOWN-FINDING while it reproduces; any other deviation at that call site is a violation; conversion fill values restricted to nan/0.",
        "technique": "property-based testing with textbook references and metamorphic single-component probes (Hypothesis)",
    },
    "C01": {
        "text": "Two deciding searches. (a) Stencil equivalence: for generated grids of every class (hole/no hole, periodic, anisotropic), every registered operator with its documented options and the d_d<ax>/d2_d<ax>2 patterns, on the numba backend (real JIT + interpreted-source pass) and the scipy backend, the raw operator applied to padded inputs (dense random, one-hot incl. ghost and corner cells, integer; real/complex) equals NumPy reference stencils written from the coordinate-form formulas, component by component, within eps*sum|w||u|*(64+16 kappa). (b) Convergence to the continuum operator: rotation-invariant smooth test fields are defined in the Cartesian embedding, sampled exactly (ghost cells too), and the continuum value is obtained by 6th-order finite differences of the embedded callable and projection on the harness' own bases; observed orders over N, 2N, 4N (refined further before a violation is declared) must reach 1.7 (central) / 0.8 (one-sided; cylindrical vector Laplacian near the axis) in the stated regions. Exploration: held on all generated cases.",
        "ref": "DESIGN.md section 4, C01 (oracle of part (b) as described in section 10)",
        "note": "Two known findings (spherical conservative tensor_divergence / tensor_double_divergence in the cells adjoining the origin) are judged against their characterised behaviour and reported as KNOWN-FINDING while they reproduce; consistency is judged by observed orders on three or more resolutions (a consistent stencil with a large constant passes); spectral and 9-point Laplacians are not exercised.",
        "technique": "property-based testing against reference stencils (exact) and a Cartesian-embedding continuum oracle (convergence orders) (Hypothesis)",
    },
    "C10": {
        "text": "For generated (equation class of the 8 predefined ones or expression PDE with 1-3 fields, operators, explicit t, coordinates, scalar/field constants, bc and per-operator bc_ops; parameters incl. 0, +-1 and 6-digit values; grid; independent boundary assignments per BC argument incl. time-dependent ones; state; time): evolution_rate, make_pde_rhs on the numba backend (interpreted-source breadth + real-JIT sample) and numpy backend, a generic PDE built from the class's own expression text (judged against the documented equation with the factors exactly as %g prints them, under the stated comparability restrictions), and an independent evaluation of the generating terms through the field API must agree. Exploration: held on all generated cases.",
        "ref": "DESIGN.md section 4, C10",
        "note": "Route C (advertised expression) is compared only where the expression PDE can state the same problem (nested Laplacians only with linear-homogeneous conditions); noise excluded; real states; vector fields on Cartesian grids.",
        "technique": "differential property-based testing across rate implementations plus an independent term-by-term evaluation (Hypothesis)",
    },
    "C11": {
        "text": "Random expression trees over the frozen supported grammar (arithmetic, integer/real powers, elementary and special functions, heaviside/comparisons, Mod, constants, user functions, indexed variables, aliases) with domain guards so that the formula is well-conditioned by construction, rendered to text in several syntactic shapes and evaluated by an independent NumPy tree evaluator; compared elementwise (64 eps x forward error bound) with ScalarExpression call, numpy and numba functions (real JIT + interpreted-source pass), single_arg, TensorExpression, fields from expressions on all grid classes, evaluate(), parse_number; symbolic derivatives against forward-mode derivatives of the tree. Exploration: held on all generated cases.",
        "ref": "DESIGN.md section 4, C11",
        "note": "Only the grammar both routes accept (erf numpy-only); derivatives only for differentiable trees of depth <= 3; sympy.simplify time-outs (> 6 s) are skipped; real float64 arguments. Failures that sympy alone reproduces without repository code (same exception from parse_expr/simplify/lambdify, free dummy symbol) are counted as rejected; a value change by sympy.simplify alone is the listed known finding (KNOWN_FINDINGS.txt).",
        "technique": "grammar-based property-based testing against an independent evaluator (Hypothesis)",
    },
}
