#!/bin/bash
# ingest seeds as they appear under /tmp/seedwork/<Cxx>/seed_out/<n>/meta.json (several instances may run)
mkdir -p /tmp/ingest_logs/locks
while true; do
  did=0
  for m in /tmp/seedwork/C*/seed_out/*/meta.json /tmp/seedwork2/C*/seed_out/*/meta.json /tmp/seedwork3/C*/seed_out/*/meta.json /tmp/seedwork4/C*/seed_out/*/meta.json; do
    [ -f "$m" ] || continue
    d=$(dirname "$m"); n=$(basename "$d"); p=$(basename $(dirname $(dirname "$d")))
    [ -f "$d/patch.diff" ] && [ -f "$d/demo.py" ] || continue
    log=/tmp/ingest_logs/$p-$n.log
    [ -f "$log" ] && continue
    grep -q "\"$p\"" /verif/tools/manifest_data.py || continue
    mkdir /tmp/ingest_logs/locks/$p-$n 2>/dev/null || continue
    echo "$(date +%H:%M) ingesting $p-$n" >> /tmp/ingest_logs/daemon.log
    /verif/tools/ingest_seed.py $p $n --src "$d" --procs 8 > "$log.tmp" 2>&1
    mv "$log.tmp" "$log"
    did=1
  done
  [ -f /tmp/ingest_logs/STOP ] && exit 0
  [ $did = 0 ] && sleep 60
done
