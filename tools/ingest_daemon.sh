#!/bin/bash
# ingest seeds one at a time as they appear under /tmp/seedwork/<Cxx>/seed_out/<n>/meta.json
mkdir -p /tmp/ingest_logs
while true; do
  did=0
  for m in /tmp/seedwork/C*/seed_out/*/meta.json; do
    [ -f "$m" ] || continue
    d=$(dirname "$m"); n=$(basename "$d"); p=$(basename $(dirname $(dirname "$d")))
    [ -f "$d/patch.diff" ] && [ -f "$d/demo.py" ] || continue
    log=/tmp/ingest_logs/$p-$n.log
    [ -f "$log" ] && continue
    # only registered checks can be evaluated
    grep -q "\"$p\"" /verif/tools/manifest_data.py || continue
    echo "ingesting $p-$n" >> /tmp/ingest_logs/daemon.log
    /verif/tools/ingest_seed.py $p $n > "$log" 2>&1
    did=1
  done
  [ -f /tmp/ingest_logs/STOP ] && exit 0
  [ $did = 0 ] && sleep 60
done
