#!/venv/bin/python
"""Generate MANIFEST.json from tools/manifest_data.py (keeps the file schema-valid)."""
import json
import os
import sys

VERIF = os.path.dirname(os.path.dirname(os.path.abspath(__file__)))
sys.path.insert(0, os.path.join(VERIF, "tools"))
import manifest_data as md  # noqa: E402

props = [json.loads(l)["id"] for l in open(os.path.join(VERIF, "properties.jsonl"))]
checks = []
for pid in props:
    if pid not in md.CHECKS:
        continue
    c = md.CHECKS[pid]
    checks.append({
        "property_id": pid,
        "quick_cmd": f"/venv/bin/python run_check.py {pid} --tier quick",
        "thorough_cmd": f"/venv/bin/python run_check.py {pid} --tier thorough",
        "evidence_file": f"/verif/evidence/{pid}.json",
        "replay_cmd_template": f"/venv/bin/python run_check.py {pid} --replay {{path}}",
        "engine": "hypothesis-pbt",
        "level_claimed": {"category": "exploration", "text": c["text"], "design_ref": c["ref"]},
        "level_note": c["note"],
        "technique": c["technique"],
    })
manifest = {
    "version": 1,
    "setup_cmd": "/venv/bin/python tools/setup.py",
    "hooks": {
        "guard": "PYPDE_VERIF",
        "enable": "checks export PYPDE_VERIF=1 to their workers; no hook commits exist (all observation points are public API / plain attributes)",
        "baseline_off_cmd": "cd /repo && /venv/bin/python -m pytest -ra -q -p no:cacheprovider --timeout=900 --continue-on-collection-errors",
        "source_commits": [],
        "add_only": True,
    },
    "engines": [{
        "name": "hypothesis-pbt",
        "path": "/verif/run_check.py",
        "serves_properties": [c["property_id"] for c in checks],
        "kind_free_text": "Hypothesis 6.168 strategies and rule-based state machines driving check_case(case) oracles (reference models, round trips, differential and metamorphic relations); sharded over 16 worker processes; shrunk JSON cases are the replay files",
    }],
    "checks": checks,
    "notes": md.NOTES,
    "not_applicable": [{"property_id": p, "reason": md.NOT_APPLICABLE.get(p, "check not built yet (work in progress); to be claimed once its sub-checks are implemented and calibrated")} for p in props if p not in md.CHECKS],
}
json.dump(manifest, open(os.path.join(VERIF, "MANIFEST.json"), "w"), indent=1)
try:
    import jsonschema
    jsonschema.validate(manifest, json.load(open("/root/.vp/MANIFEST.schema.json")))
    print("MANIFEST.json valid;", len(checks), "checks claimed")
except ImportError:
    print("MANIFEST.json written (jsonschema not available for validation)")
