#!/bin/bash
# usage: tools/with_seed.sh <seed-id e.g. C09-2> <command...>   (runs the command with PYPDE_REPO = scratch copy + patch)
set -e
ID=$1; shift
D=$(mktemp -d /tmp/pypde_seed_XXXX)
trap "rm -rf $D" EXIT
cp -r /repo/pde $D/pde
(cd $D && patch -s -p1 < /verif/seeded/$ID/patch.diff)
PYPDE_REPO=$D "$@"
