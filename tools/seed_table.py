#!/usr/bin/env python3
"""Summarise /verif/seeded/*/meta.json as a markdown table (seeded/RESULTS.md)."""
import glob, json, os
VERIF = os.path.dirname(os.path.dirname(os.path.abspath(__file__)))
rows = []
for m in sorted(glob.glob(os.path.join(VERIF, "seeded", "C*", "meta.json"))):
    d = json.load(open(m))
    sid = os.path.basename(os.path.dirname(m))
    det = d.get("detection", {})
    first = "; ".join(f"{c}: {'caught' if v.get('caught') else 'MISSED'}" for c, v in det.items())
    later = d.get("after_strengthening", "")
    das = d.get("detection_after_strengthening", {})
    if das:
        later = "; ".join(f"{c}: {'caught' if v.get('caught') else 'MISSED'} (re-run at /verif {v.get('verif_commit')})" for c, v in das.items()) + " - " + later
    rows.append((sid, d.get("title", d.get("what_it_breaks", ""))[:90].replace("|", "/"), d.get("needs_to_manifest", "")[:140].replace("|", "/").replace("\n", " "), first, later))
out = ["# Independently seeded changes and their detection", "",
       "Each change was produced by a sub-agent that saw only the property text and a scratch worktree, and was confirmed with tools/ingest_seed.py (demo passes on the clean tree and fails with the change, package imports, full existing suite passes with the change).",
       "", "| seed | change | needs to manifest | quick check at ingestion | after strengthening |", "|---|---|---|---|---|"]
for r in rows:
    out.append("| " + " | ".join(r) + " |")
open(os.path.join(VERIF, "seeded", "RESULTS.md"), "w").write("\n".join(out) + "\n")
print("\n".join(out))
