#!/bin/bash
# usage: seed_agent_setup.sh <Cxx>  -> creates worktree /tmp/seedwork/<Cxx> and prints the agent prompt
set -e
P=$1
D=/tmp/seedwork/$P
git -C /repo worktree add --detach -q "$D" HEAD
python3 - "$P" "$D" <<'PY'
import json, sys
pid, d = sys.argv[1], sys.argv[2]
for l in open('/verif/properties.jsonl'):
    p = json.loads(l)
    if p['id'] == pid:
        txt = open('/tmp/seed_prompt.txt').read()
        txt += f"YOUR WORKTREE: {d}\n\nPROPERTY {p['id']} - {p['title']}\nStatement: {p['statement']}\nQuantified over: {p['quantifier']['text']}\nRelevant source files: {', '.join(p['anchors']['files'])}\n"
        open(f'/tmp/seedwork/prompt_{pid}.txt','w').write(txt)
PY
echo "/tmp/seedwork/prompt_$P.txt"
