"""Boundary-condition generator (semantic spec + rendering) and reference semantics.

A *semantic* BC assignment is plain data::

    {"rank": r,
     "axes": ["periodic" | "anti-periodic" | {"low": side, "high": side}, ...],
     "style": <rendering style>, "alt": bool}
    side = {"kind": "value"|"derivative"|"mixed"|"curvature"|
                    "value_expression"|"derivative_expression"|"mixed_expression",
            "normal": bool,            # normal_* variant (rank >= 1)
            "alias": int, "typed": bool,  # rendering details
            "v": vspec, "c": vspec,    # parameters (c only for mixed kinds)
            "func": bool}              # expression kinds given as python callables
    vspec = {"t": "num", "x": number} | {"t": "tensor", "seed": int}
          | {"t": "field", "seed": int}          # tensor x boundary array
          | {"t": "cexpr", "coef": {...}}        # const-BC string of the boundary coordinates
          | {"t": "expr", "coef": {...}}         # expression-BC string/callable of value, coords, t

The oracle side (``face_parameters``, ``expected_ghost``, ``face_residual``) works from this
description only and shares no code with py-pde.
"""

from __future__ import annotations

import math
import warnings

import numpy as np
from hypothesis import strategies as st

from . import env

env.setup()

from .gen_grids import axes_bounds, dim_of, rng_array  # noqa: E402

CONST_KINDS = ("value", "derivative", "mixed", "curvature")
EXPR_KINDS = ("value_expression", "derivative_expression", "mixed_expression")

ALIASES = {
    "value": ["value", "dirichlet"],
    "derivative": ["derivative", "neumann"],
    "mixed": ["mixed", "robin"],
    "curvature": ["curvature", "second_derivative", "extrapolate"],
    "normal_value": ["normal_value", "normal_dirichlet", "dirichlet_normal"],
    "normal_derivative": ["normal_derivative", "normal_neumann", "neumann_normal"],
    "normal_mixed": ["normal_mixed", "normal_robin"],
    "normal_curvature": ["normal_curvature"],
    "value_expression": ["value_expression", "value_expr"],
    "derivative_expression": ["derivative_expression", "derivative_expr"],
    "mixed_expression": ["mixed_expression", "mixed_expr", "robin_expression", "robin_expr"],
}


def axis_names(gspec):
    cls = gspec["cls"]
    if cls in ("unit", "cart"):
        return list("xyz")[: len(gspec["shape"])]
    if cls in ("polar", "sph"):
        return ["r"]
    return ["r", "z"]


def side_names(gspec):
    """named boundaries: list per axis of (low name, high name)"""
    cls = gspec["cls"]
    if cls in ("unit", "cart"):
        return [("left", "right"), ("bottom", "top"), ("back", "front")][: len(gspec["shape"])]
    if cls in ("polar", "sph"):
        return [("inner", "outer")]
    return [("inner", "outer"), ("bottom", "top")]


def alt_axis_names(gspec):
    """alternative names accepted for axes (taken from the coordinate systems' tables)"""
    if gspec["cls"] in ("polar", "sph"):
        return {"r": "radius"}
    return {}


# -----------------------------------------------------------------------------------
# strategies
# -----------------------------------------------------------------------------------
def _number(dtype):
    base = st.one_of(st.sampled_from([0.0, 1.0, -1.0, 2.0, 0.5, -3.0]),
                     st.floats(-10, 10), st.floats(-1e3, 1e3))
    if dtype == "c16":
        return st.one_of(base, st.builds(complex, st.floats(-5, 5), st.floats(-5, 5)))
    return base


def _coef(names, with_state):
    """coefficients of the expression template"""
    # short dyadic coefficients: exactly representable, print with few digits (sympy.simplify
    # on 17-digit floats costs seconds per expression)
    c = st.one_of(st.just(0.0), st.integers(-24, 24).map(lambda k: k / 8))
    zero = st.just(0.0)
    d = {"c0": st.integers(-24, 24).map(lambda k: k / 8),
         "lin": st.lists(c, min_size=len(names), max_size=len(names)),
         "sin": st.lists(st.one_of(zero, zero, c), min_size=len(names), max_size=len(names)),
         "sq": st.lists(st.one_of(zero, c), min_size=len(names), max_size=len(names))}
    if with_state:
        d["t"] = c
        d["value"] = st.one_of(zero, st.integers(-7, 7).map(lambda k: k / 8))
    return st.fixed_dictionaries(d)


@st.composite
def _vspec(draw, gspec, rank, normal, dtype, shapes):
    """value spec for a constant BC; ``shapes`` = allowed kinds"""
    t = draw(st.sampled_from(shapes))
    if t == "num":
        return {"t": "num", "x": draw(_number(dtype))}
    if t in ("tensor", "field"):
        return {"t": t, "seed": draw(st.integers(0, 2**31))}
    if t == "cexpr":
        return {"t": "cexpr", "coef": draw(_coef(axis_names(gspec), False))}
    raise ValueError(t)


@st.composite
def _side(draw, gspec, axis, rank, dtype, kinds, allow_normal, allow_expr, replicated,
          n_cells):
    opts = list(kinds)
    if n_cells < 2 and "curvature" in opts:
        opts.remove("curvature")  # needs two cells (documented requirement)
    if allow_expr and rank == 0:
        opts = opts + [k for k in EXPR_KINDS]
    kind = draw(st.sampled_from(opts))
    if kind in EXPR_KINDS:
        names = axis_names(gspec)
        side = {"kind": kind, "normal": False, "alias": draw(st.integers(0, 3)),
                "typed": draw(st.booleans()), "func": draw(st.booleans()),
                "v": {"t": "expr", "coef": draw(_coef(names, True))}}
        if kind == "mixed_expression":
            side["typed"] = True
            side["c"] = {"t": "expr", "coef": draw(_coef(names, True))}
            # keep the Robin denominator 2 + gamma*dx away from zero: gamma >= 0 template
            cf = side["v"]["coef"]
            cf["value"] = 0.0
            cf["t"] = abs(cf["t"])
            cf["lin"] = [0.0] * len(names)
            cf["sin"] = [0.0] * len(names)
            cf["sq"] = [abs(x) for x in cf["sq"]]
            cf["c0"] = abs(cf["c0"])
        return side
    normal = bool(rank >= 1 and allow_normal and draw(st.booleans()))
    vrank = rank - 1 if normal else rank
    # value shapes the parser accepts: scalar, tensor, tensor x face array
    shapes = ["num", "num"]
    if vrank >= 1:
        shapes.append("tensor")
    if not replicated or len(gspec["shape"]) == 1:
        shapes.append("field")
    if vrank == 0 and dtype == "f8":
        shapes.append("cexpr")
    side = {"kind": kind, "normal": normal, "alias": draw(st.integers(0, 2)),
            "typed": draw(st.booleans())}
    side["v"] = draw(_vspec(gspec, rank, normal, dtype, shapes))
    if kind == "mixed":
        side["typed"] = True
        # both Robin parameters from the same shape class
        if side["v"]["t"] in ("num", "tensor"):
            cshapes = ["num"] + (["tensor"] if vrank >= 1 else [])
        elif side["v"]["t"] == "field":
            cshapes = ["field"]
        else:
            cshapes = ["num"]
            side["v"] = {"t": "num", "x": draw(_number("f8"))}
        side["c"] = draw(_vspec(gspec, rank, normal, dtype, cshapes))
    return side


# "objects_sides": condition OBJECTS as the values of a dictionary of sides (the package copies such
# instances); "objects_copied": a copy of an explicitly built BoundariesList - both after missed seed C02-7
# (MixedBC.copy lost the Robin constant)
STYLES = ("sides", "axis", "wildcard", "named", "single", "auto_neumann", "auto_dirichlet",
          "objects", "legacy_list", "legacy_lowhigh", "mixed_keys", "objects_sides", "objects_copied")


@st.composite
def bc_assignments(draw, gspec, rank=0, dtype="f8", kinds=CONST_KINDS, allow_normal=True,
                   allow_expr=True, styles=STYLES, allow_antiperiodic=True):
    """Semantic BC assignment for the grid spec."""
    nax = len(gspec["shape"])
    per = [bool(p) for p in gspec["periodic"]]
    style = draw(st.sampled_from(list(styles)))
    if style == "single" and any(per):
        style = "axis"
    kw = {"rank": rank, "dtype": dtype, "kinds": kinds, "allow_normal": allow_normal,
          "allow_expr": allow_expr}
    axes = []
    if style in ("auto_neumann", "auto_dirichlet"):
        kind = "derivative" if style == "auto_neumann" else "value"
        for a in range(nax):
            if per[a]:
                axes.append("periodic")
            else:
                s = {"kind": kind, "normal": False, "alias": 0, "typed": False,
                     "v": {"t": "num", "x": 0.0}}
                axes.append({"low": dict(s), "high": dict(s)})
    elif style == "single":
        n_min = min(gspec["shape"])
        s = draw(_side(gspec, 0, replicated=True, n_cells=n_min, **kw))
        if s["normal"] or s["v"]["t"] in ("field", "expr") and nax > 1 and False:
            pass
        axes = [{"low": dict(s), "high": dict(s)} for _ in range(nax)]
    else:
        for a in range(nax):
            if per[a]:
                axes.append(draw(st.sampled_from(
                    ["periodic", "periodic", "anti-periodic"] if allow_antiperiodic else ["periodic"])))
                continue
            n = gspec["shape"][a]
            if style == "axis":
                s = draw(_side(gspec, a, replicated=False, n_cells=n, **kw))
                axes.append({"low": dict(s), "high": dict(s)})
            else:
                axes.append({"low": draw(_side(gspec, a, replicated=False, n_cells=n, **kw)),
                             "high": draw(_side(gspec, a, replicated=False, n_cells=n, **kw))})
    return {"rank": rank, "axes": axes, "style": style, "alt": draw(st.booleans())}


# -----------------------------------------------------------------------------------
# evaluation of parameters (oracle side)
# -----------------------------------------------------------------------------------
def boundary_coords(gspec, axis, upper):
    """dict name -> array of the boundary-point coordinates (shape = boundary shape)"""
    bnds = axes_bounds(gspec)
    names = axis_names(gspec)
    coords = []
    for a, (lo, hi) in enumerate(bnds):
        n = gspec["shape"][a]
        if a == axis:
            coords.append(np.array([hi if upper else lo]))
        else:
            dx = (hi - lo) / n
            coords.append(lo + (np.arange(n) + 0.5) * dx)
    mesh = np.meshgrid(*coords, indexing="ij")
    shp = tuple(gspec["shape"][a] for a in range(len(names)) if a != axis)
    return {nm: m.reshape(shp) for nm, m in zip(names, mesh)}


def eval_template(coef, coords, names, value=None, t=None):
    res = coef["c0"]
    for nm, a, b, c in zip(names, coef["lin"], coef["sin"], coef["sq"]):
        x = coords[nm]
        res = res + a * x + b * np.sin(x) + c * x * x
    if "t" in coef and t is not None:
        res = res + coef["t"] * t
    if "value" in coef and value is not None:
        res = res + coef["value"] * value
    return res


def _fmt(x):
    return f"({float(x)!r})"


def template_text(coef, names, alt=None):
    alt = alt or {}
    parts = [_fmt(coef["c0"])]
    for nm, a, b, c in zip(names, coef["lin"], coef["sin"], coef["sq"]):
        nm = alt.get(nm, nm)
        if a:
            parts.append(f"{_fmt(a)}*{nm}")
        if b:
            parts.append(f"{_fmt(b)}*sin({nm})")
        if c:
            parts.append(f"{_fmt(c)}*{nm}**2")
    if coef.get("t"):
        parts.append(f"{_fmt(coef['t'])}*t")
    if coef.get("value"):
        parts.append(f"{_fmt(coef['value'])}*value")
    return " + ".join(parts)


def template_func(coef, names):
    """python callable with the signature (value, dx, *coords, t) of expression BCs.

    Only scalar closure variables are used so that numba can compile the function (a
    callable that numba cannot compile makes the package fall back to an object-mode call
    typed as double, which is outside the property's statement)."""
    c0 = float(coef["c0"])
    ct, cv = float(coef.get("t", 0.0)), float(coef.get("value", 0.0))
    n = len(names)
    l0, s0, q0 = float(coef["lin"][0]), float(coef["sin"][0]), float(coef["sq"][0])
    if n == 1:
        def f(value, dx, x, t):
            return c0 + l0 * x + s0 * np.sin(x) + q0 * x * x + ct * t + cv * value
        return f
    l1, s1, q1 = float(coef["lin"][1]), float(coef["sin"][1]), float(coef["sq"][1])
    if n == 2:
        def f(value, dx, x, y, t):
            return (c0 + l0 * x + s0 * np.sin(x) + q0 * x * x
                    + l1 * y + s1 * np.sin(y) + q1 * y * y + ct * t + cv * value)
        return f
    l2, s2, q2 = float(coef["lin"][2]), float(coef["sin"][2]), float(coef["sq"][2])

    def f(value, dx, x, y, z, t):
        return (c0 + l0 * x + s0 * np.sin(x) + q0 * x * x
                + l1 * y + s1 * np.sin(y) + q1 * y * y
                + l2 * z + s2 * np.sin(z) + q2 * z * z + ct * t + cv * value)
    return f


def tensor_shape(gspec, rank, normal):
    d = dim_of(gspec)
    return (d,) * (rank - 1 if normal else rank)


def boundary_shape(gspec, axis):
    return tuple(n for a, n in enumerate(gspec["shape"]) if a != axis)


def materialize(vspec, gspec, axis, upper, rank, normal, dtype, value=None, t=0.0):
    """numeric parameter (broadcastable to tensor_shape + boundary_shape)"""
    ts, bs = tensor_shape(gspec, rank, normal), boundary_shape(gspec, axis)
    k = vspec["t"]
    if k == "num":
        x = vspec["x"]
        if isinstance(x, dict):
            x = complex(x["re"], x["im"])
        return np.asarray(x)
    if k == "tensor":
        return rng_array(vspec["seed"], ts, dtype, "uniform", 3.0).reshape(ts + (1,) * len(bs))
    if k == "field":
        return rng_array(vspec["seed"], ts + bs, dtype, "uniform", 3.0)
    coords = boundary_coords(gspec, axis, upper)
    if k == "cexpr":
        return eval_template(vspec["coef"], coords, axis_names(gspec)) + np.zeros(bs)
    if k == "expr":
        return eval_template(vspec["coef"], coords, axis_names(gspec), value=value, t=t) + np.zeros(bs)
    raise ValueError(k)


def render_value(vspec, gspec, axis, upper, rank, normal, dtype, alt=False, func=False):
    """the python object handed to py-pde for this parameter"""
    k = vspec["t"]
    if k == "num":
        x = vspec["x"]
        return complex(x["re"], x["im"]) if isinstance(x, dict) else x
    if k == "tensor":
        return rng_array(vspec["seed"], tensor_shape(gspec, rank, normal), dtype, "uniform", 3.0)
    if k == "field":
        return materialize(vspec, gspec, axis, upper, rank, normal, dtype)
    names = axis_names(gspec)
    if k == "expr" and func:
        return template_func(vspec["coef"], names)
    return template_text(vspec["coef"], names, alt_axis_names(gspec) if alt else None)


# -----------------------------------------------------------------------------------
# rendering of an assignment in one of the accepted formats
# -----------------------------------------------------------------------------------
def render_side(side, gspec, axis, upper, rank, dtype, alt=False):
    kind = side["kind"]
    base = ("normal_" + kind) if side["normal"] else kind
    names = ALIASES[base]
    name = names[side["alias"] % len(names)]
    kw = {"gspec": gspec, "axis": axis, "upper": upper, "rank": rank, "normal": side["normal"],
          "dtype": dtype, "alt": alt, "func": side.get("func", False)}
    v = render_value(side["v"], **kw)
    if kind in ("mixed", "mixed_expression"):
        return {"type": name, "value": v, "const": render_value(side["c"], **kw)}
    if side["typed"]:
        return {"type": name, "value": v}
    return {name: v}


def side_object(side, grid, gspec, axis, upper, rank, dtype, alt=False):
    """explicit BCBase object for the side (reference for the parsing round trip)"""
    from pde.grids.boundaries.local import BCBase

    d = render_side(dict(side, alias=0, typed=True), gspec, axis, upper, rank, dtype, alt)
    cond = d.pop("type")
    return BCBase.from_str(grid, axis, upper, condition=cond, rank=rank, **d)


def explicit_boundaries(bc, grid, gspec, dtype="f8"):
    """BoundariesList built from explicit per-side objects (no format parsing)."""
    from pde.grids.boundaries.axes import BoundariesList
    from pde.grids.boundaries.axis import BoundaryPair, BoundaryPeriodic

    rank = bc["rank"]
    axes = []
    for a, ax in enumerate(bc["axes"]):
        if isinstance(ax, str):
            axes.append(BoundaryPeriodic(grid, a, rank=rank, flip_sign=(ax == "anti-periodic")))
        else:
            lo = side_object(ax["low"], grid, gspec, a, False, rank, dtype, bc["alt"])
            hi = side_object(ax["high"], grid, gspec, a, True, rank, dtype, bc["alt"])
            axes.append(BoundaryPair(lo, hi))
    return BoundariesList(axes)


def render_bc(bc, gspec, grid=None, dtype="f8"):
    """Render the assignment in its style.  Returns (object for py-pde, style actually used)."""
    rank, style, alt = bc["rank"], bc["style"], bc["alt"]
    names = axis_names(gspec)
    alts = alt_axis_names(gspec) if alt else {}

    def rs(a, upper):
        ax = bc["axes"][a]
        return render_side(ax["high" if upper else "low"], gspec, a, upper, rank, dtype, alt)

    if style == "auto_neumann":
        return "auto_periodic_neumann", style
    if style == "auto_dirichlet":
        return "auto_periodic_dirichlet", style
    if style == "single":
        s = bc["axes"][0]["low"]
        if s["v"]["t"] == "num" and s["v"]["x"] == 0 and s["kind"] in CONST_KINDS \
                and s["kind"] != "mixed" and s["alias"] == 2:
            nm = ALIASES[("normal_" + s["kind"]) if s["normal"] else s["kind"]]
            return nm[0], "single_str"  # bare string: condition with value 0
        return rs(0, False), style
    if style in ("objects_sides", "objects_copied"):
        if grid is None:
            raise ValueError("need grid")
        # (every kind: copies of value/derivative expression conditions raised a TypeError before fix 554bd30)
        bl = explicit_boundaries(bc, grid, gspec, dtype)
        if style == "objects_copied":
            return bl.copy(), style
        res = {}
        for a, ax in enumerate(bc["axes"]):
            if isinstance(ax, str):
                res[names[a]] = ax
            else:
                res[names[a] + "-"] = bl[a].low
                res[names[a] + "+"] = bl[a].high
        return res, style
    if style == "objects":
        if grid is None:
            raise ValueError("need grid")
        return explicit_boundaries(bc, grid, gspec, dtype), style
    if style in ("legacy_list", "legacy_lowhigh"):
        out = []
        for a, ax in enumerate(bc["axes"]):
            if isinstance(ax, str):
                out.append(ax)
            elif style == "legacy_list":
                out.append([rs(a, False), rs(a, True)])
            else:
                out.append({"low": rs(a, False), "high": rs(a, True)})
        return out, style
    res = {}
    if style == "wildcard":
        # most frequent non-periodic low side becomes the default; only usable when it does
        # not carry face arrays (shape depends on the axis)
        default = None
        for a, ax in enumerate(bc["axes"]):
            if not isinstance(ax, str) and ax["low"]["v"]["t"] != "field" and \
                    ax["low"].get("c", {"t": "num"})["t"] != "field":
                default = (a, ax["low"])
                break
        if default is not None:
            a0, s0 = default
            res["*"] = render_side(s0, gspec, a0, False, rank, dtype, alt)
        for a, ax in enumerate(bc["axes"]):
            nm = alts.get(names[a], names[a])
            if isinstance(ax, str):
                res[nm] = ax
                continue
            for upper, key in ((False, "low"), (True, "high")):
                if default is not None and ax[key] == default[1] and ax[key]["v"]["t"] != "expr":
                    continue  # covered by the wildcard
                res[nm + "-+"[upper]] = rs(a, upper)
        return res, style
    snames = side_names(gspec)
    for a, ax in enumerate(bc["axes"]):
        nm = alts.get(names[a], names[a])
        if isinstance(ax, str):
            res[nm] = ax
            continue
        if style == "axis" or (style == "mixed_keys" and a % 2 == 0 and ax["low"] == ax["high"]
                               and ax["low"]["v"]["t"] not in ("expr",)):
            res[nm] = rs(a, False)
        elif style == "named" or (style == "mixed_keys" and a % 2 == 1):
            res[snames[a][0]] = rs(a, False)
            res[snames[a][1]] = rs(a, True)
        else:
            res[nm + "-"] = rs(a, False)
            res[nm + "+"] = rs(a, True)
    return res, style


def make_boundaries(bc, gspec, grid, dtype="f8"):
    """Parse the rendered assignment with py-pde (deprecated formats under a filter)."""
    obj, style = render_bc(bc, gspec, grid, dtype)
    with warnings.catch_warnings():
        warnings.simplefilter("ignore", DeprecationWarning)
        return grid.get_boundary_conditions(obj, rank=bc["rank"]), style


# -----------------------------------------------------------------------------------
# reference semantics
# -----------------------------------------------------------------------------------
def face_index(nax, offset, axis, pos):
    idx = [slice(None)] * offset + [slice(1, -1)] * nax
    idx[offset + axis] = pos
    return tuple(idx)


def face_arrays(data_full, gspec, axis, upper):
    """ghost, first and second valid layer of a face (views into data_full)"""
    nax = len(gspec["shape"])
    off = data_full.ndim - nax
    g = data_full[face_index(nax, off, axis, -1 if upper else 0)]
    c1 = data_full[face_index(nax, off, axis, -2 if upper else 1)]
    c2 = None
    if gspec["shape"][axis] >= 2:
        c2 = data_full[face_index(nax, off, axis, -3 if upper else 2)]
    return g, c1, c2


def spacing(gspec, axis):
    lo, hi = axes_bounds(gspec)[axis]
    return (hi - lo) / gspec["shape"][axis]


def face_parameters(side, gspec, axis, upper, rank, dtype, c1, t):
    """numeric parameters (v, c) of a side; for expression kinds they depend on the
    adjacent cell values ``c1`` and the time ``t``"""
    kw = {"gspec": gspec, "axis": axis, "upper": upper, "rank": rank, "normal": side["normal"],
          "dtype": dtype}
    v = materialize(side["v"], value=c1, t=t, **kw)
    c = materialize(side["c"], value=c1, t=t, **kw) if "c" in side else None
    return v, c


def expected_ghost(side, gspec, axis, upper, rank, dtype, c1, c2, t=0.0):
    """ghost-cell values the documented conditions imply (for the constrained components)"""
    dx = spacing(gspec, axis)
    v, c = face_parameters(side, gspec, axis, upper, rank, dtype, c1, t)
    kind = side["kind"].replace("_expression", "")
    if kind == "value":
        return 2 * v - c1
    if kind == "derivative":
        return c1 + dx * v
    if kind == "mixed":
        with np.errstate(divide="ignore", invalid="ignore"):
            return ((2 - v * dx) * c1 + 2 * dx * c) / (2 + v * dx)
    if kind == "curvature":
        return 2 * c1 - c2 + v * dx * dx
    raise ValueError(kind)


def face_residual(side, gspec, axis, upper, rank, dtype, g, c1, c2, t=0.0):
    """(|residual|, scale) of the documented condition evaluated on ghost/valid cells"""
    dx = spacing(gspec, axis)
    v, c = face_parameters(side, gspec, axis, upper, rank, dtype, c1, t)
    kind = side["kind"].replace("_expression", "")
    if kind == "value":
        res = (g + c1) / 2 - v
        scale = np.abs(g) + np.abs(c1) + np.abs(v)
    elif kind == "derivative":
        res = (g - c1) / dx - v
        scale = (np.abs(g) + np.abs(c1)) / dx + np.abs(v)
    elif kind == "mixed":
        res = (g - c1) / dx + v * (g + c1) / 2 - c
        scale = (np.abs(g) + np.abs(c1)) * (1 / dx + np.abs(v)) + np.abs(c)
    elif kind == "curvature":
        res = (g - 2 * c1 + c2) / dx**2 - v
        scale = (np.abs(g) + 2 * np.abs(c1) + np.abs(c2)) / dx**2 + np.abs(v)
    else:
        raise ValueError(kind)
    return np.abs(res), scale


def robin_denominators(bc, gspec, dtype, t=0.0):
    """min |2 + gamma*dx| over all Robin sides (singular when 0) - for generator guards"""
    worst = math.inf
    for a, ax in enumerate(bc["axes"]):
        if isinstance(ax, str):
            continue
        for upper, key in ((False, "low"), (True, "high")):
            s = ax[key]
            if s["kind"] in ("mixed", "mixed_expression"):
                v, _ = face_parameters(s, gspec, a, upper, bc["rank"], dtype, 0.0, t)
                worst = min(worst, float(np.min(np.abs(2 + v * spacing(gspec, a)))))
    return worst


def apply_reference(bc, gspec, data_full, dtype="f8", t=0.0):
    """Set the ghost cells of ``data_full`` in place according to the semantic assignment
    (axis by axis, like the documented procedure; corners are not meaningful)."""
    rank = bc["rank"]
    nax = len(gspec["shape"])
    off = data_full.ndim - nax
    for a, ax in enumerate(bc["axes"]):
        if isinstance(ax, str):
            sign = -1 if ax == "anti-periodic" else 1
            lo_g = face_index(nax, off, a, 0)
            hi_g = face_index(nax, off, a, -1)
            lo_c = face_index(nax, off, a, 1)
            hi_c = face_index(nax, off, a, -2)
            data_full[lo_g] = sign * data_full[hi_c]
            data_full[hi_g] = sign * data_full[lo_c]
            continue
        for upper, key in ((False, "low"), (True, "high")):
            s = ax[key]
            g, c1, c2 = face_arrays(data_full, gspec, a, upper)
            gi = face_index(nax, off, a, -1 if upper else 0)
            if s["normal"]:
                # the normal component is the one whose *last* tensor index is the axis
                sel = (Ellipsis, a) + (slice(None),) * (nax - 1)
                c2n = None if c2 is None else c2[sel]
                gi = gi[: off - 1] + (a,) + gi[off:]
                data_full[gi] = expected_ghost(s, gspec, a, upper, rank, dtype, c1[sel], c2n, t)
            else:
                data_full[gi] = expected_ghost(s, gspec, a, upper, rank, dtype, c1, c2, t)
    return data_full


def bc_kinds_key(bc):
    out = []
    for ax in bc["axes"]:
        if isinstance(ax, str):
            out.append(ax)
        else:
            out.append(tuple(("n" if ax[k]["normal"] else "") + ax[k]["kind"] + ":" + ax[k]["v"]["t"]
                             for k in ("low", "high")))
    return tuple(out)


def is_nontrivial(bc):
    """at least one inhomogeneous or non-Dirichlet/Neumann face, or a normal / expression /
    array-valued condition"""
    for ax in bc["axes"]:
        if isinstance(ax, str):
            continue
        for k in ("low", "high"):
            s = ax[k]
            if s["kind"] not in ("value", "derivative") or s["normal"] or s["v"]["t"] != "num" \
                    or s["v"]["x"] != 0:
                return True
    return False


def same_local_bc(a, b):
    """structural equality of two local boundary-condition objects (independent of the
    package's __eq__, which is ambiguous for array-valued Robin constants)"""
    if type(a) is not type(b):
        return False
    for attr in ("axis", "upper", "rank", "normal"):
        if getattr(a, attr) != getattr(b, attr):
            return False
    if hasattr(a, "flip_sign") and a.flip_sign != b.flip_sign:
        return False
    if hasattr(a, "_input"):
        ia, ib = a._input, b._input
        return all(ia[k] == ib[k] for k in ("value_expr", "const_expr", "target")) \
            and a.value_cell == b.value_cell
    if hasattr(a, "value"):
        va, vb = np.asarray(a.value), np.asarray(b.value)
        try:
            va, vb = np.broadcast_arrays(va, vb)
        except ValueError:
            return False
        if not np.array_equal(va, vb):
            return False
    if hasattr(a, "const"):
        ca, cb = np.asarray(a.const), np.asarray(b.const)
        try:
            ca, cb = np.broadcast_arrays(ca, cb)
        except ValueError:
            return False
        if not np.array_equal(ca, cb):
            return False
    return True


def same_boundaries(A, B):
    if len(A) != len(B):
        return False
    for pa, pb in zip(A, B):
        if type(pa) is not type(pb):
            return False
        if not (same_local_bc(pa.low, pb.low) and same_local_bc(pa.high, pb.high)):
            return False
    return True
