"""Worker process: runs one shard of one sub-check and writes a result file.

Usage (by the runner)::

    python -m vlib.worker <module> <subcheck> <tier> <seed> <n> <outfile> [replayfile]

Phase 1 ("collect") runs all generated cases, never raising inside Hypothesis, and
buckets violations by root-cause key.  Phase 2 ("shrink") re-runs the same seeded search
once per bucket with the test function failing only for that key, so that Hypothesis
shrinks it; the test function itself remembers the smallest failing case it has seen, so
an interrupted shrink still yields the best reproduction found.
"""

from __future__ import annotations

import importlib
import os
import sys
import time
import traceback
from collections import Counter

from . import env

env.setup()

from .core import (  # noqa: E402
    HarnessError,
    History,
    Rejected,
    SubCheck,
    Violation,
    case_hash,
    dumps,
    loads,
)

REPO_PDE = os.path.join(env.REPO, "pde") + os.sep
VERIF = env.VERIF_DIR + os.sep

#: exception type names that are documented validation errors of py-pde
VALIDATION_ERRORS = {
    "BCDataError",
    "PeriodicityError",
    "DimensionError",
    "DomainError",
    "NotImplementedError",
    "ValueError",
    "RuntimeError",
    "UnsupportedFieldClassError",
}


class _StopSearch(BaseException):
    pass


def classify_exception(exc: BaseException):
    """Return ('violation'|'rejected'|'harness', key, text) for an escaped exception."""
    tb = traceback.extract_tb(exc.__traceback__)
    last = None
    for fr in tb:
        fn = os.path.abspath(fr.filename)
        if fn.startswith(REPO_PDE):
            last = ("repo", fr)
        elif fn.startswith(VERIF):
            last = ("verif", fr)
    text = "".join(traceback.format_exception_only(type(exc), exc)).strip()
    if last is None or last[0] == "verif":
        return "harness", None, text
    fr = last[1]
    where = f"{os.path.relpath(fr.filename, env.REPO)}:{fr.name}"
    name = type(exc).__name__
    if name in VALIDATION_ERRORS:
        return "rejected", None, f"{text} @ {where}"
    return "violation", f"exception:{name}@{where}", f"unexpected {text} @ {where}"


class Recorder:
    def __init__(self, sub: SubCheck, tier: str):
        self.sub = sub
        self.tier = tier
        self.evaluations = 0
        self.rejected = 0
        self.reject_samples: list[str] = []
        self.skipped = 0
        self.nt: set[str] = set()
        self.labels: Counter = Counter()
        self.samples: list = []
        self.trivial_sample = None
        self.violations: dict[str, dict] = {}
        self.harness_errors: list[str] = []
        self.t0 = time.time()
        self.limit = sub.time_limit[tier]
        self.stopped = False  # search ended early because the time budget ran out
        self.focus: str | None = None  # phase 2: the key being shrunk
        self.shrink_deadline = None

    # ------------------------------------------------------------------
    def timed_out(self) -> bool:
        return time.time() - self.t0 > self.limit

    def run_case(self, case, fn, count=True):
        """Run ``fn(case)`` and account for the outcome; used by both phases.

        Returns True when ``fn`` completed without violation/rejection/error.  With
        ``count=False`` a success is not recorded as an evaluation (history steps).
        """
        if self.focus is None:
            if self.timed_out():
                self.skipped += 1
                if not count:
                    # inside a history: stop the whole search (idling would make the data
                    # generation of the state machine depend on the wall clock)
                    self.stopped = True
                    raise _StopSearch()
                return False
        elif time.time() > self.shrink_deadline:
            raise _StopSearch()
        trace = os.environ.get("VERIF_TRACE")
        if trace:
            trace = f"{trace}.{os.getpid()}"  # one file per worker process
        if trace:
            # debugging aid: the sequence of cases one worker process executes (history effects between cases)
            with open(trace, "a") as fh:
                fh.write(dumps(case) + "\n")
        try:
            rec = fn(case) or {}
        except Violation as v:
            if trace:
                with open(trace, "a") as fh:
                    fh.write("# violation " + (v.key or "") + "\n")
            self._violation(v.key or "default", v.detail, case)
            return False
        except Rejected as r:
            self._rejected(str(r))
            return False
        except HarnessError as e:
            self._harness(f"{e}", case)
            return False
        except (_StopSearch, KeyboardInterrupt):
            raise
        except BaseException as e:  # noqa: BLE001
            kind, key, text = classify_exception(e)
            if kind == "violation":
                self._violation(key, text, case)
            elif kind == "rejected":
                self._rejected(text)
            else:
                self._harness(text + "\n" + traceback.format_exc(), case)
            return False
        if self.focus is not None or not count:
            return True
        self.evaluations += 1
        for lab in rec.get("labels", ()):  # distribution statistics
            self.labels[lab] += 1
        if rec.get("nt", False):
            key = rec.get("key", case)
            h = case_hash(key)
            if h not in self.nt:
                self.nt.add(h)
                if len(self.samples) < 3:
                    self.samples.append(case)
        elif self.trivial_sample is None:
            self.trivial_sample = case
        return True

    def _rejected(self, text):
        if self.focus is None:
            self.evaluations += 1
            self.rejected += 1
            if len(self.reject_samples) < 5:
                self.reject_samples.append(text[:300])

    def _harness(self, text, case):
        if self.focus is None and len(self.harness_errors) < 5:
            self.harness_errors.append(text[:3000] + "\ncase: " + dumps(case)[:1500])

    def _violation(self, key, detail, case):
        size = len(dumps(case))
        if self.focus is None:
            self.evaluations += 1
            old = self.violations.get(key)
            if old is None or size < old["size"]:
                self.violations[key] = {
                    "key": key,
                    "detail": detail[:2000],
                    "case": case,
                    "size": size,
                    "count": (old["count"] if old else 0) + 1,
                }
            else:
                old["count"] += 1
            return
        # phase 2
        if key == self.focus:
            old = self.violations[key]
            if size < old["size"]:
                old.update(detail=detail[:2000], case=case, size=size, shrunk=True)
            raise Violation(detail, key)

    # ------------------------------------------------------------------
    def result(self):
        return {
            "sub": self.sub.name,
            "mode": self.sub.mode,
            "evaluations": self.evaluations,
            "rejected": self.rejected,
            "reject_samples": self.reject_samples,
            "skipped_time": self.skipped,
            "nt": sorted(self.nt),
            "labels": dict(self.labels),
            "samples": self.samples or ([self.trivial_sample] if self.trivial_sample else []),
            "violations": list(self.violations.values()),
            "harness_errors": self.harness_errors,
            "wall_s": time.time() - self.t0,
        }


def _settings(n, steps=None, shrink=False):
    from hypothesis import HealthCheck, Phase, settings

    phases = [Phase.generate] + ([Phase.shrink] if shrink else [])
    kw = {}
    if steps is not None:
        kw["stateful_step_count"] = steps
    return settings(
        max_examples=max(1, n),
        deadline=None,
        database=None,
        derandomize=False,
        report_multiple_bugs=False,
        phases=phases,
        suppress_health_check=list(HealthCheck),
        print_blob=False,
        **kw,
    )


def build_machine(hcls: type, rec: Recorder):
    """Build a Hypothesis RuleBasedStateMachine from a History subclass."""
    from hypothesis import strategies as st
    from hypothesis.stateful import RuleBasedStateMachine, initialize, precondition, rule

    class Machine(RuleBasedStateMachine):
        def __init__(self):
            super().__init__()
            self.h = None
            self.case = None
            self.dead = False

        @initialize(init=hcls.init_strategy())
        def _init(self, init):
            self.case = {"init": init, "ops": []}

            def mk(case):
                self.h = hcls(case["init"])
                self.h.invariant()

            self._guard(mk)

        def _guard(self, fn):
            """Run one step through the recorder's accounting (without counting)."""
            if self.dead:
                return
            if not rec.run_case(self.case, fn, count=False):
                self.dead = True

        def teardown(self):
            if self.h is not None:
                try:
                    if not self.dead and self.case is not None:
                        rec.run_case(self.case, lambda case: self.h.record())
                finally:
                    try:
                        self.h.teardown()
                    except Exception:  # noqa: BLE001
                        pass

    def make_rule(name, builder):
        def applicable(self):
            if self.dead or self.h is None:
                return True  # dead machines idle (all rules are no-ops) so Hypothesis can finish
            return builder(self.h) is not None

        @precondition(applicable)
        @rule(data=st.data())
        def r(self, data):
            if self.dead or self.h is None:
                return
            strat = builder(self.h)
            args = data.draw(strat, label=name)
            self.case["ops"].append([name, args])

            def step(case):
                getattr(self.h, "op_" + name)(**args)
                self.h.invariant()

            self._guard(step)

        r.__name__ = "rule_" + name
        return r

    for name, builder in hcls.OPS.items():
        setattr(Machine, "rule_" + name, make_rule(name, builder))
    Machine.__name__ = hcls.__name__ + "Machine"
    return Machine


def run_search(sub: SubCheck, rec: Recorder, seed: int, n: int, shrink: bool):
    import hypothesis
    from hypothesis import given

    if sub.history is not None:
        from hypothesis.stateful import run_state_machine_as_test

        machine = build_machine(sub.history, rec)
        run_state_machine_as_test(
            hypothesis.seed(seed)(machine),
            settings=_settings(n, steps=sub.steps[rec.tier], shrink=shrink),
        )
        return

    strategy = sub.strategy()

    @hypothesis.seed(seed)
    @_settings(n, shrink=shrink)
    @given(strategy)
    def test(case):
        rec.run_case(case, sub.check)

    test()


def find_sub(module: str, name: str) -> SubCheck:
    mod = importlib.import_module("checks." + module)
    for s in mod.SUBCHECKS:
        if s.name == name:
            return s
    raise HarnessError(f"no sub-check {name} in {module}")


def check_fn(sub: SubCheck):
    if sub.history is not None:
        return sub.history.replay
    return sub.check


def main(argv):
    module, subname, tier, seed, n, outfile = argv[:6]
    seed, n = int(seed), int(n)
    sub = find_sub(module, subname)
    rec = Recorder(sub, tier)
    fatal = None
    try:
        if len(argv) > 6:  # replay mode: list of cases in a file, bypassing Hypothesis
            with open(argv[6]) as fh:
                entries = loads(fh.read())
            fn = check_fn(sub)
            rec.limit = 1e9
            for entry in entries:
                rec.run_case(entry["case"], fn)
        else:
            try:
                run_search(sub, rec, seed, n, shrink=False)
            except BaseException:  # noqa: BLE001
                # time budget of a stateful search exhausted (Hypothesis may wrap the stop
                # signal in its own error): fewer evaluations, not an error
                if not rec.stopped:
                    raise
            # phase 2: shrink up to three buckets
            budget = 60 if tier == "quick" else 300
            known = set(loads(os.environ.get("VERIF_KNOWN_KEYS", "[]")))
            for key in [k for k in rec.violations if k not in known][:3]:  # known findings are not shrunk
                rec.focus = key
                rec.shrink_deadline = time.time() + budget
                try:
                    run_search(sub, rec, seed, n, shrink=True)
                except (Violation, _StopSearch):
                    pass
                except BaseException as e:  # noqa: BLE001
                    if "Violation" not in repr(e) and "Flaky" not in type(e).__name__:
                        rec.harness_errors.append("shrink phase: " + repr(e)[:500])
                finally:
                    rec.focus = None
    except BaseException as e:  # noqa: BLE001
        fatal = "".join(traceback.format_exception(type(e), e, e.__traceback__))[-4000:]
    res = rec.result()
    if fatal:
        res["harness_errors"].append("fatal: " + fatal)
    with open(outfile, "w") as fh:
        fh.write(dumps(res))
    return 0


if __name__ == "__main__":
    sys.exit(main(sys.argv[1:]))
